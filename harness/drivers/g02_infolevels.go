package drivers

// Growth G02: the SMB1 information-level structures (network/smb/smb_v10/informationlevels), the three readings of the
// SecurityFeatures header field (network/smb/smb_v10/message/securityfeatures) and the small fixed-layout structures of
// windows/ms_dtyp/common/data_structures, bound to spec/InfoLevels.tla through the case table of spec/G02Cases.tla.
// Not one of the listed properties: every mismatch is reported as DRIFT, once per (site, aspect) with the number of cases.
//
//   shape lines   the declaration of a structure (field names in order, kinds, widths) against the Go struct (reflect):
//                 name, field:<F> (missing), type:<F>, fieldorder, extrafield:<F>
//   case lines    the real struct is filled by reflect from the model's value; Marshal bytes are compared with the model's
//                 encoding (marshal:error, length, encode:<F>, marshal:aliases-receiver); the model's bytes || suffix are
//                 unmarshalled into a fresh struct (unmarshal:error, consumed, decode:<F>, reencode, unmarshal:aliases-input);
//                 strict prefixes must be rejected (truncated:accepted).  A Marshal that returns no bytes together with an
//                 Unmarshal that consumes nothing and leaves the struct untouched is reported once as `unimplemented`.
//                 Structures without Marshal/Unmarshal methods (data_structures) are serialised by their declaration:
//                 fields in order, integers little-endian at their declared width (aspects layout:<F>, layout:size).
//   union lines   the same 8 bytes under the three SecurityFeatures readings: union:decode:<F>, union:reencode
//   list lines    NextEntryOffset chains: a law of the specification only (the library has no list codec); counted.

import (
	"bytes"
	"encoding/json"
	"fmt"
	"reflect"
	"strings"

	"github.com/TheManticoreProject/Manticore/network/smb/smb_v10/informationlevels"
	"github.com/TheManticoreProject/Manticore/network/smb/smb_v10/message/securityfeatures"
	"github.com/TheManticoreProject/Manticore/windows/ms_dtyp/common/data_structures"
	"verif/harness/h"
)

func init() { h.Register("g02.infolevels", g02InfoLevels) }

// model name -> the library's type (the library's own spelling is used in the site)
var g02Types = map[string]func() interface{}{
	"SMB_FIND_FILE_DIRECTORY_INFO":      func() interface{} { return &informationlevels.SMB_FIND_FILE_DIRECTORY_INFO{} },
	"SMB_FIND_FILE_FULL_DIRECTORY_INFO": func() interface{} { return &informationlevels.SMB_FIND_FILE_FULL_DIRECTORY_INFO{} },
	"SMB_FIND_FILE_NAMES_INFO":          func() interface{} { return &informationlevels.SMB_FIND_FILE_NAMES_INFO{} },
	"SMB_FIND_FILE_BOTH_DIRECTORY_INFO": func() interface{} { return &informationlevels.SMB_FIND_FILE_BOTH_DIRECTORY_INFO{} },
	"SMB_INFO_ALLOCATION":               func() interface{} { return &informationlevels.SMB_INFO_ALLOCATION{} },
	"SMB_INFO_VOLUME":                   func() interface{} { return &informationlevels.SMB_INFO_VOLUME{} },
	"SMB_QUERY_FS_VOLUME_INFO":          func() interface{} { return &informationlevels.SMB_QUERY_FS_VOLUME_INFO{} },
	"SMB_QUERY_FS_SIZE_INFO":            func() interface{} { return &informationlevels.SMB_QUERY_FS_SIZE_INFO{} },
	"SMB_QUERY_FS_DEVICE_INFO":          func() interface{} { return &informationlevels.SMB_QUERY_FS_DEVICE_INFO{} },
	"SMB_QUERY_FS_ATTRIBUTE_INFO":       func() interface{} { return &informationlevels.SMB_QUERY_FS_ATTRIBUTE_INFO{} },
	"SMB_INFO_QUERY_EA_SIZE":            func() interface{} { return &informationlevels.SMB_INFO_QUERY_EA_SIZE{} },
	"SMB_INFO_QUERY_EAS_FROM_LIST":      func() interface{} { return &informationlevels.SMB_INFO_QUERY_EAS_FROM_LIST{} },
	"SMB_INFO_QUERY_ALL_EAS":            func() interface{} { return &informationlevels.SMB_INFO_QUERY_ALL_EAS{} },
	"SMB_INFO_IS_NAME_VALID":            func() interface{} { return &informationlevels.SMB_INFO_IS_NAME_VALID{} },
	"SMB_QUERY_FILE_BASIC_INFO":         func() interface{} { return &informationlevels.SMB_QUERY_FILE_BASIC_INFO{} },
	"SMB_QUERY_FILE_STANDARD_INFO":      func() interface{} { return &informationlevels.SMB_QUERY_FILE_STANDARD_INFO{} },
	"SMB_QUERY_FILE_EA_INFO":            func() interface{} { return &informationlevels.SMB_QUERY_FILE_EA_INFO{} },
	"SMB_QUERY_FILE_NAME_INFO":          func() interface{} { return &informationlevels.SMB_QUERY_FILE_NAME_INFO{} },
	"SMB_QUERY_FILE_ALL_INFO":           func() interface{} { return &informationlevels.SMB_QUERY_FILE_ALL_INFO{} },
	"SMB_QUERY_FILE_ALT_NAME_INFO":      func() interface{} { return &informationlevels.SMB_QUERY_FILE_ALT_NAME_INFO{} },
	"SMB_QUERY_FILE_STREAM_INFO":        func() interface{} { return &informationlevels.SMB_QUERY_FILE_STREAM_INFO{} },
	"SMB_QUERY_FILE_COMPRESSION_INFO":   func() interface{} { return &informationlevels.SMB_QUERY_FILE_COMRESSION_INFO{} },
	"SMB_INFO_STANDARD":                 func() interface{} { return &informationlevels.SMB_INFO_STANDARD{} },
	"SMB_INFO_SET_EAS":                  func() interface{} { return &informationlevels.SMB_INFO_SET_EAS{} },
	"SMB_SET_FILE_BASIC_INFO":           func() interface{} { return &informationlevels.SMB_SET_FILE_BASIC_INFO{} },
	"SMB_SET_FILE_DISPOSITION_INFO":     func() interface{} { return &informationlevels.SMB_SET_FILE_DISPOSITION_INFO{} },
	"SMB_SET_FILE_ALLOCATION_INFO":      func() interface{} { return &informationlevels.SMB_SET_FILE_ALLOCATION_INFO{} },
	"SMB_SET_FILE_END_OF_FILE_INFO":     func() interface{} { return &informationlevels.SMB_SET_FILE_END_OF_FILE_INFO{} },

	"SecurityFeaturesSecuritySignature":       func() interface{} { return securityfeatures.NewSecurityFeaturesSecuritySignature() },
	"SecurityFeaturesConnectionlessTransport": func() interface{} { return securityfeatures.NewSecurityFeaturesConnectionlessTransport() },
	"SecurityFeaturesReserved":                func() interface{} { return securityfeatures.NewSecurityFeaturesReserved() },

	"SYSTEMTIME":         func() interface{} { return &data_structures.SYSTEMTIME{} },
	"LUID":               func() interface{} { return &data_structures.LUID{} },
	"LARGE_INTEGER":      func() interface{} { return &data_structures.LARGE_INTEGER{} },
	"ULARGE_INTEGER":     func() interface{} { return &data_structures.ULARGE_INTEGER{} },
	"UINT128":            func() interface{} { return &data_structures.UINT128{} },
	"EVENT_DESCRIPTOR":   func() interface{} { return &data_structures.EVENT_DESCRIPTOR{} },
	"EVENT_HEADER":       func() interface{} { return &data_structures.EVENT_HEADER{} },
	"RPC_UNICODE_STRING": func() interface{} { return &data_structures.RPC_UNICODE_STRING{} },
	"MULTI_SZ":           func() interface{} { return &data_structures.MULTI_SZ{} },
	"OBJECT_TYPE_LIST":   func() interface{} { return &data_structures.OBJECT_TYPE_LIST{} },
	"SERVER_INFO_100":    func() interface{} { return &data_structures.SERVER_INFO_100{} },
	"SERVER_INFO_101":    func() interface{} { return &data_structures.SERVER_INFO_101{} },
}

// ---------------------------------------------------------------- the specification's vocabulary

type g02Field struct {
	Name string          `json:"name"`
	K    string          `json:"k"`
	Off  int             `json:"off"`
	N    int             `json:"n"`
	Len  string          `json:"len"`
	Ref  string          `json:"ref"`
	V    json.RawMessage `json:"v"`
}

type g02Line struct {
	K     string     `json:"k"`
	G     string     `json:"g"`
	S     string     `json:"s"`
	ID    string     `json:"id"`
	F     []g02Field `json:"f"`
	Enc   h.Bytes    `json:"enc"`
	Fixed int        `json:"fixed"`
	Cut   []int      `json:"cut"`
	Law   bool       `json:"law"`
	Wire  bool       `json:"wire"`
	Sufs  []h.Bytes  `json:"sufs"`
	Bytes h.Bytes    `json:"bytes"`
	Views []struct {
		S string                     `json:"s"`
		V map[string]json.RawMessage `json:"v"`
	} `json:"views"`
}

type g02Codec interface {
	Marshal() ([]byte, error)
	Unmarshal([]byte) (int, error)
}

type g02Drift struct {
	site, aspect, detail string
	sample               interface{}
	n                    int
}

type g02State struct {
	c      *h.Ctx
	sufs   []h.Bytes
	shapes map[string][]g02Field
	order  []string
	drifts map[string]*g02Drift
	stubs  map[string]bool
	seen   map[string]int
}

func (st *g02State) drift(site, aspect, detail string, sample interface{}) {
	k := site + "\x00" + aspect
	if d, ok := st.drifts[k]; ok {
		d.n++
		return
	}
	st.order = append(st.order, k)
	st.drifts[k] = &g02Drift{site, aspect, detail, sample, 1}
}

func g02Norm(s string) string { return strings.ToLower(strings.ReplaceAll(s, "_", "")) }

func g02Hex(b []byte) string {
	if len(b) > 96 {
		return h.Hex(b[:96]) + fmt.Sprintf("...(%d bytes)", len(b))
	}
	return h.Hex(b)
}

// ---------------------------------------------------------------- model values

func g02U64(raw json.RawMessage) (uint64, error) {
	if len(raw) > 0 && raw[0] == '[' {
		var limbs []uint64
		if err := json.Unmarshal(raw, &limbs); err != nil {
			return 0, err
		}
		var u uint64
		for _, l := range limbs {
			if l > 0xFFFF {
				return 0, fmt.Errorf("limb out of range: %d", l)
			}
			u = u<<16 | l
		}
		return u, nil
	}
	var u uint64
	err := json.Unmarshal(raw, &u)
	return u, err
}

type g02Triple [3]int // smbdate: year month day; smbtime: hour minute twosec

func g02TripleOf(k string, raw json.RawMessage) (g02Triple, error) {
	var m map[string]int
	if err := json.Unmarshal(raw, &m); err != nil {
		return g02Triple{}, err
	}
	if k == "smbdate" {
		return g02Triple{m["year"], m["month"], m["day"]}, nil
	}
	return g02Triple{m["hour"], m["minute"], m["twosec"]}, nil
}

// want: the model's value of a field in a canonical Go form (uint64, g02Triple, []byte, []uint16, map for embedded structures)
func (st *g02State) want(f g02Field, enc []byte) (interface{}, error) {
	switch f.K {
	case "u8", "u16", "u32", "i32", "u64", "i64", "filetime":
		return g02U64(f.V)
	case "smbdate", "smbtime":
		return g02TripleOf(f.K, f.V)
	case "bytes", "var":
		var b h.Bytes
		err := json.Unmarshal(f.V, &b)
		return []byte(b), err
	case "wchars":
		var w []uint16
		if string(f.V) == "{}" {
			return []uint16{}, nil
		}
		err := json.Unmarshal(f.V, &w)
		return w, err
	case "fealist": // the library keeps the list as its raw bytes: SizeOfListInBytes + FEAList
		if len(enc) < 4 {
			return nil, fmt.Errorf("fealist encoding shorter than 4 bytes")
		}
		return append([]byte{}, enc...), nil
	case "struct":
		sub, ok := st.shapes[f.Ref]
		if !ok {
			return nil, fmt.Errorf("no shape for embedded structure %s", f.Ref)
		}
		var m map[string]json.RawMessage
		if err := json.Unmarshal(f.V, &m); err != nil {
			return nil, err
		}
		out := map[string]interface{}{}
		for _, sf := range sub {
			sf.V = m[sf.Name]
			w, err := st.want(sf, nil)
			if err != nil {
				return nil, err
			}
			out[sf.Name] = w
		}
		return out, nil
	}
	return nil, fmt.Errorf("kind %q has no value form", f.K)
}

// ---------------------------------------------------------------- reflect helpers

func g02Unwrap(t reflect.Type) reflect.Type { // single-field wrappers: LARGE_INTEGER{QuadPart}, SMB_FILE_ATTRIBUTES{Attributes}
	for t.Kind() == reflect.Struct && t.NumField() == 1 {
		t = t.Field(0).Type
	}
	return t
}
func g02UnwrapV(v reflect.Value) reflect.Value {
	for v.Kind() == reflect.Struct && v.NumField() == 1 {
		v = v.Field(0)
	}
	return v
}
func g02IsUint(t reflect.Type) bool {
	switch t.Kind() {
	case reflect.Uint8, reflect.Uint16, reflect.Uint32, reflect.Uint64:
		return true
	}
	return false
}
func g02IsInt(t reflect.Type) bool {
	switch t.Kind() {
	case reflect.Int8, reflect.Int16, reflect.Int32, reflect.Int64:
		return true
	}
	return false
}
func g02IsFiletime(t reflect.Type) bool {
	if t.Kind() != reflect.Struct || t.NumField() != 2 {
		return false
	}
	return t.Field(0).Name == "DwLowDateTime" && t.Field(1).Name == "DwHighDateTime" &&
		t.Field(0).Type.Kind() == reflect.Uint32 && t.Field(1).Type.Kind() == reflect.Uint32
}
func g02HasFields(t reflect.Type, names ...string) bool {
	if t.Kind() != reflect.Struct {
		return false
	}
	for _, n := range names {
		if _, ok := t.FieldByName(n); !ok {
			return false
		}
	}
	return true
}
func g02RawCodec(t reflect.Type) bool { // GUID-like: ToBytes() []byte / FromRawBytes([]byte)
	pt := reflect.PointerTo(t)
	_, a := pt.MethodByName("ToBytes")
	_, b := pt.MethodByName("FromRawBytes")
	return a && b
}

// compat: "" when the declared Go type can carry a field of this kind, else what is wrong with it
func g02Compat(t reflect.Type, f g02Field) string {
	switch f.K {
	case "u8", "u16", "u32", "u64", "i32", "i64":
		bits := f.N * 8
		if g02IsFiletime(t) {
			return fmt.Sprintf("declared as %s (two 32-bit halves); the document has one %d-bit integer", t, bits)
		}
		u := g02Unwrap(t)
		signed := f.K[0] == 'i'
		switch {
		case g02IsUint(u) || g02IsInt(u):
			if u.Bits() != bits {
				return fmt.Sprintf("declared %d bits wide (%s); the document has %d bits", u.Bits(), t, bits)
			}
			if t.Kind() == reflect.Struct { // a named wrapper (LARGE_INTEGER): its signedness is judged at its own declaration
				return ""
			}
			if signed && g02IsUint(u) {
				return fmt.Sprintf("declared unsigned (%s); the document defines a signed %d-bit integer", u, bits)
			}
			if !signed && g02IsInt(u) {
				return fmt.Sprintf("declared signed (%s); the document defines an unsigned %d-bit integer", u, bits)
			}
			return ""
		}
		return fmt.Sprintf("declared as %s, not a %d-bit integer", t, bits)
	case "filetime":
		if g02IsFiletime(t) || g02Unwrap(t).Kind() == reflect.Uint64 {
			return ""
		}
		return fmt.Sprintf("declared as %s, not a FILETIME", t)
	case "smbdate":
		if g02HasFields(t, "Year", "Month", "Day") || t.Kind() == reflect.Uint16 {
			return ""
		}
		return fmt.Sprintf("declared as %s, not an SMB_DATE", t)
	case "smbtime":
		if g02HasFields(t, "Hour", "Minute") || t.Kind() == reflect.Uint16 {
			return ""
		}
		if g02IsFiletime(t) {
			return "types.SMB_TIME is an alias of the 8-byte FILETIME; MS-CIFS 2.2.1.4.2 SMB_TIME is a 16-bit packed word " +
				"(HOUR 0xF800, MINUTES 0x07E0, SECONDS 0x001F in 2-second units)"
		}
		return fmt.Sprintf("declared as %s, not an SMB_TIME", t)
	case "bytes":
		switch {
		case t.Kind() == reflect.Array && t.Elem().Kind() == reflect.Uint8:
			if t.Len() != f.N {
				return fmt.Sprintf("declared as %s; the document has %d bytes", t, f.N)
			}
			return ""
		case t.Kind() == reflect.Slice && t.Elem().Kind() == reflect.Uint8:
			return ""
		case t.Kind() == reflect.Struct && g02RawCodec(t):
			return ""
		}
		return fmt.Sprintf("declared as %s; the document has %d raw bytes", t, f.N)
	case "wchars":
		if (t.Kind() == reflect.Array && t.Elem().Kind() == reflect.Uint16 && t.Len() == f.N/2) ||
			(t.Kind() == reflect.Slice && t.Elem().Kind() == reflect.Uint16) {
			return ""
		}
		return fmt.Sprintf("declared as %s; the document has %d UTF-16 code units", t, f.N/2)
	case "var":
		if t.Kind() == reflect.String || (t.Kind() == reflect.Slice && (t.Elem().Kind() == reflect.Uint8 || t.Elem().Kind() == reflect.Uint16)) ||
			g02HasFields(t, "Buffer") {
			return ""
		}
		return fmt.Sprintf("declared as %s; the document has a byte string counted by %s", t, f.Len)
	case "fealist":
		if g02HasFields(t, "SizeOfListInBytes", "FEAList") {
			return ""
		}
		return fmt.Sprintf("declared as %s, not an SMB_FEA_LIST", t)
	case "struct":
		if t.Kind() == reflect.Struct {
			return ""
		}
		return fmt.Sprintf("declared as %s, not the embedded structure %s", t, f.Ref)
	case "pwstr":
		switch {
		case t.Kind() == reflect.String, t.Kind() == reflect.Pointer && t.Elem().Kind() == reflect.Uint16,
			t.Kind() == reflect.Slice && t.Elem().Kind() == reflect.Uint16:
			return ""
		case t.Kind() == reflect.Uint16:
			return "declared as ONE 16-bit character (WCHAR); the document has a pointer to a string of them (wchar_t*)"
		case t.Kind() == reflect.Slice && t.Elem().Kind() == reflect.Uint8:
			return fmt.Sprintf("declared as a byte string (%s); the document has a pointer to a string of 16-bit characters (wchar_t*)", t)
		}
		return fmt.Sprintf("declared as %s; the document has a pointer to a string of 16-bit characters", t)
	case "pguid":
		if t.Kind() == reflect.Pointer && t.Elem().Kind() == reflect.Struct {
			return ""
		}
		return fmt.Sprintf("declared as %s; the document has a pointer to a GUID", t)
	}
	return "unknown kind " + f.K
}

// goField: the Go field that carries the model field nm (names compared without case and underscores)
func g02GoField(t reflect.Type, nm string) (int, bool) {
	for i := 0; i < t.NumField(); i++ {
		if t.Field(i).IsExported() && g02Norm(t.Field(i).Name) == g02Norm(nm) {
			return i, true
		}
	}
	return 0, false
}

func g02SetUint(v reflect.Value, bits int, u uint64) {
	if g02IsFiletime(v.Type()) {
		v.Field(0).SetUint(u & 0xFFFFFFFF)
		v.Field(1).SetUint(u >> 32)
		return
	}
	v = g02UnwrapV(v)
	if g02IsInt(v.Type()) {
		v.SetInt(int64(u<<(64-uint(bits))) >> (64 - uint(bits))) // the bit pattern, sign-extended
		return
	}
	v.SetUint(u)
}
func g02GetUint(v reflect.Value, bits int) uint64 {
	if g02IsFiletime(v.Type()) {
		return v.Field(0).Uint() | v.Field(1).Uint()<<32
	}
	v = g02UnwrapV(v)
	var u uint64
	if g02IsInt(v.Type()) {
		u = uint64(v.Int())
	} else {
		u = v.Uint()
	}
	if bits < 64 {
		u &= 1<<uint(bits) - 1
	}
	return u
}

// set puts the model value w into the Go field v (the type was found compatible)
func (st *g02State) set(v reflect.Value, f g02Field, w interface{}) {
	switch f.K {
	case "u8", "u16", "u32", "i32", "u64", "i64", "filetime":
		g02SetUint(v, f.N*8, w.(uint64))
	case "smbdate", "smbtime":
		t := w.(g02Triple)
		if v.Kind() == reflect.Uint16 {
			if f.K == "smbdate" {
				v.SetUint(uint64((t[0]-1980)<<9 | t[1]<<5 | t[2]))
			} else {
				v.SetUint(uint64(t[0]<<11 | t[1]<<5 | t[2]))
			}
			return
		}
		names := []string{"Year", "Month", "Day"}
		if f.K == "smbtime" {
			names = []string{"Hour", "Minute"}
		}
		for i, n := range names {
			v.FieldByName(n).SetUint(uint64(t[i]))
		}
		if f.K == "smbtime" {
			for _, n := range []string{"TwoSeconds", "TwoSecond", "Seconds", "Second"} {
				if sv := v.FieldByName(n); sv.IsValid() {
					if strings.HasPrefix(n, "Two") {
						sv.SetUint(uint64(t[2]))
					} else {
						sv.SetUint(uint64(2 * t[2]))
					}
					break
				}
			}
		}
	case "bytes", "var", "wchars":
		st.setSeq(v, w)
	case "fealist":
		b := w.([]byte)
		g02SetUint(v.FieldByName("SizeOfListInBytes"), 32, uint64(b[0])|uint64(b[1])<<8|uint64(b[2])<<16|uint64(b[3])<<24)
		st.setSeq(v.FieldByName("FEAList"), b[4:])
	case "struct":
		m := w.(map[string]interface{})
		for _, sf := range st.shapes[f.Ref] {
			if i, ok := g02GoField(v.Type(), sf.Name); ok && g02Compat(v.Type().Field(i).Type, sf) == "" {
				st.set(v.Field(i), sf, m[sf.Name])
			}
		}
	}
}

func (st *g02State) setSeq(v reflect.Value, w interface{}) {
	if v.Kind() == reflect.Struct && g02RawCodec(v.Type()) {
		v.Addr().MethodByName("FromRawBytes").Call([]reflect.Value{reflect.ValueOf(append([]byte{}, w.([]byte)...))})
		return
	}
	if v.Kind() == reflect.Struct { // SMB_STRING / OEM_STRING: Buffer (+ Length)
		b := w.([]byte)
		st.setSeq(v.FieldByName("Buffer"), b)
		if l := v.FieldByName("Length"); l.IsValid() && g02IsUint(l.Type()) {
			l.SetUint(uint64(len(b)))
		}
		return
	}
	if v.Kind() == reflect.String {
		v.SetString(string(w.([]byte)))
		return
	}
	var elems []uint64
	switch x := w.(type) {
	case []byte:
		if v.Type().Elem().Kind() == reflect.Uint16 { // a byte string held as 16-bit units
			for i := 0; i+1 < len(x); i += 2 {
				elems = append(elems, uint64(x[i])|uint64(x[i+1])<<8)
			}
		} else {
			for _, e := range x {
				elems = append(elems, uint64(e))
			}
		}
	case []uint16:
		for _, e := range x {
			elems = append(elems, uint64(e))
		}
	}
	if v.Kind() == reflect.Slice {
		v.Set(reflect.MakeSlice(v.Type(), len(elems), len(elems)))
	}
	for i := 0; i < v.Len() && i < len(elems); i++ {
		v.Index(i).SetUint(elems[i])
	}
}

// get reads the Go field back in the canonical form of want
func (st *g02State) get(v reflect.Value, f g02Field) interface{} {
	switch f.K {
	case "u8", "u16", "u32", "i32", "u64", "i64", "filetime":
		return g02GetUint(v, f.N*8)
	case "smbdate", "smbtime":
		if v.Kind() == reflect.Uint16 {
			u := int(v.Uint())
			if f.K == "smbdate" {
				return g02Triple{1980 + u>>9, u >> 5 & 15, u & 31}
			}
			return g02Triple{u >> 11, u >> 5 & 63, u & 31}
		}
		if f.K == "smbdate" {
			return g02Triple{int(v.FieldByName("Year").Uint()), int(v.FieldByName("Month").Uint()), int(v.FieldByName("Day").Uint())}
		}
		t := g02Triple{int(v.FieldByName("Hour").Uint()), int(v.FieldByName("Minute").Uint()), 0}
		for _, n := range []string{"TwoSeconds", "TwoSecond", "Seconds", "Second"} {
			if sv := v.FieldByName(n); sv.IsValid() {
				t[2] = int(sv.Uint())
				if !strings.HasPrefix(n, "Two") {
					t[2] /= 2
				}
				break
			}
		}
		return t
	case "bytes", "var":
		return st.getBytes(v)
	case "wchars":
		out := []uint16{}
		for i := 0; i < v.Len(); i++ {
			out = append(out, uint16(v.Index(i).Uint()))
		}
		return out
	case "fealist":
		n := g02GetUint(v.FieldByName("SizeOfListInBytes"), 32)
		return append([]byte{byte(n), byte(n >> 8), byte(n >> 16), byte(n >> 24)}, st.getBytes(v.FieldByName("FEAList"))...)
	case "struct":
		out := map[string]interface{}{}
		for _, sf := range st.shapes[f.Ref] {
			if i, ok := g02GoField(v.Type(), sf.Name); ok && g02Compat(v.Type().Field(i).Type, sf) == "" {
				out[sf.Name] = st.get(v.Field(i), sf)
			}
		}
		return out
	}
	return nil
}

func (st *g02State) getBytes(v reflect.Value) []byte {
	if v.Kind() == reflect.Struct && g02RawCodec(v.Type()) {
		r := v.Addr().MethodByName("ToBytes").Call(nil)
		return append([]byte{}, r[0].Bytes()...)
	}
	if v.Kind() == reflect.Struct {
		return st.getBytes(v.FieldByName("Buffer"))
	}
	if v.Kind() == reflect.String {
		return []byte(v.String())
	}
	out := []byte{}
	for i := 0; i < v.Len(); i++ {
		e := v.Index(i).Uint()
		if v.Type().Elem().Kind() == reflect.Uint16 {
			out = append(out, byte(e), byte(e>>8))
		} else {
			out = append(out, byte(e))
		}
	}
	return out
}

// ---------------------------------------------------------------- serialisation by declaration (types without a codec)

// declEncode: fields in declaration order, integers little-endian at their declared width, arrays element by element,
// embedded types with their own Marshal / ToBytes through it.  ok=false: the declaration has no fixed serialisation.
func g02DeclEncode(v reflect.Value, out *[]byte) bool {
	if v.CanAddr() {
		if c, ok := v.Addr().Interface().(g02Codec); ok {
			b, err := c.Marshal()
			*out = append(*out, b...)
			return err == nil
		}
		if v.Kind() == reflect.Struct && g02RawCodec(v.Type()) {
			*out = append(*out, v.Addr().MethodByName("ToBytes").Call(nil)[0].Bytes()...)
			return true
		}
	}
	switch {
	case g02IsUint(v.Type()) || g02IsInt(v.Type()):
		var u uint64
		if g02IsInt(v.Type()) {
			u = uint64(v.Int())
		} else {
			u = v.Uint()
		}
		for i := 0; i < v.Type().Bits()/8; i++ {
			*out = append(*out, byte(u>>(8*uint(i))))
		}
		return true
	case v.Kind() == reflect.Array:
		for i := 0; i < v.Len(); i++ {
			if !g02DeclEncode(v.Index(i), out) {
				return false
			}
		}
		return true
	case v.Kind() == reflect.Struct:
		for i := 0; i < v.NumField(); i++ {
			if !g02DeclEncode(v.Field(i), out) {
				return false
			}
		}
		return true
	}
	return false
}

func g02DeclDecode(v reflect.Value, data []byte) (int, bool) {
	if v.CanAddr() {
		if c, ok := v.Addr().Interface().(g02Codec); ok {
			n, err := c.Unmarshal(data)
			return n, err == nil
		}
		if v.Kind() == reflect.Struct && g02RawCodec(v.Type()) {
			if len(data) < 16 {
				return 0, false
			}
			v.Addr().MethodByName("FromRawBytes").Call([]reflect.Value{reflect.ValueOf(append([]byte{}, data[:16]...))})
			return 16, true
		}
	}
	switch {
	case g02IsUint(v.Type()) || g02IsInt(v.Type()):
		w := v.Type().Bits() / 8
		if len(data) < w {
			return 0, false
		}
		var u uint64
		for i := 0; i < w; i++ {
			u |= uint64(data[i]) << (8 * uint(i))
		}
		if g02IsInt(v.Type()) {
			v.SetInt(int64(u<<(64-uint(8*w))) >> (64 - uint(8*w)))
		} else {
			v.SetUint(u)
		}
		return w, true
	case v.Kind() == reflect.Array, v.Kind() == reflect.Struct:
		n, cnt := 0, 0
		if v.Kind() == reflect.Array {
			cnt = v.Len()
		} else {
			cnt = v.NumField()
		}
		for i := 0; i < cnt; i++ {
			e := v
			if v.Kind() == reflect.Array {
				e = v.Index(i)
			} else {
				e = v.Field(i)
			}
			k, ok := g02DeclDecode(e, data[n:])
			if !ok {
				return 0, false
			}
			n += k
		}
		return n, true
	}
	return 0, false
}

type g02DeclCodec struct{ v reflect.Value }

func (d g02DeclCodec) Marshal() ([]byte, error) {
	out := []byte{}
	if !g02DeclEncode(d.v, &out) {
		return nil, fmt.Errorf("the declaration has no fixed serialisation")
	}
	return out, nil
}
func (d g02DeclCodec) Unmarshal(data []byte) (int, error) {
	n, ok := g02DeclDecode(d.v, data)
	if !ok {
		return 0, fmt.Errorf("short or unserialisable")
	}
	return n, nil
}

// codecOf: the type's own Marshal/Unmarshal, else the serialisation of its declaration (own=false), else nil
func g02CodecOf(obj interface{}) (g02Codec, bool) {
	if c, ok := obj.(g02Codec); ok {
		return c, true
	}
	probe := []byte{}
	if g02DeclEncode(reflect.New(reflect.TypeOf(obj).Elem()).Elem(), &probe) {
		return g02DeclCodec{reflect.ValueOf(obj).Elem()}, false
	}
	return nil, false
}

// ---------------------------------------------------------------- the driver

func g02InfoLevels(c *h.Ctx) error {
	st := &g02State{c: c, shapes: map[string][]g02Field{}, drifts: map[string]*g02Drift{}, stubs: map[string]bool{}, seen: map[string]int{}}
	modelOnly, shapeOnly, bound, lists := map[string]bool{}, map[string]bool{}, map[string]bool{}, 0
	err := c.Lines(func(raw []byte) error {
		var ln g02Line
		if err := json.Unmarshal(raw, &ln); err != nil {
			return fmt.Errorf("%v in %.200s", err, raw)
		}
		switch ln.K {
		case "hdr":
			st.sufs = ln.Sufs
		case "shape":
			st.shapes[ln.S] = ln.F
			c.Case("shape:" + ln.S)
			mk, ok := g02Types[ln.S]
			if !ok {
				modelOnly[ln.S] = true
				return nil
			}
			bound[ln.S] = true
			if !ln.Wire {
				shapeOnly[ln.S] = true
			}
			st.shape(ln, mk())
		case "case":
			if !ln.Law {
				return fmt.Errorf("the specification's own laws fail on its case %s %s", ln.S, ln.ID)
			}
			c.Case(ln.S + ":" + ln.ID)
			mk, ok := g02Types[ln.S]
			if !ok {
				return nil
			}
			if err := st.runCase(ln, mk); err != nil {
				return fmt.Errorf("%s %s: %v", ln.S, ln.ID, err)
			}
		case "union":
			if !ln.Law {
				return fmt.Errorf("the specification's union law fails on %v", ln.Bytes)
			}
			c.Case("union:" + h.Hex(ln.Bytes))
			if err := st.runUnion(ln); err != nil {
				return err
			}
		case "list":
			if !ln.Law {
				return fmt.Errorf("the specification's list law fails on %s", ln.S)
			}
			c.Case("")
			lists++
		default:
			return fmt.Errorf("unknown line kind %q", ln.K)
		}
		return nil
	})
	if err != nil {
		return err
	}
	for _, k := range st.order {
		d := st.drifts[k]
		c.Drift(d.site, d.aspect, fmt.Sprintf("%s [x%d]", d.detail, d.n), d.sample)
	}
	c.Set("structures_bound", len(bound))
	c.Set("structures_model_only", len(modelOnly))
	c.Set("structures_shape_only", len(shapeOnly))
	c.Set("structures_unimplemented", len(st.stubs))
	c.Set("list_laws_checked_in_model", lists)
	c.Set("cases_executed_per_group", st.seen)
	return nil
}

func g02Site(g string, obj interface{}) string { return g + "." + reflect.TypeOf(obj).Elem().Name() }

// shape: the declaration against the layout table
func (st *g02State) shape(ln g02Line, obj interface{}) {
	t := reflect.TypeOf(obj).Elem()
	site := g02Site(ln.G, obj)
	smp := map[string]interface{}{"structure": ln.S, "document_fields": g02Names(ln.F), "declared_fields": g02DeclNames(t)}
	st.c.Exec(1)
	if t.Name() != ln.S {
		st.drift(site, "name", fmt.Sprintf("the type is named %s; the document names the structure %s", t.Name(), ln.S), smp)
	}
	used, last, ordered := map[int]bool{}, -1, true
	for _, f := range ln.F {
		i, ok := g02GoField(t, f.Name)
		if !ok {
			st.drift(site, "field:"+f.Name, fmt.Sprintf("no field carries %s (%s%s) of the document's layout", f.Name, f.K, g02Width(f)), smp)
			continue
		}
		used[i] = true
		if i < last {
			ordered = false
		}
		last = i
		if why := g02Compat(t.Field(i).Type, f); why != "" {
			st.drift(site, "type:"+f.Name, why, smp)
		}
	}
	if !ordered {
		st.drift(site, "fieldorder", "the fields are declared in another order than the document's layout", smp)
	}
	for i := 0; i < t.NumField(); i++ {
		if t.Field(i).IsExported() && !used[i] {
			st.drift(site, "extrafield:"+t.Field(i).Name, fmt.Sprintf("field %s (%s) is not part of the document's layout", t.Field(i).Name, t.Field(i).Type), smp)
		}
	}
}

func g02Width(f g02Field) string {
	if f.K == "var" {
		return ", counted by " + f.Len
	}
	if f.N > 0 {
		return fmt.Sprintf(", %d bytes", f.N)
	}
	return ""
}
func g02Names(fs []g02Field) []string {
	out := []string{}
	for _, f := range fs {
		out = append(out, f.Name+":"+f.K)
	}
	return out
}
func g02DeclNames(t reflect.Type) []string {
	out := []string{}
	for i := 0; i < t.NumField(); i++ {
		out = append(out, t.Field(i).Name+":"+t.Field(i).Type.String())
	}
	return out
}

type g02Bound struct {
	f    g02Field
	idx  int
	want interface{}
}

// bind: the model fields that the Go struct can carry, with their values
func (st *g02State) bind(t reflect.Type, fs []g02Field, enc []byte) ([]g02Bound, error) {
	var out []g02Bound
	for _, f := range fs {
		i, ok := g02GoField(t, f.Name)
		if !ok || g02Compat(t.Field(i).Type, f) != "" {
			continue
		}
		var slice []byte
		if enc != nil {
			slice = enc[f.Off : f.Off+f.N]
		}
		w, err := st.want(f, slice)
		if err != nil {
			return nil, fmt.Errorf("field %s: %v", f.Name, err)
		}
		out = append(out, g02Bound{f, i, w})
	}
	return out, nil
}

func (st *g02State) runCase(ln g02Line, mk func() interface{}) error {
	obj := mk()
	t := reflect.TypeOf(obj).Elem()
	site := g02Site(ln.G, obj)
	codec, own := g02CodecOf(obj)
	if codec == nil || st.stubs[site] {
		return nil
	}
	st.seen[ln.G]++
	enc := []byte(ln.Enc)
	bs, err := st.bind(t, ln.F, enc)
	if err != nil {
		return err
	}
	for _, b := range bs {
		st.set(reflect.ValueOf(obj).Elem().Field(b.idx), b.f, b.want)
	}
	smp := map[string]interface{}{"structure": ln.S, "case": ln.ID, "model_bytes": g02Hex(enc)}
	enA, deA, lenA := "encode:", "decode:", "length"
	if !own {
		enA, deA, lenA = "layout:", "layout-read:", "layout:size"
	}
	var got []byte
	var merr error
	pan := h.Guard(func() { got, merr = codec.Marshal() })
	st.c.Exec(1)
	if pan != "" {
		st.drift(site+".Marshal", "panic", "Marshal panicked: "+pan, smp)
		return nil
	}
	// an empty Marshal with an Unmarshal that consumes nothing and changes nothing: the codec is not written yet
	if own && merr == nil && len(got) == 0 && len(enc) > 0 {
		fresh := mk()
		n, uerr := 0, error(nil)
		if h.Guard(func() { n, uerr = fresh.(g02Codec).Unmarshal(append([]byte{}, enc...)) }) == "" && uerr == nil && n == 0 &&
			reflect.DeepEqual(fresh, mk()) {
			st.stubs[site] = true
			st.drift(site, "unimplemented", fmt.Sprintf("Marshal returns no bytes (the document's layout has %d) and Unmarshal consumes nothing and "+
				"leaves the structure untouched, both without an error", len(enc)), smp)
			return nil
		}
	}
	smp["marshal_bytes"] = g02Hex(got)
	if merr != nil {
		st.drift(site+".Marshal", "marshal:error", "Marshal fails on a well-formed value: "+merr.Error(), smp)
	} else {
		if len(got) != len(enc) {
			st.drift(site+".Marshal", lenA, fmt.Sprintf("%d bytes, the document's layout has %d", len(got), len(enc)), smp)
		}
		for _, b := range bs {
			lo, hi := b.f.Off, b.f.Off+b.f.N
			if hi > len(got) {
				if lo < len(got) || len(got) == len(enc) {
					st.drift(site+".Marshal", enA+b.f.Name, fmt.Sprintf("bytes %d..%d are cut off", lo, hi), smp)
				}
				continue
			}
			if !bytes.Equal(got[lo:hi], enc[lo:hi]) {
				st.drift(site+".Marshal", enA+b.f.Name, fmt.Sprintf("bytes %d..%d are %s, the document's layout gives %s", lo, hi,
					g02Hex(got[lo:hi]), g02Hex(enc[lo:hi])), smp)
			}
		}
		if own && len(got) > 0 { // the encoding is a function of the value: writing into the returned slice must not change the object
			keep := append([]byte{}, got...)
			for i := range got {
				got[i] ^= 0xFF
			}
			again, _ := codec.Marshal()
			if !bytes.Equal(again, keep) {
				st.drift(site+".Marshal", "marshal:aliases-receiver", "the slice returned by Marshal shares storage with the receiver: "+
					"writing into it changes what the object marshals to next", smp)
			}
			got = keep
		}
	}
	if !own && len(got) != len(enc) { // the declaration does not have the document's size: reading the document's bytes with it says nothing more
		return nil
	}
	if own && ln.ID == "zero" { // the constructor's value is the all-zero structure
		if def, derr := mk().(g02Codec).Marshal(); derr == nil && len(bs) == len(ln.F) && !bytes.Equal(def, enc) {
			st.drift(site, "default", fmt.Sprintf("a new object marshals to %s, not to the all-zero structure", g02Hex(def)), smp)
		}
	}
	// ---- decode the model's bytes followed by each suffix
	for si, suf := range st.sufs {
		if !own && si > 1 {
			break
		}
		in := append(append([]byte{}, enc...), suf...)
		fresh := mk()
		fc, _ := g02CodecOf(fresh)
		n, uerr := 0, error(nil)
		pan := h.Guard(func() { n, uerr = fc.Unmarshal(in) })
		st.c.Exec(1)
		tag := ""
		if len(suf) > 0 {
			tag = "suffix:"
		}
		if pan != "" {
			st.drift(site+".Unmarshal", tag+"panic", "Unmarshal panicked: "+pan, smp)
			continue
		}
		if uerr != nil {
			st.drift(site+".Unmarshal", tag+"unmarshal:error", "Unmarshal rejects the document's encoding: "+uerr.Error(), smp)
			continue
		}
		if n != len(enc) {
			st.drift(site+".Unmarshal", tag+"consumed", fmt.Sprintf("consumed %d, the structure has %d bytes (%d follow)", n, len(enc), len(suf)), smp)
		}
		for _, b := range bs {
			g := st.get(reflect.ValueOf(fresh).Elem().Field(b.idx), b.f)
			if !reflect.DeepEqual(g, b.want) {
				st.drift(site+".Unmarshal", tag+deA+b.f.Name, fmt.Sprintf("decoded %v, the document's layout gives %v", g02Show(g), g02Show(b.want)), smp)
			}
		}
		if own { // the object must own what it decoded: overwriting the input afterwards changes nothing
			before := make([]interface{}, len(bs))
			for i, b := range bs {
				before[i] = st.get(reflect.ValueOf(fresh).Elem().Field(b.idx), b.f)
			}
			for i := range in {
				in[i] ^= 0xFF
			}
			for i, b := range bs {
				if g := st.get(reflect.ValueOf(fresh).Elem().Field(b.idx), b.f); !reflect.DeepEqual(g, before[i]) {
					st.drift(site+".Unmarshal", "unmarshal:aliases-input", "field "+b.f.Name+" changes when the caller overwrites the buffer it passed to Unmarshal", smp)
				}
			}
		}
		var re []byte
		var rerr error
		if h.Guard(func() { re, rerr = fc.Marshal() }) == "" && rerr == nil && len(bs) == len(ln.F) && !bytes.Equal(re, enc) {
			st.drift(site+".Marshal", tag+"reencode", fmt.Sprintf("Marshal(Unmarshal(b)) = %s differs from b", g02Hex(re)), smp)
		}
	}
	// ---- strict prefixes of an encoding are not encodings
	for _, k := range ln.Cut {
		fresh := mk()
		fc, _ := g02CodecOf(fresh)
		n, uerr := 0, error(nil)
		pan := h.Guard(func() { n, uerr = fc.Unmarshal(append([]byte{}, enc[:k]...)) })
		st.c.Exec(1)
		if pan != "" {
			st.drift(site+".Unmarshal", "truncated:panic", fmt.Sprintf("Unmarshal panicked on the first %d of %d bytes: %s", k, len(enc), pan), smp)
		} else if uerr == nil {
			st.drift(site+".Unmarshal", "truncated:accepted", fmt.Sprintf("the first %d of %d bytes are accepted (consumed %d)", k, len(enc), n), smp)
		}
	}
	st.c.Sample(map[string]interface{}{"structure": ln.S, "case": ln.ID, "bytes": g02Hex(enc), "own_codec": own})
	return nil
}

func g02Show(x interface{}) string {
	switch v := x.(type) {
	case []byte:
		return g02Hex(v)
	case uint64:
		return fmt.Sprintf("0x%x", v)
	}
	return fmt.Sprint(x)
}

func (st *g02State) runUnion(ln g02Line) error {
	for _, vw := range ln.Views {
		mk, ok := g02Types[vw.S]
		if !ok {
			continue
		}
		obj := mk()
		site := g02Site("securityfeatures", obj)
		codec, _ := g02CodecOf(obj)
		if codec == nil {
			continue
		}
		smp := map[string]interface{}{"bytes": h.Hex(ln.Bytes), "reading": vw.S}
		in := append([]byte{}, ln.Bytes...)
		n, err := 0, error(nil)
		pan := h.Guard(func() { n, err = codec.Unmarshal(in) })
		st.c.Exec(1)
		if pan != "" || err != nil || n != 8 {
			st.drift(site+".Unmarshal", "union:unmarshal", fmt.Sprintf("n=%d err=%v panic=%s on the 8 header bytes", n, err, pan), smp)
			continue
		}
		fs := append([]g02Field{}, st.shapes[vw.S]...)
		for i := range fs {
			fs[i].V = vw.V[fs[i].Name]
		}
		bs, berr := st.bind(reflect.TypeOf(obj).Elem(), fs, nil)
		if berr != nil {
			return berr
		}
		for _, b := range bs {
			if g := st.get(reflect.ValueOf(obj).Elem().Field(b.idx), b.f); !reflect.DeepEqual(g, b.want) {
				st.drift(site+".Unmarshal", "union:decode:"+b.f.Name, fmt.Sprintf("decoded %v, this reading of the bytes gives %v", g02Show(g), g02Show(b.want)), smp)
			}
		}
		for i := range in { // the object must own what it decoded
			in[i] ^= 0xFF
		}
		re, rerr := codec.Marshal()
		if rerr != nil || !bytes.Equal(re, ln.Bytes) {
			st.drift(site+".Marshal", "union:reencode", fmt.Sprintf("re-marshals to %s (err %v) after the input buffer was overwritten", g02Hex(re), rerr), smp)
		}
	}
	return nil
}
