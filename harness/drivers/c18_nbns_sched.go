package drivers

// C18 (NBNS servers): schedules chosen by TLC on spec/NameService.tla are forced onto the real
// nbtns.UDPServer / nbtns.Server with the verifGate hooks acting as a scheduler.
//
//   c18.sched  model -> code: the emitted edges form the state graph; the driver builds schedules that cover every
//              edge (shortest path to the edge, the edge, a seeded random continuation to a final state) and executes
//              each step on a real server bound to 127.0.0.1:0: a client send is a real datagram, recv/dispatch/
//              parse/respond are the release of the corresponding gate after the goroutine has arrived at it, stop
//              is a real Stop(). After every step the observation (datagram in the buffer, name-table calls made,
//              reply bytes) is compared with the model's expectation.

import (
	"encoding/binary"
	"encoding/json"
	"fmt"
	"math/rand"
	"net"
	"os"
	"runtime"
	"strings"
	"sync"
	"time"

	"github.com/TheManticoreProject/Manticore/network/netbios/nbtns"
	"verif/harness/h"
)

func init() { h.Register("c18.sched", c18Sched) }

type nsExp struct {
	To    int    `json:"to"`
	Txid  int    `json:"txid"`
	Route string `json:"route"`
}

type nsEdge struct {
	Act string          `json:"act"`
	R   int             `json:"r"`
	Exp nsExp           `json:"exp"`
	F   json.RawMessage `json:"f"`
	T   json.RawMessage `json:"t"`
	fi  int
	ti  int
}

type arrival struct {
	point string
	gid   int
	data  []byte // copy of the bytes the hook saw on arrival
	rel   chan struct{}
}

type gateCtl struct {
	mu      sync.Mutex
	gated   bool
	pending []*arrival
	notify  chan struct{}
}

func (g *gateCtl) hook(point string, data []byte) {
	g.mu.Lock()
	if !g.gated {
		g.mu.Unlock()
		return
	}
	a := &arrival{point: point, gid: goid(), data: append([]byte(nil), data...), rel: make(chan struct{})}
	g.pending = append(g.pending, a)
	g.mu.Unlock()
	select {
	case g.notify <- struct{}{}:
	default:
	}
	<-a.rel
}

// wait returns (and removes) the first pending arrival accepted by ok.
func (g *gateCtl) wait(ok func(*arrival) bool, d time.Duration) *arrival {
	deadline := time.Now().Add(d)
	for {
		g.mu.Lock()
		for i, a := range g.pending {
			if ok(a) {
				g.pending = append(g.pending[:i], g.pending[i+1:]...)
				g.mu.Unlock()
				return a
			}
		}
		g.mu.Unlock()
		if time.Now().After(deadline) {
			return nil
		}
		select {
		case <-g.notify:
		case <-time.After(20 * time.Millisecond):
		}
	}
}

func (g *gateCtl) freeRun() {
	g.mu.Lock()
	g.gated = false
	p := g.pending
	g.pending = nil
	g.mu.Unlock()
	for _, a := range p {
		close(a.rel)
	}
}

// nbnsRequest builds request r with the library's own codec (C18 is about isolation and routing, not wire format).
func nbnsRequest(r int, op int) ([]byte, error) {
	name := &nbtns.NetBIOSName{Name: fmt.Sprintf("HOST%02d", r)}
	target := name
	if op == 5 {
		target = &nbtns.NetBIOSName{Name: fmt.Sprintf("NEW%02d", r)}
	}
	p := &nbtns.NBTNSPacket{
		Header:    nbtns.NBTNSHeader{TransactionID: uint16(0x1100 + r), Flags: uint16(op) << 11, Questions: 1, Answers: 1},
		Questions: []nbtns.NBTNSQuestion{{Name: name, Type: 0x20, Class: 1}},
		Answers:   []nbtns.NBTNSResourceRecord{{Name: target, Type: 0x20, Class: 1, TTL: 3600, RDLength: 4, RData: []byte{10, 0, 0, byte(r)}}},
	}
	return p.Marshal()
}

type nbnsServer interface {
	Start() error
	Stop()
	VerifAddr() net.Addr
}

func nbnsCensus() (int, string) {
	buf := make([]byte, 1<<20)
	n := runtime.Stack(buf, true)
	cnt := 0
	first := ""
	for _, g := range strings.Split(string(buf[:n]), "\n\n") {
		if strings.Contains(g, "netbios/nbtns.") && !strings.Contains(g, "verif/harness/drivers.(*nsRun)") {
			cnt++
			if first == "" {
				first = g
			}
		}
	}
	return cnt, first
}

type nsRun struct {
	c        *h.Ctx
	kind     string
	srv      nbnsServer
	table    *nbtns.NetBIOSNameServer
	gates    *gateCtl
	clients  map[int]*net.UDPConn
	reqOp    []int
	reqCl    []int
	loopA    *arrival         // loop blocked at "recv" or "dispatch"
	handlers map[int]*arrival // request -> its handler's pending arrival
	tops     []string         // name-table calls since last check
	tmu      sync.Mutex
	stopDone chan struct{}
	stopAt   time.Time
	history  []string
	site     string
}

func (r *nsRun) sample() map[string]interface{} {
	return map[string]interface{}{"server": r.kind, "schedule": append([]string(nil), r.history...)}
}

func (r *nsRun) takeTableOps() []string {
	r.tmu.Lock()
	defer r.tmu.Unlock()
	t := r.tops
	r.tops = nil
	return t
}

func newNsRun(c *h.Ctx, kind string, reqCl, reqOp []int) (*nsRun, error) {
	r := &nsRun{c: c, kind: kind, reqOp: reqOp, reqCl: reqCl, clients: map[int]*net.UDPConn{}, handlers: map[int]*arrival{},
		gates: &gateCtl{gated: true, notify: make(chan struct{}, 1)}}
	nbtns.VerifGateHook = r.gates.hook
	nbtns.VerifTableHook = func(n *nbtns.NetBIOSNameServer, op string, name string) {
		r.tmu.Lock()
		r.tops = append(r.tops, op)
		r.tmu.Unlock()
	}
	switch kind {
	case "UDPServer":
		r.table = nbtns.NewNetBIOSNameServer(false)
		s, err := nbtns.NewUDPServer("127.0.0.1:0", r.table)
		if err != nil {
			return nil, err
		}
		r.srv = s
		r.site = "nbtns.UDPServer"
	default:
		s, err := nbtns.NewServer("127.0.0.1:0", false)
		if err != nil {
			return nil, err
		}
		r.srv = s
		r.table = s.VerifTable()
		r.site = "nbtns.Server"
	}
	for i := range reqCl {
		r.table.RegisterName(fmt.Sprintf("HOST%02d", i+1), nbtns.Unique, net.IP{10, 0, 0, byte(i + 1)}, time.Hour)
	}
	r.takeTableOps()
	if err := r.srv.Start(); err != nil {
		return nil, err
	}
	addr := r.srv.VerifAddr().(*net.UDPAddr)
	for _, cl := range reqCl {
		if _, ok := r.clients[cl]; !ok {
			cn, err := net.DialUDP("udp", nil, addr)
			if err != nil {
				return nil, err
			}
			r.clients[cl] = cn
		}
	}
	r.loopA = r.gates.wait(func(a *arrival) bool { return a.point == "recv" }, 3*time.Second)
	if r.loopA == nil {
		return nil, fmt.Errorf("receive loop never reached its recv gate")
	}
	return r, nil
}

func (r *nsRun) close() {
	r.gates.freeRun()
	if r.loopA != nil {
		close(r.loopA.rel)
		r.loopA = nil
	}
	for k, a := range r.handlers {
		close(a.rel)
		delete(r.handlers, k)
	}
	if r.stopDone == nil {
		r.stopDone = make(chan struct{})
		r.stopAt = time.Now()
		go func() { r.srv.Stop(); close(r.stopDone) }()
	}
	select {
	case <-r.stopDone:
	case <-time.After(3 * time.Second):
		r.c.Fail(r.site+".Stop", "stop-hang", "Stop did not return within 3 s of being called (all gates released)", r.sample())
	}
	for _, cn := range r.clients {
		cn.Close()
	}
	// goroutine census: nothing of the package may keep running
	deadline := time.Now().Add(2 * time.Second)
	for time.Now().Before(deadline) {
		if n, _ := nbnsCensus(); n == 0 {
			break
		}
		time.Sleep(10 * time.Millisecond)
	}
	if n, st := nbnsCensus(); n > 0 {
		if r.c.Opt("debug", "") != "" {
			fmt.Fprintln(os.Stderr, "LEAK STACK:\n"+st)
		}
		r.c.Fail(r.site+".Stop", "goroutine-leak", fmt.Sprintf("%d goroutines of the package still alive 2 s after Stop returned; first: %s", n, st), r.sample())
	}
	nbtns.VerifGateHook = nil
	nbtns.VerifTableHook = nil
}

func txidOf(b []byte) int {
	if len(b) < 2 {
		return -1
	}
	return int(binary.BigEndian.Uint16(b[:2])) - 0x1100
}

// checkReply compares reply bytes with the model's expectation (txid and answer of request exp.Txid).
func (r *nsRun) checkReply(where string, b []byte, exp nsExp) {
	c := r.c
	if got := txidOf(b); got != exp.Txid {
		c.Fail(r.site+".handlePacket", "reply-txid", fmt.Sprintf("%s: reply carries the transaction id of request %d, the model (own-bytes handling) says %d", where, got, exp.Txid), r.sample())
		return
	}
	if len(b) < 12 {
		c.Fail(r.site+".handlePacket", "reply-short", fmt.Sprintf("%s: %d-byte reply", where, len(b)), r.sample())
		return
	}
	flags := binary.BigEndian.Uint16(b[2:4])
	rcode := flags & 0x000F
	op := r.reqOp[exp.Txid-1]
	want := map[string]uint16{"query": 0, "register": 0, "release": 0, "refresh": 0, "notimpl": nbtns.RcodeNotImpl}[exp.Route]
	report := c.Fail
	if op == 9 { // RFC 1002 is ambiguous about opcode 9 (4.2.1.1 vs the 4.2.4 diagram): model detail, not a verdict
		report = c.Drift
	}
	if rcode != want {
		report(r.site+".handlePacket", fmt.Sprintf("route:opcode=%d", op), fmt.Sprintf("%s: opcode %d must be handled as %s (rcode %d) but the reply has rcode %d", where, op, exp.Route, want, rcode), r.sample())
		return
	}
	if exp.Route == "query" {
		var p nbtns.NBTNSPacket
		if _, err := p.Unmarshal(b); err != nil {
			c.Fail(r.site+".handlePacket", "reply-unparseable", fmt.Sprintf("%s: the library's own decoder rejects the positive query reply: %v (header %x)", where, err, b[:12]), r.sample())
			return
		}
		wantIP := net.IP{10, 0, 0, byte(exp.Txid)}
		if len(p.Answers) != 1 || !net.IP(p.Answers[0].RData).Equal(wantIP) || strings.TrimRight(p.Answers[0].Name.Name, " ") != fmt.Sprintf("HOST%02d", exp.Txid) {
			c.Fail(r.site+".handlePacket", "reply-answer", fmt.Sprintf("%s: answer of request %d expected (%s), got %d answers %+v", where, exp.Txid, wantIP, len(p.Answers), p.Answers), r.sample())
		}
	}
}

func (r *nsRun) step(e *nsEdge) bool {
	c := r.c
	r.history = append(r.history, fmt.Sprintf("%s(%d)", e.Act, e.R))
	const T = 3 * time.Second
	switch e.Act {
	case "send":
		pkt, err := nbnsRequest(e.R, r.reqOp[e.R-1])
		if err != nil {
			c.Fail("harness", "infra", err.Error(), nil)
			return false
		}
		if _, err := r.clients[r.reqCl[e.R-1]].Write(pkt); err != nil {
			c.Fail("harness", "infra", err.Error(), nil)
			return false
		}
	case "recv":
		close(r.loopA.rel)
		r.loopA = r.gates.wait(func(a *arrival) bool { return a.point == "dispatch" }, T)
		if r.loopA == nil {
			c.Fail(r.site+".serve", "loop-stuck", "loop did not deliver a queued datagram", r.sample())
			return false
		}
		if got := txidOf(r.loopA.data); got != e.R {
			c.Set("udp_reordering_seen", true)
			return false // kernel did not deliver FIFO: no verdict for this schedule
		}
	case "dispatch":
		loopGid := r.loopA.gid
		close(r.loopA.rel)
		ha := r.gates.wait(func(a *arrival) bool { return a.point == "parse" && a.gid != loopGid }, T)
		if ha == nil {
			c.Fail(r.site+".serve", "no-handler", "no handler reached its parse point after dispatch", r.sample())
			return false
		}
		r.handlers[e.R] = ha
		if r.stopDone != nil {
			r.loopA = nil // after Stop the loop leaves through its quit check without reaching the receive point again
			return true
		}
		r.loopA = r.gates.wait(func(a *arrival) bool { return a.point == "recv" && a.gid == loopGid }, T)
		if r.loopA == nil {
			c.Fail(r.site+".serve", "loop-stuck", "loop did not return to its receive point after dispatch", r.sample())
			return false
		}
	case "parse":
		ha := r.handlers[e.R]
		r.takeTableOps()
		close(ha.rel)
		na := r.gates.wait(func(a *arrival) bool { return a.point == "respond" && a.gid == ha.gid }, T)
		if na == nil {
			c.Fail(r.site+".handlePacket", "no-response", fmt.Sprintf("handler of request %d produced no response (decode failure or early return)", e.R), r.sample())
			return false
		}
		r.handlers[e.R] = na
		// routing, observed as the name-table calls the handler made
		ops := r.takeTableOps()
		want := []string{}
		if e.Exp.Route != "notimpl" {
			want = []string{e.Exp.Route}
		}
		op := r.reqOp[e.Exp.Txid-1]
		if strings.Join(ops, ",") != strings.Join(want, ",") && txidOf(na.data) == e.Exp.Txid {
			report := c.Fail
			if op == 9 {
				report = c.Drift
			}
			report(r.site+".handlePacket", fmt.Sprintf("route:opcode=%d", op), fmt.Sprintf("opcode %d: RFC 1002 handler %q, name-table calls made: %v", op, e.Exp.Route, ops), r.sample())
		}
		r.checkReply("response built by the handler of request "+fmt.Sprint(e.R), na.data, e.Exp)
	case "respond":
		ha := r.handlers[e.R]
		close(ha.rel)
		delete(r.handlers, e.R)
		if e.Exp.To == 0 {
			return true // after Stop the socket is closed: the reply is lost, nothing to observe
		}
		cn := r.clients[e.Exp.To]
		cn.SetReadDeadline(time.Now().Add(T))
		buf := make([]byte, 2048)
		n, err := cn.Read(buf)
		if err != nil {
			c.Fail(r.site+".handlePacket", "reply-missing", fmt.Sprintf("client %d received no reply for request %d: %v", e.Exp.To, e.R, err), r.sample())
			return false
		}
		r.checkReply(fmt.Sprintf("reply received by client %d", e.Exp.To), buf[:n], e.Exp)
	case "stop":
		r.stopDone = make(chan struct{})
		r.stopAt = time.Now()
		go func() { r.srv.Stop(); close(r.stopDone) }()
		time.Sleep(25 * time.Millisecond) // Stop closes quit and the socket immediately, then waits for the loop
	case "exit":
		if r.loopA != nil {
			close(r.loopA.rel)
			r.loopA = nil
		}
		select {
		case <-r.stopDone:
		case <-time.After(T):
			c.Fail(r.site+".Stop", "stop-hang", "the receive loop did not exit within 3 s of Stop (its gate was released)", r.sample())
			return false
		}
	}
	return true
}

func c18Sched(c *h.Ctx) error {
	kind := c.Opt("server", "UDPServer")
	seed := int64(c.OptInt("seed", 1))
	maxPaths := c.OptInt("max", 400)
	shard, shards := c.OptInt("shard", 0), c.OptInt("shards", 1)
	var reqCl, reqOp []int
	json.Unmarshal([]byte(c.Opt("clients", "[1,2]")), &reqCl)
	json.Unmarshal([]byte(c.Opt("ops", "[0,0]")), &reqOp)
	ids := map[string]int{}
	id := func(raw json.RawMessage) int {
		k := string(raw)
		if i, ok := ids[k]; ok {
			return i
		}
		ids[k] = len(ids)
		return len(ids) - 1
	}
	var edges []*nsEdge
	var first *nsEdge
	seenEdge := map[string]bool{}
	if err := c.Lines(func(raw []byte) error {
		e := &nsEdge{}
		if err := json.Unmarshal(raw, e); err != nil {
			return err
		}
		if first == nil {
			first = e
		}
		e.fi, e.ti = id(e.F), id(e.T)
		k := fmt.Sprintf("%d|%s|%d|%d", e.fi, e.Act, e.R, e.ti)
		if seenEdge[k] {
			return nil
		}
		seenEdge[k] = true
		edges = append(edges, e)
		return nil
	}); err != nil {
		return err
	}
	if first == nil {
		return fmt.Errorf("no edges")
	}
	n := len(ids)
	out := make([][]int, n)
	indeg := make([]int, n)
	for i, e := range edges {
		out[e.fi] = append(out[e.fi], i)
		indeg[e.ti]++
	}
	init := -1
	for s := 0; s < n; s++ {
		if indeg[s] == 0 {
			init = s
		}
	}
	if init < 0 {
		return fmt.Errorf("no initial state")
	}
	parent := make([]int, n)
	for i := range parent {
		parent[i] = -2
	}
	parent[init] = -1
	q := []int{init}
	for len(q) > 0 {
		s := q[0]
		q = q[1:]
		for _, ei := range out[s] {
			if t := edges[ei].ti; parent[t] == -2 {
				parent[t] = ei
				q = append(q, t)
			}
		}
	}
	rng := rand.New(rand.NewSource(seed))
	var paths [][]int
	for ei, e := range edges {
		var p []int
		for s := e.fi; s != init; s = edges[parent[s]].fi {
			p = append(p, parent[s])
		}
		for i, j := 0, len(p)-1; i < j; i, j = i+1, j-1 {
			p[i], p[j] = p[j], p[i]
		}
		p = append(p, ei)
		for s := e.ti; len(out[s]) > 0; {
			nx := out[s][rng.Intn(len(out[s]))]
			p = append(p, nx)
			s = edges[nx].ti
		}
		paths = append(paths, p)
	}
	rng.Shuffle(len(paths), func(i, j int) { paths[i], paths[j] = paths[j], paths[i] })
	// keep paths until every edge is covered, then up to the cap
	covered := map[int]bool{}
	var chosen [][]int
	for _, p := range paths {
		novel := false
		for _, ei := range p {
			if !covered[ei] {
				novel = true
			}
		}
		if novel || len(chosen) < maxPaths {
			chosen = append(chosen, p)
			for _, ei := range p {
				covered[ei] = true
			}
		}
	}
	if hm := c.OptInt("hardmax", 0); hm > 0 && len(chosen) > hm {
		chosen = chosen[:hm] // a seeded random subset (the candidate list was shuffled); edge coverage is reported below
		covered = map[int]bool{}
		for _, p := range chosen {
			for _, ei := range p {
				covered[ei] = true
			}
		}
	}
	steps, runs := 0, 0
	for pi, p := range chosen {
		if pi%shards != shard {
			continue
		}
		run, err := newNsRun(c, kind, reqCl, reqOp)
		if err != nil {
			return err
		}
		for _, ei := range p {
			if !run.step(edges[ei]) {
				break
			}
			steps++
		}
		run.close()
		runs++
		c.Case(fmt.Sprintf("%s:%d", kind, pi))
		if runs == 1 {
			c.Sample(run.sample())
		}
	}
	c.Exec(steps)
	c.Set("schedules", runs)
	c.Set("graph_edges", len(edges))
	c.Set("graph_states", n)
	c.Set("edges_covered_by_all_shards", len(covered))
	return nil
}
