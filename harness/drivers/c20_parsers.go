package drivers

// C20: address, port-range and hash-specification parsers bound to spec/IPAddr.tla, HashSpec.tla,
// C20Cases.tla, TraceC20.tla.
//
//   c20.cases   model -> code: every case TLC enumerated (CIDR text both ways, network address, subnet membership for
//               all prefix lengths x boundary probes, ranges, IPv6 groups, port pairs, hash forms x pads x case) is run
//               on the real code and compared with the result the specification computed.
//   c20.record  code -> model: seeded random full-range values are pushed through the same entry points; one ndjson
//               line per call with the inputs and what the code answered; TLC (TraceC20.tla) recomputes every answer.

import (
	"encoding/json"
	"fmt"
	"math/rand"
	"strings"

	"github.com/TheManticoreProject/Manticore/network/ip"
	"github.com/TheManticoreProject/Manticore/windows/credentials"
	"verif/harness/h"
)

func init() {
	h.Register("c20.cases", c20Cases)
	h.Register("c20.record", c20Record)
}

type c20Case struct {
	K      string          `json:"k"`
	IP     []int           `json:"ip"`
	P      int             `json:"p"`
	Text   []int           `json:"text"`
	Net    []int           `json:"net"`
	Bc     []int           `json:"bc"`
	Role   string          `json:"role"`
	Canon  bool            `json:"canon"`
	R      bool            `json:"r"`
	S      json.RawMessage `json:"s"`
	E      json.RawMessage `json:"e"`
	G      []int           `json:"g"`
	Ok     bool            `json:"ok"`
	Bare   []int           `json:"bare"`
	LM     []int           `json:"lm"`
	NT     []int           `json:"nt"`
	Padded bool            `json:"padded"`
	Cs     string          `json:"cs"`
}

func str(cps []int) string {
	var b strings.Builder
	for _, c := range cps {
		b.WriteRune(rune(c))
	}
	return b.String()
}

func ints(raw json.RawMessage) []int {
	var xs []int
	if len(raw) > 0 && raw[0] == '[' {
		json.Unmarshal(raw, &xs)
	}
	return xs
}

func intOf(raw json.RawMessage) int {
	var x int
	json.Unmarshal(raw, &x)
	return x
}

func v4(o []int, p int) *ip.IPv4 {
	return ip.NewIPv4(uint8(o[0]), uint8(o[1]), uint8(o[2]), uint8(o[3]), uint8(p))
}
func v6(g []int) *ip.IPv6 {
	return ip.NewIPv6(uint16(g[0]), uint16(g[1]), uint16(g[2]), uint16(g[3]), uint16(g[4]), uint16(g[5]), uint16(g[6]), uint16(g[7]))
}
func oct4(x *ip.IPv4) []int { return []int{int(x.A), int(x.B), int(x.C), int(x.D)} }
func grp6(x *ip.IPv6) []int {
	return []int{int(x.A), int(x.B), int(x.C), int(x.D), int(x.E), int(x.F), int(x.G), int(x.H)}
}
func eqInts(a, b []int) bool {
	if len(a) != len(b) {
		return false
	}
	for i := range a {
		if a[i] != b[i] {
			return false
		}
	}
	return true
}

// parse4 runs NewIPv4FromString under a panic guard.
func parse4(s string) (res *ip.IPv4, panicked string) {
	panicked = h.Guard(func() { res = ip.NewIPv4FromString(s) })
	return
}

func polarity(code, spec bool) string {
	if code && !spec {
		return "false-positive"
	}
	return "false-negative"
}

// onceCtx reports a D-tagged mismatch once per (site, aspect) and counts the rest.
type onceCtx struct {
	*h.Ctx
	seen map[string]int
}

func (d *onceCtx) Drift(site, aspect, detail string, sample interface{}) {
	k := site + "/" + aspect
	d.seen[k]++
	if d.seen[k] == 1 {
		d.Ctx.Drift(site, aspect, detail, sample)
	}
}

func c20Cases(cc *h.Ctx) error {
	c := &onceCtx{cc, map[string]int{}}
	perKind := map[string]int{}
	err := c.Lines(func(raw []byte) error {
		var k c20Case
		if err := json.Unmarshal(raw, &k); err != nil {
			return err
		}
		perKind[k.K]++
		switch k.K {
		case "ip4rt":
			c.Case(fmt.Sprintf("ip4rt:%v/%d", k.IP, k.P))
			want := str(k.Text)
			x := v4(k.IP, k.P)
			sample := map[string]interface{}{"ip": k.IP, "prefix": k.P, "cidr_text": want}
			if perKind[k.K] == 5 {
				c.Sample(sample)
			}
			got := x.String()
			if got != want {
				c.Drift("ip.IPv4.String", "text-form", fmt.Sprintf("printed %q, CIDR notation is %q", got, want), sample)
			}
			if ca := x.CIDRAddress(); ca != want {
				c.Drift("ip.IPv4.CIDRAddress", "text-form", fmt.Sprintf("printed %q, CIDR notation is %q", ca, want), sample)
			}
			back, pan := parse4(got)
			c.Exec(3)
			switch {
			case pan != "":
				c.Fail("ip.NewIPv4FromString", "roundtrip:panic", fmt.Sprintf("NewIPv4FromString(%q) panicked: %s", got, pan), sample)
			case back == nil:
				c.Fail("ip.NewIPv4FromString", "roundtrip:rejects-printed-cidr", fmt.Sprintf("NewIPv4FromString(%q) = nil for the text IPv4.String printed", got), sample)
			case !eqInts(oct4(back), k.IP) || int(back.MaskBits) != k.P:
				c.Fail("ip.NewIPv4FromString", "roundtrip:wrong-value", fmt.Sprintf("NewIPv4FromString(%q) = %v/%d", got, oct4(back), back.MaskBits), sample)
			}
		case "ip4net":
			c.Case(fmt.Sprintf("ip4net:%v/%d", k.IP, k.P))
			sample := map[string]interface{}{"ip": k.IP, "prefix": k.P, "spec_network": k.Net}
			m := v4(k.IP, k.P).ComputeMask()
			if !eqInts(oct4(m), k.Net) || int(m.MaskBits) != k.P {
				c.Fail("ip.IPv4.ComputeMask", "network-address", fmt.Sprintf("%v/%d: network %v/%d, specification %v/%d", k.IP, k.P, oct4(m), m.MaskBits, k.Net, k.P), sample)
			}
			cm := v4(k.IP, k.P).CIDRMask()
			var a, b2, c2, d, p int
			if n, _ := fmt.Sscanf(cm, "%d.%d.%d.%d/%d", &a, &b2, &c2, &d, &p); n != 5 || !eqInts([]int{a, b2, c2, d}, k.Net) || p != k.P {
				c.Fail("ip.IPv4.CIDRMask", "network-address", fmt.Sprintf("%v/%d: CIDRMask() = %q, specification %q", k.IP, k.P, cm, str(k.Text)), sample)
			} else if cm != str(k.Text) {
				c.Drift("ip.IPv4.CIDRMask", "text-form", fmt.Sprintf("printed %q, CIDR notation is %q", cm, str(k.Text)), sample)
			}
			c.Exec(2)
			// P (history): the observers are pure -- on ONE object, reading the network / mask / range / text forms must
			// not change what the object is (its String() and fields before and after are the same)
			x := v4(k.IP, k.P)
			s0, u0 := x.String(), x.ToUInt32()
			x.ComputeMask()
			x.CIDRMask()
			x.IsInSubnet(v4(k.Net, k.P))
			x.IsInRange(v4(k.Net, 32), v4(k.IP, 32))
			if s1, u1 := x.String(), x.ToUInt32(); s1 != s0 || u1 != u0 || !eqInts(oct4(x), k.IP) || int(x.MaskBits) != k.P {
				c.Fail("ip.IPv4", "observer-mutates-receiver", fmt.Sprintf("%s: after ComputeMask/CIDRMask/IsInSubnet/IsInRange on the same object it prints %s (fields %v/%d)", s0, s1, oct4(x), x.MaskBits), sample)
			}
			c.Exec(6)
		case "ip4sub":
			c.Case(fmt.Sprintf("ip4sub:%v in %v/%d", k.IP, k.Net, k.P))
			sample := map[string]interface{}{"ip": k.IP, "subnet": k.Net, "prefix": k.P, "spec": k.R, "role": k.Role}
			if perKind[k.K] == 40 {
				c.Sample(sample)
			}
			sub := v4(k.Net, k.P)
			for _, recvBits := range []int{32, k.P} {
				got := v4(k.IP, recvBits).IsInSubnet(sub)
				c.Exec(1)
				if got != k.R {
					detail := fmt.Sprintf("%v in %v/%d: code %v, specification %v", k.IP, k.Net, k.P, got, k.R)
					if k.Canon {
						c.Fail("ip.IPv4.IsInSubnet", polarity(got, k.R), detail, sample)
					} else {
						c.Drift("ip.IPv4.IsInSubnet", "non-canonical-subnet:"+polarity(got, k.R), detail, sample)
					}
					break
				}
			}
		case "ip4range":
			s, e := ints(k.S), ints(k.E)
			c.Case(fmt.Sprintf("ip4range:%v in %v..%v", k.IP, s, e))
			sample := map[string]interface{}{"ip": k.IP, "start": s, "end": e, "spec": k.R}
			if got := v4(k.IP, 32).IsInRange(v4(s, 32), v4(e, 32)); got != k.R {
				c.Fail("ip.IPv4.IsInRange", polarity(got, k.R), fmt.Sprintf("%v in [%v, %v]: code %v, specification %v", k.IP, s, e, got, k.R), sample)
			}
			rg := &ip.IPv4Range{Start: v4(s, 32), End: v4(e, 32)}
			if got := rg.Contains(v4(k.IP, 32)); got != k.R {
				c.Fail("ip.IPv4Range.Contains", polarity(got, k.R), fmt.Sprintf("%v in [%v, %v]: code %v, specification %v", k.IP, s, e, got, k.R), sample)
			}
			c.Exec(2)
			// the range test is on the addresses: the prefix length an endpoint (or the tested address) happens to carry does not enter it
			for mb := 0; mb <= 32; mb++ {
				for _, alt := range [][3]int{{mb, mb, 32}, {mb, 32, 32}, {32, mb, 32}, {mb, mb, mb}} {
					rg := &ip.IPv4Range{Start: v4(s, alt[0]), End: v4(e, alt[1])}
					if got := rg.Contains(v4(k.IP, alt[2])); got != k.R {
						c.Fail("ip.IPv4Range.Contains", polarity(got, k.R)+":endpoint-prefix-length", fmt.Sprintf("%v/%d in [%v/%d, %v/%d]: code %v, specification %v", k.IP, alt[2], s, alt[0], e, alt[1], got, k.R), sample)
					}
					if got := v4(k.IP, alt[2]).IsInRange(v4(s, alt[0]), v4(e, alt[1])); got != k.R {
						c.Fail("ip.IPv4.IsInRange", polarity(got, k.R)+":endpoint-prefix-length", fmt.Sprintf("%v/%d in [%v/%d, %v/%d]: code %v, specification %v", k.IP, alt[2], s, alt[0], e, alt[1], got, k.R), sample)
					}
					c.Exec(2)
				}
			}
		case "ip4bad":
			c.Case("ip4bad:" + str(k.Text))
			sample := map[string]interface{}{"text": str(k.Text)}
			back, pan := parse4(str(k.Text))
			c.Exec(1)
			if pan != "" {
				c.Drift("ip.NewIPv4FromString", "malformed:panic", fmt.Sprintf("NewIPv4FromString(%q) panicked: %s", str(k.Text), pan), sample)
			} else if (back != nil) != k.Ok {
				c.Drift("ip.NewIPv4FromString", "malformed:accepted", fmt.Sprintf("NewIPv4FromString(%q) = %v, the specification rejects it", str(k.Text), back), sample)
			}
		case "ip6rt":
			c.Case(fmt.Sprintf("ip6rt:%v", k.G))
			want := str(k.Text)
			sample := map[string]interface{}{"groups": k.G, "text": want}
			if perKind[k.K] == 30 {
				c.Sample(sample)
			}
			got := v6(k.G).String()
			if got != want {
				c.Drift("ip.IPv6.String", "text-form", fmt.Sprintf("printed %q, RFC 4291 form 1 is %q", got, want), sample)
			}
			var back *ip.IPv6
			pan := h.Guard(func() { back = ip.NewIPv6FromString(got) })
			c.Exec(2)
			switch {
			case pan != "":
				c.Fail("ip.NewIPv6FromString", "roundtrip:panic", fmt.Sprintf("NewIPv6FromString(%q) panicked: %s", got, pan), sample)
			case back == nil:
				c.Fail("ip.NewIPv6FromString", "roundtrip:rejects-printed-address", fmt.Sprintf("NewIPv6FromString(%q) = nil", got), sample)
			case !eqInts(grp6(back), k.G):
				c.Fail("ip.NewIPv6FromString", "roundtrip:wrong-value", fmt.Sprintf("NewIPv6FromString(%q) = %v", got, grp6(back)), sample)
			}
			var up *ip.IPv6
			if pan := h.Guard(func() { up = ip.NewIPv6FromString(strings.ToUpper(want)) }); pan != "" || up == nil || !eqInts(grp6(up), k.G) {
				c.Drift("ip.NewIPv6FromString", "upper-case-hex", fmt.Sprintf("NewIPv6FromString(%q) does not give %v", strings.ToUpper(want), k.G), sample)
			}
		case "ip6range":
			s, e := ints(k.S), ints(k.E)
			c.Case(fmt.Sprintf("ip6range:%v in %v..%v", k.G, s, e))
			sample := map[string]interface{}{"ip": k.G, "start": s, "end": e, "spec": k.R}
			if got := v6(k.G).IsInRange(v6(s), v6(e)); got != k.R {
				c.Fail("ip.IPv6.IsInRange", polarity(got, k.R), fmt.Sprintf("%v in [%v, %v]: code %v, specification %v", k.G, s, e, got, k.R), sample)
			}
			rg := &ip.IPv6Range{Start: v6(s), End: v6(e)}
			if got := rg.Contains(v6(k.G)); got != k.R {
				c.Fail("ip.IPv6Range.Contains", polarity(got, k.R), fmt.Sprintf("%v in [%v, %v]: code %v, specification %v", k.G, s, e, got, k.R), sample)
			}
			c.Exec(2)
		case "ip6sub":
			c.Case(fmt.Sprintf("ip6sub:%v in %v", k.G, k.Net))
			if got := v6(k.G).IsInSubnet(v6(k.Net)); got != k.R {
				c.Fail("ip.IPv6.IsInSubnet", polarity(got, k.R), fmt.Sprintf("%v in %v/128: code %v, specification %v", k.G, k.Net, got, k.R),
					map[string]interface{}{"ip": k.G, "subnet": k.Net, "spec": k.R})
			}
			c.Exec(1)
		case "port":
			s, e := intOf(k.S), intOf(k.E)
			c.Case(fmt.Sprintf("port:%d-%d", s, e))
			want := str(k.Text)
			sample := map[string]interface{}{"start": s, "end": e, "text": want}
			if perKind[k.K] == 50 {
				c.Sample(sample)
			}
			got := ip.NewTCPPortRange(uint16(s), uint16(e)).String()
			if got != want {
				c.Drift("ip.TCPPortRange.String", "text-form", fmt.Sprintf("printed %q, the specification prints %q", got, want), sample)
			}
			back, err := ip.NewTCPPortRangeFromString(got)
			c.Exec(2)
			if err != nil || back == nil {
				c.Fail("ip.NewTCPPortRangeFromString", "roundtrip:rejects-printed-range", fmt.Sprintf("NewTCPPortRangeFromString(%q): %v", got, err), sample)
			} else if int(back.Start) != s || int(back.End) != e {
				c.Fail("ip.NewTCPPortRangeFromString", "roundtrip:wrong-value", fmt.Sprintf("NewTCPPortRangeFromString(%q) = %d-%d", got, back.Start, back.End), sample)
			}
		case "portws":
			s, e := intOf(k.S), intOf(k.E)
			c.Case("portws:" + str(k.Text))
			sample := map[string]interface{}{"text": str(k.Text), "start": s, "end": e}
			back, err := ip.NewTCPPortRangeFromString(str(k.Text))
			c.Exec(1)
			if err != nil || back == nil {
				c.Drift("ip.NewTCPPortRangeFromString", "whitespace-rejected", fmt.Sprintf("NewTCPPortRangeFromString(%q): %v", str(k.Text), err), sample)
			} else if int(back.Start) != s || int(back.End) != e {
				c.Drift("ip.NewTCPPortRangeFromString", "whitespace-wrong-value", fmt.Sprintf("NewTCPPortRangeFromString(%q) = %d-%d", str(k.Text), back.Start, back.End), sample)
			}
		case "portbad":
			c.Case("portbad:" + str(k.Text))
			back, err := ip.NewTCPPortRangeFromString(str(k.Text))
			c.Exec(1)
			if err == nil && back != nil && !k.Ok {
				c.Drift("ip.NewTCPPortRangeFromString", "malformed:accepted", fmt.Sprintf("NewTCPPortRangeFromString(%q) = %d-%d", str(k.Text), back.Start, back.End),
					map[string]interface{}{"text": str(k.Text)})
			}
		case "hash":
			s := str(ints(k.S))
			c.Case("hash:" + s)
			sample := map[string]interface{}{"spec": s, "spec_ok": k.Ok, "spec_lm": str(k.LM), "spec_nt": str(k.NT)}
			if perKind[k.K] == 700 {
				c.Sample(sample)
			}
			judgeHash(c, s, k.Ok, str(k.LM), str(k.NT), k.Padded, k.Cs, sample)
		default:
			return fmt.Errorf("unknown case kind %q", k.K)
		}
		return nil
	})
	c.Set("cases_per_kind", perKind)
	c.Set("drift_counts", c.seen)
	return err
}

func judgeHash(c *onceCtx, s string, ok bool, wantLM, wantNT string, padded bool, cs string, sample interface{}) {
	site := "credentials.ParseLMNTHashes"
	pre := ""
	if padded {
		pre = "whitespace:"
	} else if cs != "lower" {
		pre = "case:"
	}
	lm, nt, err := credentials.ParseLMNTHashes(s)
	cr, cerr := credentials.NewCredentials("dom", "user", "pw", s)
	c.Exec(2)
	if (cerr != nil) != (err != nil) || (cr != nil && (cr.LMHash != lm || cr.NTHash != nt)) {
		c.Fail("credentials.NewCredentials", "differs-from-ParseLMNTHashes", fmt.Sprintf("%q: ParseLMNTHashes = (%q, %q, %v), NewCredentials = (%+v, %v)", s, lm, nt, err, cr, cerr), sample)
	}
	if !ok {
		if err == nil {
			c.Drift(site, "invalid-form-accepted", fmt.Sprintf("%q: accepted as (%q, %q), the specification rejects it", s, lm, nt), sample)
		}
		return
	}
	if err != nil {
		c.Fail(site, pre+"valid-form-rejected", fmt.Sprintf("%q: %v", s, err), sample)
		return
	}
	for _, h2 := range []struct{ which, got, want string }{{"lm", lm, wantLM}, {"nt", nt, wantNT}} {
		switch {
		case h2.want != "" && h2.got == "":
			c.Fail(site, pre+h2.which+"-hash-discarded", fmt.Sprintf("%q: the %s hash %q was silently dropped (got (%q, %q, nil))", s, strings.ToUpper(h2.which), h2.want, lm, nt), sample)
		case !strings.EqualFold(h2.got, h2.want):
			c.Fail(site, pre+h2.which+"-hash-wrong", fmt.Sprintf("%q: %s hash %q, specification %q", s, strings.ToUpper(h2.which), h2.got, h2.want), sample)
		}
	}
}

// ---------------------------------------------------------------------------------------------
// recorder

func c20Record(c *h.Ctx) error {
	rng := rand.New(rand.NewSource(int64(c.OptInt("seed", 1))*7919 + 20))
	n := c.OptInt("events", 3000)
	emit := func(m map[string]interface{}) {
		b, _ := json.Marshal(m)
		c.Emit(b)
	}
	rnd4 := func() []int { return []int{rng.Intn(256), rng.Intn(256), rng.Intn(256), rng.Intn(256)} }
	toU := func(o []int) uint32 { return uint32(o[0])<<24 | uint32(o[1])<<16 | uint32(o[2])<<8 | uint32(o[3]) }
	fromU := func(u uint32) []int { return []int{int(u >> 24), int(u >> 16 & 255), int(u >> 8 & 255), int(u & 255)} }
	rnd6 := func() []int {
		g := make([]int, 8)
		for i := range g {
			switch rng.Intn(4) {
			case 0:
				g[i] = 0
			case 1:
				g[i] = rng.Intn(16)
			default:
				g[i] = rng.Intn(65536)
			}
		}
		return g
	}
	near6 := func(g []int) []int {
		o := append([]int{}, g...)
		i := rng.Intn(8)
		o[i] = (o[i] + rng.Intn(3) - 1 + 65536) % 65536
		return o
	}
	const hexd = "0123456789abcdefABCDEF"
	rndHash := func(n int) string {
		b := make([]byte, n)
		for i := range b {
			b[i] = hexd[rng.Intn(len(hexd))]
		}
		return string(b)
	}
	ws := []string{"", "", " ", "\t", "\n", "\r\n", "  ", "\v", "\f", " \t "}
	for i := 0; i < n; i++ {
		switch rng.Intn(8) {
		case 0: // print / parse / network address
			o, p := rnd4(), rng.Intn(33)
			x := v4(o, p)
			text := x.String()
			back, pan := parse4(text)
			ev := map[string]interface{}{"op": "ip4", "ip": o, "p": p, "text": cpsOf(text), "panic": pan != "", "ok": back != nil, "bip": []int{}, "bp": 0}
			if back != nil {
				ev["bip"], ev["bp"] = oct4(back), int(back.MaskBits)
			}
			m := x.ComputeMask()
			ev["net"], ev["netp"] = oct4(m), int(m.MaskBits)
			c.Exec(3)
			emit(ev)
		case 1: // membership
			base, p := rnd4(), rng.Intn(33)
			var mask uint32
			if p > 0 {
				mask = ^uint32(0) << uint(32-p)
			}
			net := toU(base)
			if rng.Intn(4) != 0 {
				net &= mask // canonical most of the time
			}
			var probe uint32
			switch rng.Intn(4) {
			case 0:
				probe = toU(rnd4())
			case 1:
				probe = (net & mask) | (rng.Uint32() &^ mask) // inside
			case 2:
				probe = ((net & mask) | (rng.Uint32() &^ mask)) ^ (1 << uint(rng.Intn(32))) // one bit off
			default:
				probe = net | rng.Uint32() // a superset of the subnet's bits
			}
			r := v4(fromU(probe), 32).IsInSubnet(v4(fromU(net), p))
			c.Exec(1)
			emit(map[string]interface{}{"op": "ip4sub", "ip": fromU(probe), "net": fromU(net), "p": p, "r": r})
		case 2: // range
			s, e := toU(rnd4()), toU(rnd4())
			var x uint32
			switch rng.Intn(3) {
			case 0:
				x = toU(rnd4())
			case 1:
				x = s + uint32(rng.Intn(3)) - 1
			default:
				x = e + uint32(rng.Intn(3)) - 1
			}
			r := v4(fromU(x), 32).IsInRange(v4(fromU(s), 32), v4(fromU(e), 32))
			c.Exec(1)
			emit(map[string]interface{}{"op": "ip4range", "ip": fromU(x), "s": fromU(s), "e": fromU(e), "r": r})
		case 3: // IPv6 print / parse
			g := rnd6()
			text := v6(g).String()
			var back *ip.IPv6
			pan := h.Guard(func() { back = ip.NewIPv6FromString(text) })
			ev := map[string]interface{}{"op": "ip6", "g": g, "text": cpsOf(text), "panic": pan != "", "ok": back != nil, "bg": []int{}}
			if back != nil {
				ev["bg"] = grp6(back)
			}
			c.Exec(2)
			emit(ev)
		case 4: // IPv6 range / subnet
			s := rnd6()
			e := rnd6()
			if rng.Intn(2) == 0 {
				e = near6(s)
			}
			var x []int
			switch rng.Intn(3) {
			case 0:
				x = rnd6()
			case 1:
				x = near6(s)
			default:
				x = near6(e)
			}
			r := v6(x).IsInRange(v6(s), v6(e))
			sub := v6(x).IsInSubnet(v6(s))
			c.Exec(2)
			emit(map[string]interface{}{"op": "ip6range", "g": x, "s": s, "e": e, "r": r, "sub": sub})
		case 5: // port range
			s, e := rng.Intn(65536), rng.Intn(65536)
			if rng.Intn(3) == 0 {
				s = []int{0, 1, 9, 10, 99, 100, 999, 1000, 9999, 10000, 65535}[rng.Intn(11)]
			}
			text := ip.NewTCPPortRange(uint16(s), uint16(e)).String()
			back, err := ip.NewTCPPortRangeFromString(text)
			ev := map[string]interface{}{"op": "port", "s": s, "e": e, "text": cpsOf(text), "ok": err == nil && back != nil, "bs": 0, "be": 0}
			if err == nil && back != nil {
				ev["bs"], ev["be"] = int(back.Start), int(back.End)
			}
			c.Exec(2)
			emit(ev)
		default: // hash specification
			var body string
			switch rng.Intn(8) {
			case 0:
				body = ""
			case 1, 2:
				body = rndHash(32)
			case 3:
				body = ":" + rndHash(32)
			case 4, 5:
				body = rndHash(32) + ":" + rndHash(32)
			case 6:
				body = rndHash(31+rng.Intn(3)) + ":" + rndHash(31+rng.Intn(3))
			default:
				body = rndHash(30 + rng.Intn(5))
			}
			s := ws[rng.Intn(len(ws))] + body + ws[rng.Intn(len(ws))]
			lm, nt, err := credentials.ParseLMNTHashes(s)
			c.Exec(1)
			emit(map[string]interface{}{"op": "hash", "s": cpsOf(s), "ok": err == nil, "lm": cpsOf(lm), "nt": cpsOf(nt)})
		}
		c.Case(fmt.Sprintf("event%d", i))
	}
	c.Set("events", n)
	return nil
}
