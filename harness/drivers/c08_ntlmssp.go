package drivers

// C08: NTLMSSP and SPNEGO tokens bound to spec/NTLMSSP.tla, spec/DER.tla, spec/SPNEGO.tla, spec/C08Cases.tla,
// spec/TraceNTLMSSP.tla.
//
//   c08.replay  model -> code: every case TLC emits from C08Cases is executed on the real code.
//                 chal / ti : spec-generated CHALLENGE messages and AV-pair lists go into ParseChallengeMessage /
//                             ParseTargetInfo; every returned field is compared with the specification's expectation.
//                 tok       : SPNEGO wrap/extract laws (Extract(Wrap(t)) = t) on the spec's tokens, plus the
//                             spec's own encodings fed to the extractors (model detail).
//                 neg / auth / e2e : the library BUILDS messages from the spec's inputs; it chooses flags, version
//                             and random parts, so nothing is predicted: the bytes are written to the trace file
//                             and TLC validates them (code -> model) with NegotiateViolations / AuthenticateViolations /
//                             SpnegoFrameViolations.
//   c08.record  code -> model: seeded random builder inputs (names over a wider alphabet, random challenge flags,
//               random target info, random tokens); every built message becomes a trace event for TLC.

import (
	"bytes"
	"encoding/asn1"
	"encoding/binary"
	"encoding/json"
	"fmt"
	"math/rand"
	"sort"

	"github.com/TheManticoreProject/Manticore/network/smb/smb_v10/spnego"
	"github.com/TheManticoreProject/Manticore/network/smb/smb_v10/spnego/ntlm"
	"verif/harness/h"
)

func init() {
	h.Register("c08.replay", c08Replay)
	h.Register("c08.record", c08Record)
}

const (
	c08SiteParse   = "ntlm.ParseChallengeMessage"
	c08SiteTI      = "ntlm.ParseTargetInfo"
	c08SiteNeg     = "ntlm.CreateNegotiateMessage"
	c08SiteAuth    = "ntlm.CreateAuthenticateMessage"
	c08SiteInit    = "spnego.CreateNegTokenInit"
	c08SiteResp    = "spnego.CreateNegTokenResp"
	c08SiteExtract = "spnego.ExtractNTLMToken"
	c08SiteParseR  = "spnego.ParseNegTokenResp"
	c08SiteCtxNeg  = "spnego.AuthContext.CreateNegotiateToken"
	c08SiteCtxChal = "spnego.AuthContext.ProcessChallengeToken"
	c08Password    = "Passw0rd!é"
)

// an AV pair travels as [id, [octets]]
type c08Pair struct {
	ID  uint16
	Val []byte
}

func (p *c08Pair) UnmarshalJSON(data []byte) error {
	var raw []json.RawMessage
	if err := json.Unmarshal(data, &raw); err != nil {
		return err
	}
	if len(raw) != 2 {
		return fmt.Errorf("AV pair: want [id, value], got %s", data)
	}
	var id int
	if err := json.Unmarshal(raw[0], &id); err != nil {
		return err
	}
	var v h.Bytes
	if err := json.Unmarshal(raw[1], &v); err != nil {
		return err
	}
	p.ID, p.Val = uint16(id), v
	return nil
}

type c08Pairs []c08Pair

func (ps *c08Pairs) UnmarshalJSON(data []byte) error {
	if len(data) > 0 && data[0] == '{' {
		*ps = nil
		return nil
	}
	var xs []c08Pair
	if err := json.Unmarshal(data, &xs); err != nil {
		return err
	}
	*ps = xs
	return nil
}

// code points; <<>> may arrive as [] or {}
type c08CPs []rune

func (r *c08CPs) UnmarshalJSON(data []byte) error {
	if len(data) > 0 && data[0] == '{' {
		*r = nil
		return nil
	}
	var xs []int32
	if err := json.Unmarshal(data, &xs); err != nil {
		return err
	}
	*r = xs
	return nil
}

type c08Expect struct {
	Flags      h.Bytes  `json:"flags"`
	Sc         h.Bytes  `json:"sc"`
	TName      h.Bytes  `json:"tname"`
	TInfo      h.Bytes  `json:"tinfo"`
	Ver        h.Bytes  `json:"ver"`
	Pairs      c08Pairs `json:"pairs"`
	TNameLoose bool     `json:"tnameLoose"`
	TInfoLoose bool     `json:"tinfoLoose"`
}

type c08Case struct {
	K     string          `json:"k"`
	D     bool            `json:"d"`
	Msg   h.Bytes         `json:"msg"`
	X     c08Expect       `json:"x"`
	Fl    []int           `json:"fl"`
	Pl    json.RawMessage `json:"pl"`
	TI    h.Bytes         `json:"ti"`
	Pairs c08Pairs        `json:"pairs"`
	Dom   c08CPs          `json:"dom"`
	Ws    c08CPs          `json:"ws"`
	User  c08CPs          `json:"user"`
	Uni   bool            `json:"uni"`
	Chal  h.Bytes         `json:"chal"`
	Cf    h.Bytes         `json:"cf"`
	Resp  h.Bytes         `json:"resp"`
	N     int             `json:"n"`
	Seed  int             `json:"seed"`
	T     h.Bytes         `json:"t"`

	InitBare      h.Bytes `json:"initBare"`
	InitRfc       h.Bytes `json:"initRfc"`
	RespBare      h.Bytes `json:"respBare"`
	RespRfcFramed h.Bytes `json:"respRfcFramed"`
	RespRfc       h.Bytes `json:"respRfc"`
}

// ---- trace events: one line per builder call; TLC judges the bytes.
// fields TLC reads must always be present: build the JSON by hand for exactly the keys of each op
func c08Emit(c *h.Ctx, m map[string]interface{}) {
	b, err := json.Marshal(m)
	if err != nil {
		panic(err)
	}
	c.Emit(b)
}

func c08Ints(r []rune) []int {
	out := make([]int, len(r))
	for i, x := range r {
		out[i] = int(x)
	}
	return out
}

func c08BytesJSON(b []byte) h.Bytes {
	if b == nil {
		return h.Bytes{}
	}
	return h.Bytes(b)
}

type c08Drifts struct {
	c     *h.Ctx
	count map[string]int
	first map[string]string
	samp  map[string]interface{}
}

func newC08Drifts(c *h.Ctx) *c08Drifts {
	return &c08Drifts{c: c, count: map[string]int{}, first: map[string]string{}, samp: map[string]interface{}{}}
}

// drift is reported once per (site, aspect) with the number of cases
func (d *c08Drifts) add(site, aspect, detail string, sample interface{}) {
	k := site + "\x00" + aspect
	d.count[k]++
	if d.count[k] == 1 {
		d.first[k] = detail
		d.samp[k] = sample
	}
}

func (d *c08Drifts) flush() {
	keys := make([]string, 0, len(d.count))
	for k := range d.count {
		keys = append(keys, k)
	}
	sort.Strings(keys)
	for _, k := range keys {
		i := bytes.IndexByte([]byte(k), 0)
		d.c.Drift(k[:i], k[i+1:], fmt.Sprintf("%d case(s); first: %s", d.count[k], d.first[k]), d.samp[k])
	}
}

func c08Short(b []byte) string {
	if len(b) > 48 {
		return fmt.Sprintf("%x...(%d octets)", b[:48], len(b))
	}
	return fmt.Sprintf("%x", b)
}

// encoded length of a name in the message's character set (what a 16-bit Len has to hold)
func c08EncLen(r []rune, unicode bool) int {
	if !unicode {
		return len(string(r))
	}
	n := 0
	for _, x := range r {
		if x >= 0x10000 {
			n += 4
		} else {
			n += 2
		}
	}
	return n
}

func c08Replay(c *h.Ctx) error {
	dr := newC08Drifts(c)
	counts := map[string]int{}
	built := 0
	err := c.Lines(func(raw []byte) error {
		var cs c08Case
		if err := json.Unmarshal(raw, &cs); err != nil {
			return fmt.Errorf("case: %v: %.200s", err, raw)
		}
		counts[cs.K]++
		switch cs.K {
		case "chal":
			c08Chal(c, dr, &cs)
		case "ti":
			c08TI(c, dr, &cs)
		case "neg":
			built += c08Neg(c, dr, cs.Dom, cs.Ws, cs.Uni)
			c.Case(fmt.Sprintf("neg|%v|%d|%d", cs.Uni, c08Class(cs.Dom), c08Class(cs.Ws)))
		case "auth":
			ch, perr := c08ParseGuard(cs.Chal)
			if perr != "" {
				c.Fail(c08SiteParse, "error:well-formed-rejected", perr, map[string]interface{}{"challenge_hex": h.Hex(cs.Chal)})
				c.Case("")
				return nil
			}
			built += c08Auth(c, dr, ch, cs.Cf, cs.User, cs.Dom, cs.Ws)
			c.Case(fmt.Sprintf("auth|%x|%d|%d|%d|%d", []byte(cs.Cf), len(ch.TargetInfo), c08Class(cs.User), c08Class(cs.Dom), c08Class(cs.Ws)))
		case "e2e":
			built += c08E2E(c, dr, &cs)
		case "tok":
			c08Tok(c, dr, &cs, true)
		default:
			return fmt.Errorf("unknown case kind %q", cs.K)
		}
		return nil
	})
	if err != nil {
		return err
	}
	dr.flush()
	c.Set("cases_by_kind", counts)
	c.Set("messages_built_for_tlc", built)
	return nil
}

// class of a name for the distinct-case key: 0 empty, 1 ASCII, 2 BMP non-ASCII, 3 supplementary, 4 longer than a 16-bit Len
func c08Class(r []rune) int {
	if len(r) == 0 {
		return 0
	}
	if len(r) > 30000 {
		return 4000000 + len(r)
	}
	cl := 1
	for _, x := range r {
		if x >= 0x10000 {
			return 3*1000 + len(r)
		}
		if x >= 128 {
			cl = 2
		}
	}
	return cl*1000 + len(r)
}

func c08ParseGuard(msg []byte) (ch *ntlm.ChallengeMessage, problem string) {
	var err error
	in := append([]byte(nil), msg...)
	if p := h.Guard(func() { ch, err = ntlm.ParseChallengeMessage(in) }); p != "" {
		return nil, "panic: " + p
	}
	if err != nil {
		return nil, "error: " + err.Error()
	}
	if ch == nil {
		return nil, "nil message without error"
	}
	return ch, ""
}

func c08PairsEqual(got map[uint16][]byte, want c08Pairs) string {
	if len(got) != len(want) {
		return fmt.Sprintf("%d pairs returned, %d carried", len(got), len(want))
	}
	for _, p := range want {
		v, ok := got[p.ID]
		if !ok {
			return fmt.Sprintf("AvId %d missing", p.ID)
		}
		if !bytes.Equal(v, p.Val) {
			return fmt.Sprintf("AvId %d: value %s, carried %s", p.ID, c08Short(v), c08Short(p.Val))
		}
	}
	return ""
}

func c08Chal(c *h.Ctx, dr *c08Drifts, cs *c08Case) {
	x := &cs.X
	key := fmt.Sprintf("chal|%v|%s|%d|%d", cs.Fl, cs.Pl, len(x.TName), len(x.TInfo))
	c.Case(key)
	sample := map[string]interface{}{"challenge_hex": c08Short(cs.Msg), "len": len(cs.Msg), "flags": cs.Fl, "placement": cs.Pl,
		"tname_len": len(x.TName), "tinfo_len": len(x.TInfo)}
	if len(cs.Msg) <= 400 {
		sample["challenge_hex"] = h.Hex(cs.Msg)
	}
	fail := func(site, aspect, detail string) {
		if cs.D {
			dr.add(site, aspect, detail, sample)
		} else {
			c.Fail(site, aspect, detail, sample)
		}
	}
	ch, problem := c08ParseGuard(cs.Msg)
	c.Exec(1)
	if problem != "" {
		fail(c08SiteParse, "error:well-formed-rejected", problem)
		return
	}
	c.Sample(map[string]interface{}{"kind": "chal", "flags": cs.Fl, "placement": cs.Pl, "message_len": len(cs.Msg)})
	if !bytes.Equal(ch.Signature[:], []byte("NTLMSSP\x00")) {
		fail(c08SiteParse, "field:Signature", fmt.Sprintf("%x", ch.Signature))
	}
	if ch.MessageType != 2 {
		fail(c08SiteParse, "field:MessageType", fmt.Sprint(ch.MessageType))
	}
	if want := binary.LittleEndian.Uint32(x.Flags); ch.NegotiateFlags != want {
		fail(c08SiteParse, "field:NegotiateFlags", fmt.Sprintf("returned %#08x, carried %#08x", ch.NegotiateFlags, want))
	}
	if !bytes.Equal(ch.ServerChallenge[:], x.Sc) {
		fail(c08SiteParse, "field:ServerChallenge", fmt.Sprintf("returned %x, carried %x", ch.ServerChallenge, []byte(x.Sc)))
	}
	if !bytes.Equal(ch.TargetName, x.TName) && !(x.TNameLoose && len(ch.TargetName) == 0) {
		fail(c08SiteParse, "field:TargetName", fmt.Sprintf("returned %s, carried %s", c08Short(ch.TargetName), c08Short(x.TName)))
	}
	tiIgnored := x.TInfoLoose && len(ch.TargetInfo) == 0
	if !bytes.Equal(ch.TargetInfo, x.TInfo) && !tiIgnored {
		fail(c08SiteParse, "field:TargetInfo", fmt.Sprintf("returned %s, carried %s", c08Short(ch.TargetInfo), c08Short(x.TInfo)))
	}
	v := ch.Version
	got := []byte{v.ProductMajorVersion, v.ProductMinorVersion, byte(v.ProductBuild), byte(v.ProductBuild >> 8),
		v.Reserved[0], v.Reserved[1], v.Reserved[2], v.NTLMRevision}
	if !bytes.Equal(got, x.Ver) {
		fail(c08SiteParse, "field:Version", fmt.Sprintf("returned %x, carried %x", got, []byte(x.Ver)))
	}
	if !tiIgnored {
		var m map[uint16][]byte
		var err error
		p := h.Guard(func() { m, err = ntlm.ParseTargetInfo(ch.TargetInfo) })
		c.Exec(1)
		switch {
		case p != "":
			fail(c08SiteTI, "error:well-formed-rejected", "panic: "+p)
		case err != nil:
			fail(c08SiteTI, "error:well-formed-rejected", err.Error())
		default:
			if d := c08PairsEqual(m, x.Pairs); d != "" {
				fail(c08SiteTI, "pairs", d)
			}
		}
	}
}

func c08TI(c *h.Ctx, dr *c08Drifts, cs *c08Case) {
	ids := make([]int, len(cs.Pairs))
	lens := make([]int, len(cs.Pairs))
	for i, p := range cs.Pairs {
		ids[i], lens[i] = int(p.ID), len(p.Val)
	}
	c.Case(fmt.Sprintf("ti|%v|%v", ids, lens))
	sample := map[string]interface{}{"target_info_hex": h.Hex(cs.TI), "ids": ids, "value_lens": lens}
	fail := func(aspect, detail string) {
		if cs.D {
			dr.add(c08SiteTI, aspect+":odd-length-text", detail, sample)
		} else {
			c.Fail(c08SiteTI, aspect, detail, sample)
		}
	}
	var m map[uint16][]byte
	var err error
	in := append([]byte(nil), cs.TI...)
	p := h.Guard(func() { m, err = ntlm.ParseTargetInfo(in) })
	c.Exec(1)
	switch {
	case p != "":
		fail("error:well-formed-rejected", "panic: "+p)
	case err != nil:
		fail("error:well-formed-rejected", err.Error())
	default:
		if d := c08PairsEqual(m, cs.Pairs); d != "" {
			fail("pairs", d)
		}
	}
}

func c08Neg(c *h.Ctx, dr *c08Drifts, dom, ws []rune, uni bool) int {
	var b []byte
	var err error
	p := h.Guard(func() { b, err = ntlm.CreateNegotiateMessage(string(dom), string(ws), uni) })
	c.Exec(1)
	sample := map[string]interface{}{"domain": c08NameSample(dom), "workstation": c08NameSample(ws), "unicode": uni}
	c.Retain(c08SiteNeg, b, sample)
	if p != "" {
		c.Fail(c08SiteNeg, "panic", p, sample)
		return 0
	}
	if err != nil && c08EncLen(dom, uni) <= 0xFFFF && c08EncLen(ws, uni) <= 0xFFFF {
		dr.add(c08SiteNeg, "unexpected-error", err.Error(), sample)
	}
	c08Emit(c, map[string]interface{}{"op": "negotiate", "dom": c08Ints(dom), "ws": c08Ints(ws), "uni": uni,
		"err": err != nil, "b": c08BytesJSON(b)})
	if err != nil {
		return 0
	}
	return 1
}

func c08NameSample(r []rune) interface{} {
	if len(r) > 40 {
		return fmt.Sprintf("%q... (%d code points)", string(r[:16]), len(r))
	}
	return string(r)
}

func c08Auth(c *h.Ctx, dr *c08Drifts, ch *ntlm.ChallengeMessage, cf []byte, user, dom, ws []rune) int {
	var b []byte
	var err error
	p := h.Guard(func() {
		b, err = ntlm.CreateAuthenticateMessage(ch, string(user), c08Password, string(dom), string(ws))
	})
	c.Exec(1)
	sample := map[string]interface{}{"user": c08NameSample(user), "domain": c08NameSample(dom), "workstation": c08NameSample(ws),
		"challenge_flags": fmt.Sprintf("%#08x", ch.NegotiateFlags), "target_info_len": len(ch.TargetInfo)}
	c.Retain(c08SiteAuth, b, sample)
	if p != "" {
		c.Fail(c08SiteAuth, "panic", p, sample)
		return 0
	}
	uni := ch.NegotiateFlags&ntlm.NTLMSSP_NEGOTIATE_UNICODE != 0
	if err != nil && c08EncLen(dom, uni) <= 0xFFFF && c08EncLen(ws, uni) <= 0xFFFF && c08EncLen(user, uni) <= 0xFFFF && 48+len(ch.TargetInfo) <= 0xFFFF {
		dr.add(c08SiteAuth, "unexpected-error", err.Error(), sample)
	}
	c08Emit(c, map[string]interface{}{"op": "authenticate", "cf": c08BytesJSON(cf), "user": c08Ints(user), "dom": c08Ints(dom),
		"ws": c08Ints(ws), "err": err != nil, "b": c08BytesJSON(b)})
	if err != nil {
		return 0
	}
	return 1
}

func c08E2E(c *h.Ctx, dr *c08Drifts, cs *c08Case) int {
	c.Case(fmt.Sprintf("e2e|%x|%v|%d|%d|%d", []byte(cs.Cf), cs.D, c08Class(cs.User), c08Class(cs.Dom), c08Class(cs.Ws)))
	sample := map[string]interface{}{"user": string(cs.User), "domain": string(cs.Dom), "workstation": string(cs.Ws), "unicode": cs.Uni,
		"challenge_token_hex": h.Hex(cs.Resp), "rfc4178_choice_tag": cs.D}
	ctx := spnego.NewAuthContext(spnego.AuthTypeNTLM, string(cs.Dom), string(cs.User), c08Password, string(cs.Ws), cs.Uni)
	var w1, w2 []byte
	var e1, e2 error
	if p := h.Guard(func() { w1, e1 = ctx.CreateNegotiateToken() }); p != "" {
		c.Fail(c08SiteCtxNeg, "panic", p, sample)
		return 0
	}
	if e1 != nil {
		dr.add(c08SiteCtxNeg, "unexpected-error", e1.Error(), sample)
	}
	if p := h.Guard(func() { w2, e2 = ctx.ProcessChallengeToken(append([]byte(nil), cs.Resp...)) }); p != "" {
		c.Fail(c08SiteCtxChal, "panic", p, sample)
		return 0
	}
	c.Exec(2)
	if e2 != nil {
		if cs.D {
			// the RFC 4178 form of the server token ([1] CHOICE tag) is model detail for this library
			dr.add(c08SiteCtxChal, "rfc4178-choice-tagged-token-rejected", e2.Error(), sample)
		} else {
			c.Fail(c08SiteCtxChal, "error:well-formed-rejected", e2.Error(), sample)
		}
	} else {
		// the challenge the context stored is the one that was sent
		ch := ctx.NTLMChallenge
		x := &cs.X
		switch {
		case ch == nil:
			c.Fail(c08SiteCtxChal, "challenge:not-stored", "NTLMChallenge is nil after a successful call", sample)
		case ch.NegotiateFlags != binary.LittleEndian.Uint32(x.Flags):
			c.Fail(c08SiteCtxChal, "challenge:NegotiateFlags", fmt.Sprintf("%#08x", ch.NegotiateFlags), sample)
		case !bytes.Equal(ch.ServerChallenge[:], x.Sc):
			c.Fail(c08SiteCtxChal, "challenge:ServerChallenge", fmt.Sprintf("%x", ch.ServerChallenge), sample)
		case !bytes.Equal(ch.TargetName, x.TName):
			c.Fail(c08SiteCtxChal, "challenge:TargetName", c08Short(ch.TargetName), sample)
		case !bytes.Equal(ch.TargetInfo, x.TInfo):
			c.Fail(c08SiteCtxChal, "challenge:TargetInfo", c08Short(ch.TargetInfo), sample)
		}
	}
	c08Emit(c, map[string]interface{}{"op": "e2e", "user": c08Ints(cs.User), "dom": c08Ints(cs.Dom), "ws": c08Ints(cs.Ws),
		"uni": cs.Uni, "cf": c08BytesJSON(cs.Cf), "err1": e1 != nil, "err2": e2 != nil, "w1": c08BytesJSON(w1), "w2": c08BytesJSON(w2)})
	n := 0
	if e1 == nil {
		n++
	}
	if e2 == nil {
		n++
	}
	return n
}

var c08NtlmOID = asn1.ObjectIdentifier{1, 3, 6, 1, 4, 1, 311, 2, 2, 10}

// c08Tok: the SPNEGO laws for one token.  fromModel: the case carries the specification's own encodings.
func c08Tok(c *h.Ctx, dr *c08Drifts, cs *c08Case, fromModel bool) {
	t := []byte(cs.T)
	n := len(t)
	if fromModel {
		c.Case(fmt.Sprintf("tok|%d", n))
	}
	sample := map[string]interface{}{"token_len": n, "token_head_hex": c08Short(t)}
	// P unless the token is empty (an absent and an empty OPTIONAL OCTET STRING are indistinguishable to the caller)
	fail := func(site, aspect, detail string) {
		if n == 0 {
			dr.add(site, aspect+":empty-token", detail, sample)
		} else {
			c.Fail(site, aspect, detail, sample)
		}
	}
	ev := func(op string, w []byte, err error) {
		m := map[string]interface{}{"op": op, "n": n, "seed": cs.Seed, "err": err != nil, "w": c08BytesJSON(w)}
		if !fromModel {
			m["t"] = c08BytesJSON(t)
		}
		c08Emit(c, m)
	}
	extract := func(w []byte) (out []byte, problem string) {
		var err error
		if p := h.Guard(func() { out, err = spnego.ExtractNTLMToken(append([]byte(nil), w...)) }); p != "" {
			return nil, "panic: " + p
		}
		if err != nil {
			return nil, "error: " + err.Error()
		}
		return out, ""
	}

	// ---- NegTokenInit
	var w []byte
	var err error
	if p := h.Guard(func() { w, err = spnego.CreateNegTokenInit(append([]byte(nil), t...)) }); p != "" {
		c.Fail(c08SiteInit, "panic", p, sample)
	} else if err != nil {
		fail(c08SiteInit, "error", err.Error())
		ev("wrapinit", nil, err)
	} else {
		got, problem := extract(w)
		c.Exec(1)
		if problem != "" {
			fail(c08SiteInit, "roundtrip:extract-failed", problem)
		} else if !bytes.Equal(got, t) {
			fail(c08SiteInit, "roundtrip:token-differs", fmt.Sprintf("extracted %s (%d octets)", c08Short(got), len(got)))
		}
		ev("wrapinit", w, nil)
		if fromModel {
			bare := append(append([]byte(nil), cs.InitBare...), t...)
			rfc := append(append([]byte(nil), cs.InitRfc...), t...)
			if !bytes.Equal(w, bare) && !bytes.Equal(w, rfc) {
				dr.add(c08SiteInit, "layout:differs-from-both-spec-encodings", fmt.Sprintf("library %s, spec (RFC 4178) %s", c08Short(w), c08Short(rfc)), sample)
			}
			if n > 0 {
				if got, problem := extract(bare); problem != "" || !bytes.Equal(got, t) {
					dr.add(c08SiteExtract, "spec-encoded:init-without-choice-tag", problem, sample)
				}
				if got, problem := extract(rfc); problem != "" || !bytes.Equal(got, t) {
					dr.add(c08SiteExtract, "spec-encoded:rfc4178-init", problem, sample)
				}
				c.Exec(2)
			}
		}
	}

	// ---- NegTokenResp
	w, err = nil, nil
	if p := h.Guard(func() {
		w, err = spnego.CreateNegTokenResp(spnego.AcceptIncomplete, c08NtlmOID, append([]byte(nil), t...))
	}); p != "" {
		c.Fail(c08SiteResp, "panic", p, sample)
		return
	}
	if err != nil {
		fail(c08SiteResp, "error", err.Error())
		ev("wrapresp", nil, err)
		return
	}
	got, problem := extract(w)
	c.Exec(1)
	if problem != "" {
		fail(c08SiteResp, "roundtrip:extract-failed", problem)
	} else if !bytes.Equal(got, t) {
		fail(c08SiteResp, "roundtrip:token-differs", fmt.Sprintf("extracted %s (%d octets)", c08Short(got), len(got)))
	}
	// supportedMech is OPTIONAL (RFC 4178 4.2.2: only present in the first reply) and negState takes three values: the token
	// wrapped without a mechanism, in every state that carries one, is extracted unchanged
	if len(t) > 0 {
		for _, st := range []asn1.Enumerated{spnego.Accept, spnego.AcceptIncomplete} {
			var w2 []byte
			var e2 error
			if p := h.Guard(func() { w2, e2 = spnego.CreateNegTokenResp(st, nil, append([]byte(nil), t...)) }); p != "" || e2 != nil {
				fail(c08SiteResp, "without-supportedMech:error", fmt.Sprintf("%v %s", e2, p))
				continue
			}
			got2, problem2 := extract(w2)
			c.Exec(1)
			if problem2 != "" {
				fail(c08SiteResp, "without-supportedMech:extract-failed", problem2)
			} else if !bytes.Equal(got2, t) {
				fail(c08SiteResp, "without-supportedMech:token-differs", fmt.Sprintf("extracted %s (%d octets)", c08Short(got2), len(got2)))
			}
		}
	}
	parse := func(w []byte) (r *spnego.NegTokenResp, problem string) {
		var err error
		if p := h.Guard(func() { r, err = spnego.ParseNegTokenResp(append([]byte(nil), w...)) }); p != "" {
			return nil, "panic: " + p
		}
		if err != nil {
			return nil, "error: " + err.Error()
		}
		return r, ""
	}
	r, problem := parse(w)
	c.Exec(1)
	if problem != "" {
		c.Fail(c08SiteResp, "roundtrip:parse-failed", problem, sample)
	} else {
		if !bytes.Equal(r.ResponseToken, t) {
			c.Fail(c08SiteResp, "roundtrip:ResponseToken", fmt.Sprintf("parsed %s (%d octets)", c08Short(r.ResponseToken), len(r.ResponseToken)), sample)
		}
		if r.NegState != spnego.AcceptIncomplete {
			dr.add(c08SiteResp, "roundtrip:NegState", fmt.Sprint(r.NegState), sample)
		}
		if !r.SupportedMech.Equal(c08NtlmOID) {
			dr.add(c08SiteResp, "roundtrip:SupportedMech", fmt.Sprint(r.SupportedMech), sample)
		}
	}
	ev("wrapresp", w, nil)
	if fromModel && n > 0 {
		for _, v := range []struct {
			aspect string
			front  []byte
		}{{"spec-encoded:framed-resp-without-choice-tag", cs.RespBare}, {"spec-encoded:framed-rfc4178-resp", cs.RespRfcFramed},
			{"spec-encoded:rfc4178-resp", cs.RespRfc}} {
			tok := append(append([]byte(nil), v.front...), t...)
			r, problem := parse(tok)
			c.Exec(1)
			if problem != "" {
				dr.add(c08SiteParseR, v.aspect, problem, sample)
			} else if !bytes.Equal(r.ResponseToken, t) || r.NegState != spnego.AcceptIncomplete || !r.SupportedMech.Equal(c08NtlmOID) {
				dr.add(c08SiteParseR, v.aspect, "fields differ", sample)
			}
		}
	}
}

// ---------------------------------------------------------------------------------------------------------------
// c08.record: seeded random builder inputs

var c08Alphabet = func() []rune {
	var a []rune
	for r := rune(0x20); r < 0x7f; r++ {
		a = append(a, r)
	}
	// 1:1 case pairs known to Text!Upper, then letters without case
	a = append(a, 201, 233, 1046, 1078, 913, 945, 196, 228, 20013, 8364, 12354, 1488, 128512, 0x1F9EA, 0x10000)
	return a
}()

func c08RandName(r *rand.Rand, max int) []rune {
	n := 0
	switch r.Intn(6) {
	case 0:
		n = 0
	case 1:
		n = 1
	default:
		n = r.Intn(max + 1)
	}
	out := make([]rune, n)
	ascii := r.Intn(3) == 0
	for i := range out {
		if ascii {
			out[i] = rune(0x20 + r.Intn(0x5f))
		} else {
			out[i] = c08Alphabet[r.Intn(len(c08Alphabet))]
		}
	}
	return out
}

func c08RandTargetInfo(r *rand.Rand) []byte {
	var b []byte
	ids := r.Perm(10)
	for _, id := range ids[:r.Intn(5)] {
		v := make([]byte, 2*r.Intn(20))
		r.Read(v)
		b = append(b, byte(id+1), 0, byte(len(v)), 0)
		b = append(b, v...)
	}
	return append(b, 0, 0, 0, 0)
}

func c08Record(c *h.Ctx) error {
	seed := int64(c.OptInt("seed", 1))
	n := c.OptInt("n", 300)
	maxTok := c.OptInt("maxtok", 3000)
	r := rand.New(rand.NewSource(seed*7919 + 8))
	dr := newC08Drifts(c)
	built := 0
	// fixed prelude: the server chooses the size of the NTLMv2 response (it embeds the challenge's TargetInfo, whose own length
	// field is 16 bits wide): target infos around the size at which the response no longer fits a 16-bit descriptor -- the
	// message is refused or every descriptor still designates exactly its field (judged by TLC like every other message)
	for _, size := range []int{60000, 65487, 65488, 65500, 65535} {
		for _, fl := range []uint32{0x00080201, 0x00080202, 0x00000201} { // extended session security (Unicode / OEM), and without it
			ch := &ntlm.ChallengeMessage{MessageType: 2, NegotiateFlags: fl}
			copy(ch.Signature[:], "NTLMSSP\x00")
			r.Read(ch.ServerChallenge[:])
			ti := make([]byte, size)
			for j := range ti {
				ti[j] = byte('a' + j%26)
				if j%2 == 1 {
					ti[j] = 0
				}
			}
			binary.LittleEndian.PutUint16(ti[0:], 3) // MsvAvDnsComputerName
			binary.LittleEndian.PutUint16(ti[2:], uint16(size-8))
			copy(ti[size-4:], []byte{0, 0, 0, 0}) // MsvAvEOL
			ch.TargetInfo = ti
			cf := make([]byte, 4)
			binary.LittleEndian.PutUint32(cf, fl)
			c.Case(fmt.Sprintf("bigti|%08x|%d", fl, size))
			built += c08Auth(c, dr, ch, cf, []rune("user"), []rune("dom"), []rune("ws"))
		}
	}
	for i := 0; i < n; i++ {
		switch r.Intn(4) {
		case 0:
			dom, ws, uni := c08RandName(r, 24), c08RandName(r, 24), r.Intn(2) == 0
			c.Case(fmt.Sprintf("rneg|%v|%d|%d", uni, c08Class(dom), c08Class(ws)))
			built += c08Neg(c, dr, dom, ws, uni)
		case 1:
			// the challenge the builder answers: one character-set bit, every other bit at random
			fl := r.Uint32() &^ 3
			uni := r.Intn(2) == 0
			if uni {
				fl |= 1
				if r.Intn(4) == 0 {
					fl |= 2
				}
			} else {
				fl |= 2
			}
			ch := &ntlm.ChallengeMessage{MessageType: 2, NegotiateFlags: fl}
			copy(ch.Signature[:], "NTLMSSP\x00")
			r.Read(ch.ServerChallenge[:])
			if r.Intn(4) > 0 {
				ch.TargetInfo = c08RandTargetInfo(r)
			}
			cf := make([]byte, 4)
			binary.LittleEndian.PutUint32(cf, fl)
			user, dom, ws := c08RandName(r, 20), c08RandName(r, 24), c08RandName(r, 16)
			c.Case(fmt.Sprintf("rauth|%08x|%d|%d|%d", fl, c08Class(user), c08Class(dom), c08Class(ws)))
			built += c08Auth(c, dr, ch, cf, user, dom, ws)
		default:
			ln := 1 + r.Intn(maxTok)
			if r.Intn(3) == 0 {
				ln = []int{90, 100, 120, 127, 128, 129, 200, 230, 250, 255, 256, 257}[r.Intn(12)] + r.Intn(5) - 2
			}
			t := make([]byte, ln)
			r.Read(t)
			c.Case(fmt.Sprintf("rtok|%d", ln))
			c08Tok(c, dr, &c08Case{T: t, Seed: 0}, false)
			built += 2
		}
	}
	dr.flush()
	c.Set("messages_built_for_tlc", built)
	return nil
}
