package drivers

// Growth G01: the SMB1 client (network/smb/smb_v10/client) as a protocol machine, bound to spec/SMBClient.tla through a
// scripted transport.Transport. Not one of the listed properties: every mismatch is reported as DRIFT.

import (
	"encoding/json"
	"fmt"
	"net"

	"github.com/TheManticoreProject/Manticore/network/smb/smb_v10/client"
	"github.com/TheManticoreProject/Manticore/network/smb/smb_v10/message"
	"github.com/TheManticoreProject/Manticore/network/smb/smb_v10/message/commands"
	"github.com/TheManticoreProject/Manticore/network/smb/smb_v10/message/commands/codes"
	"github.com/TheManticoreProject/Manticore/network/smb/smb_v10/message/header/flags"
	"verif/harness/h"
)

func init() { h.Register("g01.smbclient", g01SMBClient) }

type fakeTransport struct {
	sent    [][]byte
	replies [][]byte
	errs    []error
}

func (f *fakeTransport) Connect(net.IP, int) error { return nil }
func (f *fakeTransport) Close() error              { return nil }
func (f *fakeTransport) IsConnected() bool         { return true }
func (f *fakeTransport) Send(b []byte) (int, error) {
	f.sent = append(f.sent, append([]byte(nil), b...))
	return len(b), nil
}
func (f *fakeTransport) Receive() ([]byte, error) {
	if len(f.replies) == 0 {
		return nil, fmt.Errorf("scripted transport: no more replies")
	}
	r, e := f.replies[0], f.errs[0]
	f.replies, f.errs = f.replies[1:], f.errs[1:]
	return r, e
}

func smbReply(code codes.CommandCode, kind string) ([]byte, error) {
	m := message.NewMessage()
	m.Header.Flags |= flags.FLAGS_REPLY
	var err error
	mk := func(c codes.CommandCode) {
		cmd, e := commands.CreateResponseCommand(c)
		if e != nil {
			err = e
			return
		}
		cmd.Init()
		m.AddCommand(cmd)
	}
	switch kind {
	case "ok":
		mk(code)
	case "wrongcmd":
		mk(codes.SMB_COM_ECHO)
	case "notreply":
		cmd, e := commands.CreateRequestCommand(code)
		if e != nil {
			return nil, e
		}
		cmd.Init()
		m.Header.Flags &^= flags.FLAGS_REPLY
		m.AddCommand(cmd)
	case "errstatus":
		mk(code)
		m.Header.Status = 0xC000006D
	}
	if err != nil {
		return nil, err
	}
	b, e := m.Marshal()
	if e != nil {
		return nil, e
	}
	if kind == "errstatus" {
		b = append(b[:32], 0, 0, 0) // error responses carry empty parameter and data blocks
	}
	return b, nil
}

func g01SMBClient(c *h.Ctx) error {
	type step struct {
		Call  string `json:"call"`
		Reply string `json:"reply"`
	}
	type cs struct {
		Script []step `json:"script"`
		Result string `json:"result"`
		PC     string `json:"pc"`
	}
	return c.Lines(func(raw []byte) error {
		var k cs
		if err := json.Unmarshal(raw, &k); err != nil {
			return err
		}
		c.Case(fmt.Sprint(k.Script))
		ft := &fakeTransport{}
		for _, s := range k.Script {
			code := codes.SMB_COM_NEGOTIATE
			if s.Call == "session" {
				code = codes.SMB_COM_SESSION_SETUP_ANDX
			}
			var b []byte
			var terr error
			switch s.Reply {
			case "truncated":
				full, err := smbReply(code, "ok")
				if err != nil {
					return err
				}
				b = full[:len(full)/2]
			case "garbage":
				b = []byte{0xFF, 'S', 'M', 'B', 0xEE, 1, 2}
			case "empty":
				b = []byte{}
			case "transporterror":
				terr = fmt.Errorf("scripted transport error")
			default:
				var err error
				b, err = smbReply(code, s.Reply)
				if err != nil {
					return err
				}
			}
			ft.replies, ft.errs = append(ft.replies, b), append(ft.errs, terr)
		}
		cl := &client.Client{Transport: ft, Connection: &client.Connection{Server: &client.Server{}}}
		smp := map[string]interface{}{"script": k.Script, "spec_result": k.Result}
		var last error
		for i, s := range k.Script {
			var err error
			pan := h.Guard(func() {
				if s.Call == "negotiate" {
					err = cl.Negotiate()
				} else {
					err = cl.SessionSetup()
				}
			})
			c.Exec(1)
			if pan != "" {
				c.Drift("client.Client."+s.Call, "panic:reply="+s.Reply, fmt.Sprintf("the client call panicked instead of returning: %s", pan), smp)
				return nil
			}
			if len(ft.sent) != i+1 {
				c.Drift("client.Client."+s.Call, "messages-sent", fmt.Sprintf("%d messages sent after %d calls", len(ft.sent), i+1), smp)
			}
			last = err
			want := "error"
			if s.Reply == "ok" {
				want = "nil"
			}
			got := "nil"
			if err != nil {
				got = "error"
			}
			if got != want {
				c.Drift("client.Client."+s.Call, "result:reply="+s.Reply, fmt.Sprintf("specification %s, code %s (%v)", want, got, err), smp)
				return nil
			}
		}
		_ = last
		c.Sample(smp)
		return nil
	})
}
