package drivers

// par.pure: "a call's result does not depend on what other goroutines are doing" (spec/ValueSemantics.tla, deviation
// SharedScratch). Every entry is a function of its own arguments (it creates whatever objects it needs): it is first
// evaluated sequentially on N seeded inputs (the reference), then G goroutines evaluate all entries of the selected groups
// on all inputs at the same time, each in its own order, and every result must equal the reference. The driver is run
// in the race-detector build: package-level scratch buffers, memo tables and lazily filled caches that an "optimisation"
// introduces are reported either as a wrong result (aspect concurrent-callers) or as a data race.
//
//   opts: only=<group,group,...>  (md4 hash ntlmv1 crypto smb types ntlmssp llmnr nbns guid keycred time ldap flags ip)
//         seed=<n> goroutines=<g> rounds=<r> inputs=<n>

import (
	"crypto/aes"
	"encoding/hex"
	"fmt"
	"math/rand"
	"strings"
	"sync"
	"time"

	"github.com/TheManticoreProject/Manticore/crypto/cmac"
	"github.com/TheManticoreProject/Manticore/crypto/dcc"
	"github.com/TheManticoreProject/Manticore/crypto/gppp"
	"github.com/TheManticoreProject/Manticore/crypto/lm"
	"github.com/TheManticoreProject/Manticore/crypto/md4"
	"github.com/TheManticoreProject/Manticore/crypto/nt"
	"github.com/TheManticoreProject/Manticore/crypto/ntlmv1"
	"github.com/TheManticoreProject/Manticore/crypto/pkcs7"
	"github.com/TheManticoreProject/Manticore/crypto/rc4"
	"github.com/TheManticoreProject/Manticore/crypto/uuid/uuid_v1"
	"github.com/TheManticoreProject/Manticore/network/ip"
	"github.com/TheManticoreProject/Manticore/network/ldap"
	"github.com/TheManticoreProject/Manticore/network/ldap/ldap_attributes"
	"github.com/TheManticoreProject/Manticore/network/llmnr"
	"github.com/TheManticoreProject/Manticore/network/netbios/nbtns"
	"github.com/TheManticoreProject/Manticore/network/smb/smb_v10/message"
	"github.com/TheManticoreProject/Manticore/network/smb/smb_v10/message/commands"
	"github.com/TheManticoreProject/Manticore/network/smb/smb_v10/message/commands/codes"
	"github.com/TheManticoreProject/Manticore/network/smb/smb_v10/message/data"
	"github.com/TheManticoreProject/Manticore/network/smb/smb_v10/message/header"
	"github.com/TheManticoreProject/Manticore/network/smb/smb_v10/message/header/flags"
	"github.com/TheManticoreProject/Manticore/network/smb/smb_v10/message/header/flags2"
	"github.com/TheManticoreProject/Manticore/network/smb/smb_v10/message/parameters"
	"github.com/TheManticoreProject/Manticore/network/smb/smb_v10/spnego"
	"github.com/TheManticoreProject/Manticore/network/smb/smb_v10/spnego/ntlm"
	"github.com/TheManticoreProject/Manticore/network/smb/smb_v10/types"
	"github.com/TheManticoreProject/Manticore/windows/credentials"
	"github.com/TheManticoreProject/Manticore/windows/guid"
	kcl "github.com/TheManticoreProject/Manticore/windows/keycredential"
	kcrypto "github.com/TheManticoreProject/Manticore/windows/keycredential/crypto"
	"github.com/TheManticoreProject/Manticore/windows/keycredential/key"
	kcutils "github.com/TheManticoreProject/Manticore/windows/keycredential/utils"
	"github.com/TheManticoreProject/Manticore/windows/ms_dtyp/common/data_structures"
	"verif/harness/h"
)

func init() { h.Register("par.pure", parPure) }

type parEntry struct {
	group, site string
	f           func(in []byte) string // in: 64 seeded bytes; everything the call needs is derived from them
}

func parName(in []byte, n int) string {
	const al = "abcdefghijklmnopqrstuvwxyzABCDEFGHIJKLMNOPQRSTUVWXYZ0123456789"
	b := make([]byte, n)
	for i := range b {
		b[i] = al[int(in[i%len(in)])%len(al)]
	}
	return string(b)
}

func hx(b []byte) string { return hex.EncodeToString(b) }

var parEntries = []parEntry{
	{"md4", "md4.Sum", func(in []byte) string { x := md4.Sum(in[:1+int(in[0])%63]); return hx(x[:]) }},
	{"md4", "md4.MD4.Write", func(in []byte) string {
		m := md4.New()
		k := int(in[1]) % 60
		m.Write(in[:k])
		m.Write(in[k:])
		x := m.Sum()
		return hx(x[:])
	}},
	{"hash", "nt.NTHash", func(in []byte) string { x := nt.NTHash(parName(in, 1+int(in[0])%20)); return hx(x[:]) }},
	{"hash", "lm.LMHash", func(in []byte) string { x := lm.LMHash(parName(in, 1+int(in[0])%14)); return hx(x[:]) }},
	{"hash", "dcc.DCCHashFromPassword", func(in []byte) string {
		x := dcc.DCCHashFromPassword(parName(in, 8), parName(in[3:], 6))
		return hx(x[:])
	}},
	{"ntlmv1", "ntlmv1.NTLMv1.Hash", func(in []byte) string {
		n, err := ntlmv1.NewNTLMv1WithPassword("DOM", "user", parName(in, 9), append([]byte(nil), in[8:16]...))
		if err != nil {
			return "error " + err.Error()
		}
		r, err := n.Hash()
		return fmt.Sprintf("%x %v", r, err)
	}},
	{"crypto", "pkcs7.Pad", func(in []byte) string {
		bs := uint8(1 + int(in[0])%64)
		p, err := pkcs7.Pad(append([]byte(nil), in[:int(in[1])%64]...), bs)
		if err != nil {
			return "error " + err.Error()
		}
		u, err := pkcs7.Unpad(append([]byte(nil), p...))
		return fmt.Sprintf("%x %x %v", p, u, err)
	}},
	{"crypto", "gppp.GPPPEncrypt", func(in []byte) string {
		e, err := gppp.GPPPEncrypt(parName(in, 1+int(in[0])%30))
		if err != nil {
			return "error " + err.Error()
		}
		d, err := gppp.GPPPDecryptBase64(e)
		return fmt.Sprintf("%s %s %v", e, d, err)
	}},
	{"crypto", "rc4.RC4.XORKeyStream", func(in []byte) string {
		ci, err := rc4.NewRC4WithKey(append([]byte(nil), in[:1+int(in[0])%32]...))
		if err != nil {
			return "error " + err.Error()
		}
		dst := make([]byte, 48)
		ci.XORKeyStream(dst, in[:48])
		return hx(dst)
	}},
	{"crypto", "cmac.cmac.Sum", func(in []byte) string {
		blk, err := aes.NewCipher(in[:16])
		if err != nil {
			return "error"
		}
		m := cmac.New(blk)
		m.Write(in[16 : 16+int(in[1])%48])
		return hx(m.Sum(nil))
	}},
	{"smb", "parameters.Parameters.Marshal", func(in []byte) string {
		p := parameters.NewParameters()
		p.AddWordsFromBytesStream(in[:2*(1+int(in[0])%20)])
		b, err := p.Marshal()
		q := parameters.NewParameters()
		n, err2 := q.Unmarshal(append([]byte(nil), b...))
		return fmt.Sprintf("%x %v %d %v %x", b, err, n, err2, q.GetBytes())
	}},
	{"smb", "data.Data.Marshal", func(in []byte) string {
		d := data.NewData()
		d.Add(in[:int(in[0])%64])
		b, err := d.Marshal()
		q := data.NewData()
		n, err2 := q.Unmarshal(append([]byte(nil), b...))
		return fmt.Sprintf("%x %v %d %v %x", b, err, n, err2, q.GetBytes())
	}},
	{"smb", "header.Header.Marshal", func(in []byte) string {
		hd := header.NewHeader()
		hd.MID = uint16(in[0]) | uint16(in[1])<<8
		hd.UID = uint16(in[2]) | uint16(in[3])<<8
		hd.TID = uint16(in[4]) | uint16(in[5])<<8
		hd.Status = uint32(in[6]) | uint32(in[7])<<8 | uint32(in[8])<<16
		b, err := hd.Marshal()
		h2 := header.NewHeader()
		n, err2 := h2.Unmarshal(append([]byte(nil), b...))
		return fmt.Sprintf("%x %v %d %v %d %d %d", b, err, n, err2, h2.MID, h2.UID, h2.TID)
	}},
	{"smb", "message.Message.Marshal", func(in []byte) string {
		m := message.NewMessage()
		m.Header.MID = uint16(in[0]) | uint16(in[1])<<8
		cmd, err := commands.CreateRequestCommand(codes.SMB_COM_ECHO)
		if err != nil {
			return "error " + err.Error()
		}
		cmd.Init()
		if e, ok := cmd.(*commands.EchoRequest); ok {
			e.EchoCount = types.USHORT(in[2])
			e.Data = append([]byte(nil), in[:int(in[3])%40]...)
		}
		m.AddCommand(cmd)
		b, err := m.Marshal()
		m2 := message.NewMessage()
		err2 := m2.Unmarshal(append([]byte(nil), b...))
		back := ""
		if e2, ok := m2.Command.(*commands.EchoRequest); ok && err2 == nil {
			back = fmt.Sprintf("%d %x", e2.EchoCount, e2.Data)
		}
		return fmt.Sprintf("%x %v %v %s", b, err, err2, back)
	}},
	{"types", "types.SMB_STRING.Marshal", func(in []byte) string {
		s := types.NewSMB_STRING(append([]byte(nil), []byte(parName(in, int(in[0])%40))...))
		s.SetBufferFormat(types.UCHAR(1 + int(in[1])%5))
		b, err := s.Marshal()
		t := &types.SMB_STRING{}
		n, err2 := t.Unmarshal(append([]byte(nil), b...))
		return fmt.Sprintf("%x %v %d %v %x", b, err, n, err2, t.Buffer)
	}},
	{"types", "types.SMB_DATE.Marshal", func(in []byte) string {
		d := types.SMB_DATE{}
		d.Unmarshal([]byte{in[0], in[1]})
		b, err := d.Marshal()
		return fmt.Sprintf("%x %v %+v", b, err, d)
	}},
	{"ntlmssp", "ntlm.CreateNegotiateMessage", func(in []byte) string {
		b, err := ntlm.CreateNegotiateMessage(parName(in, int(in[0])%20), parName(in[5:], int(in[1])%20), in[2]%2 == 0)
		return fmt.Sprintf("%x %v", b, err)
	}},
	{"ntlmssp", "spnego.CreateNegTokenInit", func(in []byte) string {
		tok := append([]byte(nil), in[:1+int(in[0])%60]...)
		w, err := spnego.CreateNegTokenInit(tok)
		if err != nil {
			return "error " + err.Error()
		}
		x, err := spnego.ExtractNTLMToken(append([]byte(nil), w...))
		return fmt.Sprintf("%x %x %v", w, x, err)
	}},
	{"llmnr", "llmnr.EncodeDomainName", func(in []byte) string {
		name := parName(in, 1+int(in[0])%20) + "." + parName(in[7:], 1+int(in[1])%10)
		b, err := llmnr.EncodeDomainName(name)
		if err != nil {
			return "error " + err.Error()
		}
		s, n, err := llmnr.DecodeDomainName(append([]byte(nil), b...), 0)
		return fmt.Sprintf("%x %s %d %v", b, s, n, err)
	}},
	{"llmnr", "llmnr.Message.Encode", func(in []byte) string {
		m := llmnr.NewMessage()
		m.ID = uint16(in[0]) | uint16(in[1])<<8
		m.SetResponse()
		name := parName(in, 1+int(in[2])%16)
		m.AddQuestion(name, 1, llmnr.ClassIN)
		m.AddAnswerClassINTypeA(name, fmt.Sprintf("10.%d.%d.%d", in[3], in[4], in[5]))
		b, err := m.Encode()
		if err != nil {
			return "error " + err.Error()
		}
		d, err := llmnr.DecodeMessage(append([]byte(nil), b...))
		if err != nil {
			return fmt.Sprintf("%x error %v", b, err)
		}
		return fmt.Sprintf("%x %d %s %s %x", b, d.ID, d.Questions[0].Name, d.Answers[0].Name, d.Answers[0].RData)
	}},
	{"nbns", "nbtns.NBTNSPacket.Marshal", func(in []byte) string {
		nm := &nbtns.NetBIOSName{Name: strings.ToUpper(parName(in, 1+int(in[0])%15))}
		p := &nbtns.NBTNSPacket{Header: nbtns.NBTNSHeader{TransactionID: uint16(in[1])<<8 | uint16(in[2]), Questions: 1, Answers: 1},
			Questions: []nbtns.NBTNSQuestion{{Name: nm, Type: 0x20, Class: 1}},
			Answers:   []nbtns.NBTNSResourceRecord{{Name: nm, Type: 0x20, Class: 1, TTL: uint32(in[3]), RDLength: 6, RData: append([]byte(nil), in[4:10]...)}}}
		b, err := p.Marshal()
		if err != nil {
			return "error " + err.Error()
		}
		q := &nbtns.NBTNSPacket{}
		_, err = q.Unmarshal(append([]byte(nil), b...))
		if err != nil || len(q.Questions) != 1 || len(q.Answers) != 1 {
			return fmt.Sprintf("%x error %v", b, err)
		}
		return fmt.Sprintf("%x %d %s %x", b, q.Header.TransactionID, q.Questions[0].Name.Name, q.Answers[0].RData)
	}},
	{"guid", "guid.GUID.ToBytes", func(in []byte) string {
		g := &guid.GUID{}
		g.FromRawBytes(append([]byte(nil), in[:16]...))
		s := g.ToFormatD()
		g2, err := guid.FromString(s)
		if err != nil {
			return "error " + err.Error()
		}
		return fmt.Sprintf("%s %x %s", s, g2.ToBytes(), g2.ToFormatX())
	}},
	{"guid", "uuid_v1.UUIDv1.FromString", func(in []byte) string {
		b := append([]byte(nil), in[:16]...)
		b[6] = b[6]&0x0F | 0x10
		b[8] = b[8]&0x3F | 0x80
		txt := fmt.Sprintf("%x-%x-%x-%x-%x", b[0:4], b[4:6], b[6:8], b[8:10], b[10:16])
		u := &uuid_v1.UUIDv1{}
		if err := u.FromString(txt); err != nil {
			return "error " + err.Error()
		}
		m, err := u.Marshal()
		return fmt.Sprintf("%s %x %v", u.String(), m, err)
	}},
	{"keycred", "keycredentiallink.KeyCredential.ToBytes", func(in []byte) string {
		mod := append([]byte{0xC1}, in...)
		rk := kcrypto.RSAKeyMaterial{KeySize: uint32(len(mod) * 8), Exponent: 65537, Modulus: mod}
		var dev guid.GUID
		dev.FromRawBytes(in[16:32])
		kv := key.KeyCredentialVersion{Value: 0x200}
		id := kcutils.ComputeKeyIdentifier(rk.ToBytes(), kv)
		kc := kcl.NewKeyCredential(kv, id, rk, dev, kcutils.DateTime{Ticks: 132000000000000000 + uint64(in[0])}, kcutils.DateTime{Ticks: 131000000000000000 + uint64(in[1])})
		b, err := kc.ToBytes()
		if err != nil {
			return "error " + err.Error()
		}
		k2 := &kcl.KeyCredential{}
		err = k2.FromBytes(append([]byte(nil), b...))
		ok := err == nil && k2.CheckIntegrity()
		return fmt.Sprintf("%x %v %v", b, err, ok)
	}},
	{"time", "data_structures.NewFILETIMEFromTime", func(in []byte) string {
		t := time.Unix(int64(in[0])<<24|int64(in[1])<<16|int64(in[2])<<8|int64(in[3]), int64(in[4])*100).UTC()
		ft := data_structures.NewFILETIMEFromTime(t)
		b, err := ft.Marshal()
		return fmt.Sprintf("%x %v %s %d", b, err, ft.GetTime().UTC().Format(time.RFC3339Nano), ft.GetUnixTimestamp())
	}},
	{"time", "utils.ConvertToBinaryTime", func(in []byte) string {
		t := time.Unix(int64(in[0])<<24|int64(in[1])<<16|int64(in[2])<<8|int64(in[3]), int64(in[4])*100).UTC()
		b := kcutils.ConvertToBinaryTime(t, key.KeySource(0), key.KeyCredentialVersion{Value: 0x200})
		return hx(b) + " " + hx(kcutils.DateTime{Ticks: uint64(in[5])<<40 | uint64(in[6])<<8}.ToBytes())
	}},
	{"ldap", "ldap.ParseSIDFromBytes", func(in []byte) string {
		n := int(in[0]) % 16
		sid := append([]byte{1, byte(n)}, in[1:7]...)
		for i := 0; i < n; i++ {
			sid = append(sid, in[8+i], in[9+i], in[10+i], in[11+i])
		}
		return ldap.ParseSIDFromBytes(sid)
	}},
	{"ldap", "ldap.GetDomainFromDistinguishedName", func(in []byte) string {
		return ldap.GetDomainFromDistinguishedName("CN=" + parName(in, 5) + ",OU=x,DC=" + parName(in[3:], 1+int(in[0])%8) + ",DC=" + parName(in[9:], 3))
	}},
	{"flags", "flags.Flags.String", func(in []byte) string {
		return flags.Flags(uint16(in[0])|uint16(in[1])<<8).String() + " " + flags2.Flags2(uint16(in[2])|uint16(in[3])<<8).String()
	}},
	{"flags", "codes.CommandCode.String", func(in []byte) string {
		return codes.CommandCode(in[0]).String() + " " + ldap_attributes.UserAccountControl(uint32(in[1])|uint32(in[2])<<8|uint32(in[3])<<16).String()
	}},
	{"flags", "key.CustomKeyInformationFlags.FromBytes", func(in []byte) string {
		var kf key.CustomKeyInformationFlags
		kf.FromBytes(in[0])
		return strings.Join(kf.Name, "|")
	}},
	{"ip", "ip.NewIPv4FromString", func(in []byte) string {
		a := ip.NewIPv4FromString(fmt.Sprintf("%d.%d.%d.%d/%d", in[0], in[1], in[2], in[3], int(in[4])%33))
		if a == nil {
			return "nil"
		}
		return a.String() + " " + a.CIDRMask()
	}},
	{"ip", "credentials.ParseLMNTHashes", func(in []byte) string {
		l, n, err := credentials.ParseLMNTHashes("  " + hx(in[:16]) + ":" + strings.ToUpper(hx(in[16:32])) + " ")
		return fmt.Sprintf("%s %s %v", l, n, err)
	}},
}

func parPure(c *h.Ctx) error {
	only := map[string]bool{}
	for _, g := range strings.Split(c.Opt("only", ""), ",") {
		if g != "" {
			only[g] = true
		}
	}
	var es []parEntry
	for _, e := range parEntries {
		if len(only) == 0 || only[e.group] {
			es = append(es, e)
		}
	}
	if len(es) == 0 {
		return fmt.Errorf("no entries for only=%q", c.Opt("only", ""))
	}
	nIn, G, R := c.OptInt("inputs", 24), c.OptInt("goroutines", 8), c.OptInt("rounds", 12)
	rng := rand.New(rand.NewSource(int64(c.OptInt("seed", 1))*7919 + 17))
	inputs := make([][]byte, nIn)
	for i := range inputs {
		inputs[i] = make([]byte, 64)
		rng.Read(inputs[i])
	}
	// sequential reference (one goroutine, fixed order), evaluated twice: an entry that is not a function of its input is
	// not judged (and reported, since every entry is meant to be one)
	ref := make([][]string, len(es))
	for j, e := range es {
		ref[j] = make([]string, nIn)
		for i := range inputs {
			in := inputs[i]
			var a, b string
			if p := h.Guard(func() { a = e.f(append([]byte(nil), in...)); b = e.f(append([]byte(nil), in...)) }); p != "" {
				a, b = "panic: "+p, "panic: "+p
			}
			if a != b {
				c.Drift(e.site, "not-a-function-of-its-input", fmt.Sprintf("two sequential calls gave %.80s and %.80s", a, b), nil)
				a = ""
			}
			ref[j][i] = a
			c.Case(e.site)
			c.Exec(2)
		}
	}
	var wg sync.WaitGroup
	var mu sync.Mutex
	bad := map[string]int{}
	start := make(chan struct{})
	for g := 0; g < G; g++ {
		wg.Add(1)
		go func(g int) {
			defer wg.Done()
			<-start
			for r := 0; r < R; r++ {
				for k := range es {
					j := (k*7 + g*3 + r) % len(es)
					for ii := range inputs {
						i := (ii*5 + g + r) % nIn
						if ref[j][i] == "" {
							continue
						}
						var got string
						if p := h.Guard(func() { got = es[j].f(append([]byte(nil), inputs[i]...)) }); p != "" {
							got = "panic: " + p
						}
						if got != ref[j][i] {
							mu.Lock()
							bad[es[j].site]++
							if bad[es[j].site] == 1 {
								c.Fail(es[j].site, "concurrent-callers", fmt.Sprintf("with %d goroutines calling the library at the same time this call returned %.160s; alone it returns %.160s", G, got, ref[j][i]),
									map[string]interface{}{"input_hex": hx(inputs[i]), "goroutines": G})
							}
							mu.Unlock()
						}
					}
				}
			}
		}(g)
	}
	close(start)
	wg.Wait()
	c.Exec(G * R * len(es) * nIn)
	c.Set("entries", len(es))
	c.Set("goroutines", G)
	c.Set("concurrent_calls", G*R*len(es)*nIn)
	c.Set("wrong_results_per_site", bad)
	return nil
}
