package drivers

// Growth G03: the pure helper layer that no listed property covers, bound to spec/ADAttrs.tla (flag-bit, enumeration,
// RID, OID and NTSTATUS tables written from MS-ADTS / MS-SAMR / MS-CRTD / MS-DTYP / MS-ERREF / RFC 5280) and
// spec/LDAPHelpers.tla (padding, sizes, Kerberos client configuration, LDAP controls, modify requests, credentials,
// DNS lookups) through the cases of spec/G03Cases.tla.  Not one of the listed properties: every mismatch is DRIFT.
//
// Declared constants are read from the SOURCE (go/parser + go/types, integer and string constants) so that a table row
// is bound to the constant of the same NAME (modulo case and punctuation, after the library's prefix), wherever it is
// declared; typed values additionally go through the compiled String()/Error()/GetFlags() methods.

import (
	"encoding/binary"
	"encoding/json"
	"fmt"
	"go/ast"
	"go/constant"
	"go/parser"
	"go/token"
	"go/types"
	"net"
	"os"
	"path/filepath"
	"sort"
	"strconv"
	"strings"
	"sync"

	"github.com/TheManticoreProject/Manticore/network/dns"
	"github.com/TheManticoreProject/Manticore/network/kerberos"
	"github.com/TheManticoreProject/Manticore/network/ldap"
	"github.com/TheManticoreProject/Manticore/network/ldap/ldap_attributes"
	"github.com/TheManticoreProject/Manticore/utils"
	"github.com/TheManticoreProject/Manticore/windows/credentials"
	"github.com/TheManticoreProject/Manticore/windows/nt_status"
	"verif/harness/h"
)

func init() { h.Register("g03.adattrs", g03ADAttrs) }

// ---------------------------------------------------------------------------------------------
// declared constants from the source

type g03Const struct {
	Ident string
	IsStr bool
	U     uint64
	S     string
}

func g03LoadConsts(repo, rel string) ([]g03Const, error) {
	dir := filepath.Join(repo, rel)
	ents, err := os.ReadDir(dir)
	if err != nil {
		return nil, err
	}
	var names []string
	for _, e := range ents {
		n := e.Name()
		if !e.IsDir() && strings.HasSuffix(n, ".go") && !strings.HasSuffix(n, "_test.go") {
			names = append(names, n)
		}
	}
	sort.Strings(names)
	fset := token.NewFileSet()
	var files []*ast.File
	for _, n := range names {
		f, err := parser.ParseFile(fset, filepath.Join(dir, n), nil, parser.SkipObjectResolution)
		if err != nil {
			return nil, fmt.Errorf("parse %s: %v", n, err)
		}
		files = append(files, f)
	}
	if len(files) == 0 {
		return nil, fmt.Errorf("no go files in %s", dir)
	}
	info := &types.Info{Defs: map[*ast.Ident]types.Object{}}
	conf := types.Config{Importer: stubImporter{}, Error: func(error) {}, DisableUnusedImportCheck: true}
	conf.Check(rel, fset, files, info) // errors about the stubbed imports are irrelevant to constants
	var out []g03Const
	for _, f := range files {
		for _, d := range f.Decls {
			gd, ok := d.(*ast.GenDecl)
			if !ok || gd.Tok != token.CONST {
				continue
			}
			for _, sp := range gd.Specs {
				vs, ok := sp.(*ast.ValueSpec)
				if !ok {
					continue
				}
				for _, id := range vs.Names {
					c, ok := info.Defs[id].(*types.Const)
					if !ok {
						continue
					}
					switch c.Val().Kind() {
					case constant.Int:
						if u, exact := constant.Uint64Val(c.Val()); exact {
							out = append(out, g03Const{Ident: id.Name, U: u})
						}
					case constant.String:
						out = append(out, g03Const{Ident: id.Name, IsStr: true, S: constant.StringVal(c.Val())})
					}
				}
			}
		}
	}
	return out, nil
}

// g03Bind: the declared constant <prefix><NAME> for one of the row's spellings (identity of names: letters and digits, lower case).
func g03Bind(consts []g03Const, prefix string, names []string) *g03Const {
	want := map[string]bool{}
	for _, n := range names {
		want[normName(n)] = true
	}
	for i := range consts {
		c := &consts[i]
		if strings.HasPrefix(c.Ident, prefix) && want[normName(c.Ident[len(prefix):])] {
			return c
		}
	}
	return nil
}

func g03Text(cps []int) string {
	var b strings.Builder
	for _, r := range cps {
		b.WriteRune(rune(r))
	}
	return b.String()
}

func g03Texts(l [][]int) []string {
	out := make([]string, len(l))
	for i, x := range l {
		out[i] = g03Text(x)
	}
	return out
}

func g03U32(v []int) uint32 {
	if len(v) != 2 {
		return 0
	}
	return uint32(v[0])<<16 | uint32(v[1])
}

// ---------------------------------------------------------------------------------------------
// a minimal authoritative DNS server on a loopback UDP port (A records of one zone; NOERROR/no data for other types)

type g03DNS struct {
	mu   sync.Mutex
	zone map[string][]net.IP
	conn *net.UDPConn
}

func g03StartDNS() (*g03DNS, error) {
	conn, err := net.ListenUDP("udp4", &net.UDPAddr{IP: net.IPv4(127, 0, 0, 1), Port: 0})
	if err != nil {
		return nil, err
	}
	s := &g03DNS{zone: map[string][]net.IP{}, conn: conn}
	go s.serve()
	return s, nil
}

func (s *g03DNS) addr() string { return s.conn.LocalAddr().String() }

func (s *g03DNS) serve() {
	buf := make([]byte, 1500)
	for {
		n, from, err := s.conn.ReadFromUDP(buf)
		if err != nil {
			return
		}
		q := append([]byte(nil), buf[:n]...)
		if len(q) < 12 || binary.BigEndian.Uint16(q[4:6]) != 1 {
			continue
		}
		// question name
		var labels []string
		p := 12
		okName := true
		for {
			if p >= len(q) {
				okName = false
				break
			}
			l := int(q[p])
			p++
			if l == 0 {
				break
			}
			if l > 63 || p+l > len(q) {
				okName = false
				break
			}
			labels = append(labels, strings.ToLower(string(q[p:p+l])))
			p += l
		}
		if !okName || p+4 > len(q) {
			continue
		}
		qtype := binary.BigEndian.Uint16(q[p : p+2])
		qend := p + 4
		name := strings.Join(labels, ".")
		s.mu.Lock()
		ips, known := s.zone[name]
		s.mu.Unlock()
		resp := append([]byte(nil), q[:qend]...)
		resp[2] = 0x84 | (q[2] & 0x01) // QR, AA, RD copied
		resp[3] = 0x00
		if !known {
			resp[3] = 0x03 // NXDOMAIN
		}
		binary.BigEndian.PutUint16(resp[6:8], 0)
		binary.BigEndian.PutUint16(resp[8:10], 0)
		binary.BigEndian.PutUint16(resp[10:12], 0)
		if known && qtype == 1 {
			binary.BigEndian.PutUint16(resp[6:8], uint16(len(ips)))
			for _, ip := range ips {
				resp = append(resp, 0xC0, 0x0C, 0, 1, 0, 1, 0, 0, 0, 60, 0, 4)
				resp = append(resp, ip.To4()...)
			}
		}
		s.conn.WriteToUDP(resp, from)
	}
}

// ---------------------------------------------------------------------------------------------

type g03Case struct {
	K string `json:"k"`
	T string `json:"t"`
	// flag tables
	Name    string   `json:"name"`
	Alt     []string `json:"alt"`
	Mask    []int    `json:"mask"`
	Bit     int      `json:"bit"`
	W       []int    `json:"w"`
	Bits    []int    `json:"bits"`
	Names   []string `json:"names"`
	Unnamed []int    `json:"unnamed"`
	// enumerations
	V       json.RawMessage `json:"v"`
	Class   string          `json:"class"`
	Product string          `json:"product"`
	Defined bool            `json:"defined"`
	Prods   []string        `json:"products"`
	// rids
	Rid     int    `json:"rid"`
	Scope   string `json:"scope"`
	Builtin bool   `json:"builtin"`
	// oids
	Std  string          `json:"std"`
	Text json.RawMessage `json:"text"`
	// ntstatus
	Sev      int    `json:"sev"`
	SevName  string `json:"sevname"`
	Failure  bool   `json:"failure"`
	Customer int    `json:"customer"`
	// helpers
	S        []int   `json:"s"`
	P        []int   `json:"p"`
	N        int     `json:"n"`
	Right    []int   `json:"right"`
	Left     []int   `json:"left"`
	Ascii    bool    `json:"ascii"`
	Mant     uint64  `json:"mant"`
	Shift    uint    `json:"shift"`
	Unit     string  `json:"unit"`
	Host     []int   `json:"host"`
	Realm    []int   `json:"realm"`
	Cfg      *g03Krb `json:"cfg"`
	ID       int     `json:"id"`
	Weak     bool    `json:"weak"`
	Oids     [][]int `json:"oids"`
	Critical bool    `json:"critical"`
	Controls []struct {
		Type     []int   `json:"type"`
		Critical bool    `json:"critical"`
		Ber      h.Bytes `json:"ber"`
	} `json:"controls"`
	DN    []int `json:"dn"`
	Calls []struct {
		Op   string  `json:"op"`
		Type []int   `json:"type"`
		Vals [][]int `json:"vals"`
	} `json:"calls"`
	Changes []struct {
		Code int     `json:"code"`
		Type []int   `json:"type"`
		Vals [][]int `json:"vals"`
	} `json:"changes"`
	Domain   []int `json:"domain"`
	User     []int `json:"user"`
	Password []int `json:"password"`
	Hashes   []int `json:"hashes"`
	OK       bool  `json:"ok"`
	LM       []int `json:"lm"`
	NT       []int `json:"nt"`
	IsDomain bool  `json:"isdomain"`
	IsLocal  bool  `json:"islocal"`
	PTH      bool  `json:"pth"`
	Zone     []struct {
		Name  []int   `json:"name"`
		Addrs [][]int `json:"addrs"`
	} `json:"zone"`
	QName   []int   `json:"qname"`
	Literal bool    `json:"literal"`
	Answer  [][]int `json:"answer"`
}

type g03Krb struct {
	SPN         []int     `json:"spn"`
	Realm       []int     `json:"realm"`
	KDC         []int     `json:"kdc"`
	Kpasswd     []int     `json:"kpasswd"`
	DomainRealm [][][]int `json:"domain_realm"`
}

type g03FlagKind struct {
	Site   string
	Prefix string
}

var g03FlagKinds = map[string]g03FlagKind{
	"uac":       {"ldap_attributes.UserAccountControl", "UAF_"},
	"pwd":       {"ldap_attributes.PasswordProperties", "PASSWORD_PROPERTY_"},
	"enroll":    {"ldap_attributes.MSPKIEnrollmentFlag", "MSPKI_ENROLLMENT_FLAG_"},
	"certname":  {"ldap_attributes.MSPKI_CERTIFICATE_NAME_FLAG", "MSPKI_CERTIFICATE_NAME_FLAG_"},
	"tmplflags": {"ldap_attributes.ENROLLMENT_FLAG", "ENROLLMENT_FLAG_"},
}

type g03Row struct {
	Name   string
	Spell  []string // all spellings (canonical first)
	Bit    int
	Const  *g03Const
	SeenAs map[string]bool
}

func g03ADAttrs(c *h.Ctx) error {
	repo := c.Opt("repo", "/repo")
	attrConsts, err := g03LoadConsts(repo, "network/ldap/ldap_attributes")
	if err != nil {
		return err
	}
	ldapConsts, err := g03LoadConsts(repo, "network/ldap")
	if err != nil {
		return err
	}
	ntConsts, err := g03LoadConsts(repo, "windows/nt_status")
	if err != nil {
		return err
	}

	var cases []g03Case
	if err := c.Lines(func(raw []byte) error {
		var k g03Case
		if err := json.Unmarshal(raw, &k); err != nil {
			return fmt.Errorf("%v: %s", err, string(raw))
		}
		cases = append(cases, k)
		return nil
	}); err != nil {
		return err
	}

	unbound := []string{}
	flagRows := map[string][]*g03Row{}
	samNames := map[string]bool{}
	ridRows := map[int]*g03Case{}
	oidBound := map[string]bool{}    // identifiers bound to a row
	oidByText := map[string]string{} // table|text -> std
	ntRule := map[int]g03Case{}
	etypes := map[string]g03Case{} // lower-case name -> row
	etypeByID := map[int]g03Case{}

	// ---- pass 1: table rows
	for i := range cases {
		k := &cases[i]
		switch k.K {
		case "flagrow":
			fk := g03FlagKinds[k.T]
			r := &g03Row{Name: k.Name, Spell: append([]string{k.Name}, k.Alt...), Bit: k.Bit}
			r.Const = g03Bind(attrConsts, fk.Prefix, r.Spell)
			flagRows[k.T] = append(flagRows[k.T], r)
			c.Case(k.K + ":" + k.T + ":" + k.Name)
			if r.Const == nil {
				unbound = append(unbound, k.T+":"+k.Name)
				continue
			}
			c.Exec(1)
			if g03U32(k.Mask) != uint32(1)<<uint(k.Bit) {
				return fmt.Errorf("case table: mask %v is not bit %d", k.Mask, k.Bit)
			}
			if r.Const.U != uint64(g03U32(k.Mask)) {
				c.Drift(fk.Site, "bit:"+k.Name, fmt.Sprintf("the standard gives %s the mask 0x%08X, the library declares %s = 0x%08X", k.Name, g03U32(k.Mask), r.Const.Ident, r.Const.U),
					map[string]interface{}{"table": k.T, "name": k.Name, "standard": fmt.Sprintf("0x%08X", g03U32(k.Mask)), "declared": fmt.Sprintf("0x%08X", r.Const.U)})
			}
		case "enumrow":
			samNames[k.Name] = true
		case "rid":
			ridRows[k.Rid] = k
		case "oidrow":
			oidByText[k.T+"|"+g03JSONString(k.Text)] = k.Std
		case "ntsev":
			ntRule[k.Sev] = *k
		case "krbetype":
			for _, n := range k.Names {
				etypes[strings.ToLower(n)] = *k
			}
			etypeByID[k.ID] = *k
		}
	}

	var dnsSrv *g03DNS
	dnsFailed := false
	defer func() {
		if dnsSrv != nil {
			dnsSrv.conn.Close()
		}
	}()

	// ---- pass 2
	for i := range cases {
		k := &cases[i]
		switch k.K {
		case "flagrow":
			// judged in pass 1
		case "flagword":
			g03FlagWord(c, k, flagRows[k.T])
		case "enumrow":
			v := g03U32(g03Ints(k.V))
			c.Case(k.K + ":" + k.Name)
			site := "ldap_attributes.SAMAccountType"
			smp := map[string]interface{}{"name": k.Name, "value": fmt.Sprintf("0x%08X", v)}
			if cst := g03Bind(attrConsts, "SAM_", []string{k.Name}); cst == nil {
				unbound = append(unbound, "samtype:"+k.Name)
			} else if cst.U != uint64(v) {
				c.Drift(site, "value:"+k.Name, fmt.Sprintf("MS-SAMR gives SAM_%s = 0x%08X, the library declares %s = 0x%08X", k.Name, v, cst.Ident, cst.U), smp)
			}
			got := ldap_attributes.SAMAccountType(v).String()
			c.Exec(1)
			if normName(got) != normName(k.Name) {
				c.Drift(site, "name:"+k.Name, fmt.Sprintf("String() of 0x%08X is %q, the standard calls it SAM_%s", v, got, k.Name), smp)
			}
		case "enumunknown":
			v := g03U32(g03Ints(k.V))
			c.Case(fmt.Sprintf("%s:%08x", k.K, v))
			got := ldap_attributes.SAMAccountType(v).String()
			c.Exec(1)
			if samNames[got] {
				c.Drift("ldap_attributes.SAMAccountType", "name:undefined-value", fmt.Sprintf("0x%08X is not a defined sAMAccountType, String() calls it %q", v, got), map[string]interface{}{"value": fmt.Sprintf("0x%08X", v)})
			}
		case "dflrow", "dflunknown":
			g03Dfl(c, k, attrConsts)
		case "rid":
			c.Case(fmt.Sprintf("rid:%d", k.Rid))
		case "oidrow":
			c.Case(k.K + ":" + k.T + ":" + k.Std)
			consts, prefix, site := attrConsts, "EKU_", "ldap_attributes.EKU"
			if k.T == "ldapctl" {
				consts, prefix, site = ldapConsts, "", "ldap.LDAP_OID"
			}
			want := g03JSONString(k.Text)
			cst := g03Bind(consts, prefix, k.Names)
			if cst == nil || !cst.IsStr {
				unbound = append(unbound, k.T+":"+k.Std)
				continue
			}
			oidBound[cst.Ident] = true
			c.Exec(1)
			if cst.S != want {
				owner := oidByText[k.T+"|"+cst.S]
				d := fmt.Sprintf("%s is %s, the library declares %s = %q", k.Std, want, cst.Ident, cst.S)
				if owner != "" {
					d += " (which is " + owner + ")"
				}
				c.Drift(site, "oid:"+k.Std, d, map[string]interface{}{"standard": want, "declared": cst.S, "constant": cst.Ident})
			}
		case "ntrow":
			g03NtRow(c, k, ntConsts, &unbound)
		case "ntsev":
			c.Case(fmt.Sprintf("ntsev:%d", k.Sev))
		case "ntunknown":
			v := g03U32(g03Ints(k.V))
			c.Case(fmt.Sprintf("ntunknown:%08x", v))
			declared := false
			for _, cst := range ntConsts {
				if strings.HasPrefix(cst.Ident, "NT_STATUS_") && !cst.IsStr && cst.U == uint64(v) {
					declared = true
				}
			}
			if declared {
				continue
			}
			e := nt_status.NT_STATUS(v).Error()
			c.Exec(1)
			if (e != nil) != k.Failure {
				c.Drift("nt_status.NT_STATUS.Error", "error:undeclared-status", fmt.Sprintf("0x%08X has severity %s (failure=%v) but Error() returns %v", v, k.SevName, k.Failure, e),
					map[string]interface{}{"value": fmt.Sprintf("0x%08X", v), "severity": k.SevName})
			}
		case "pad":
			g03Pad(c, k)
		case "size":
			c.Case(fmt.Sprintf("size:%d<<%d", k.Mant, k.Shift))
			size := k.Mant << k.Shift
			got := utils.SizeInBytes(size)
			c.Exec(1)
			if want := g03Text(g03Ints(k.Text)); got != want {
				aspect := "result"
				if k.Unit == "EiB" {
					aspect = "unit:EiB"
				}
				c.Drift("utils.SizeInBytes", aspect, fmt.Sprintf("SizeInBytes(%d) = %q, specification %q", size, got, want), map[string]interface{}{"size": size, "want": want, "got": got})
			}
		case "krb":
			g03Krb5(c, k, etypes, etypeByID)
		case "krbetype":
			c.Case(fmt.Sprintf("krbetype:%d", k.ID))
		case "ctl":
			g03Ctl(c, k)
		case "mod":
			g03Mod(c, k)
		case "cred":
			g03Cred(c, k)
		case "dns":
			c.Case("dns:" + g03Text(k.QName))
			if dnsSrv == nil && !dnsFailed {
				var err error
				if dnsSrv, err = g03StartDNS(); err != nil {
					dnsSrv, dnsFailed = nil, true // no loopback UDP socket here: the DNS cases are skipped, not failed
					c.Set("dns_cases_skipped", err.Error())
				}
			}
			if dnsSrv != nil {
				g03DNSCase(c, k, dnsSrv)
			}
		default:
			return fmt.Errorf("unknown case kind %q", k.K)
		}
	}

	// ---- every declared RID constant against the table (bound by VALUE: the library's names differ in structure)
	for _, cst := range attrConsts {
		if cst.IsStr || !strings.HasPrefix(cst.Ident, "RID_") {
			continue
		}
		c.Exec(1)
		row := ridRows[int(cst.U)]
		smp := map[string]interface{}{"constant": cst.Ident, "value": cst.U}
		if row == nil {
			c.Drift("ldap_attributes.RID", "value:"+cst.Ident, fmt.Sprintf("%s = %d is not a well-known RID of MS-DTYP 2.4.2.4 / MS-SAMR 2.2.1.14", cst.Ident, cst.U), smp)
			continue
		}
		rest := cst.Ident[len("RID_"):]
		for _, p := range []string{"DOMAIN_USER_", "DOMAIN_GROUP_", "LOCAL_"} {
			if strings.HasPrefix(rest, p) {
				rest = rest[len(p):]
				break
			}
		}
		okName := false
		for _, n := range row.Names {
			if normName(n) == normName(rest) {
				okName = true
			}
		}
		if !okName {
			c.Drift("ldap_attributes.RID", "name:"+cst.Ident, fmt.Sprintf("RID %d is %v in the standards, the library calls it %s", cst.U, row.Names, cst.Ident), smp)
		}
	}
	for _, lst := range []struct {
		name    string
		vals    []int
		builtin bool
	}{{"LocalRIDs", ldap_attributes.LocalRIDs, true}, {"DomainRIDs", ldap_attributes.DomainRIDs, false}} {
		for _, v := range lst.vals {
			c.Exec(1)
			row := ridRows[v]
			if row == nil {
				continue // reported above if it is a declared constant
			}
			if row.Builtin != lst.builtin {
				where := "S-1-5-21-<domain>-"
				if row.Builtin {
					where = "S-1-5-32-"
				}
				c.Drift("ldap_attributes."+lst.name, fmt.Sprintf("scope:%d", v), fmt.Sprintf("RID %d (%s) is listed in %s, but MS-DTYP 2.4.2.4 defines the principal as %s%d", v, row.Names[0], lst.name, where, v),
					map[string]interface{}{"rid": v, "names": row.Names, "scope": row.Scope, "list": lst.name})
			}
		}
	}

	// ---- declared OID constants that no row bound but whose value is another row's OID
	for _, grp := range []struct {
		consts []g03Const
		prefix string
		table  string
		site   string
	}{{attrConsts, "EKU_", "eku", "ldap_attributes.EKU"}, {ldapConsts, "LDAP_", "ldapctl", "ldap.LDAP_OID"}} {
		for _, cst := range grp.consts {
			if !cst.IsStr || !strings.HasPrefix(cst.Ident, grp.prefix) || oidBound[cst.Ident] {
				continue
			}
			c.Exec(1)
			if owner := oidByText[grp.table+"|"+cst.S]; owner != "" {
				c.Drift(grp.site, "oid-belongs-to:"+owner, fmt.Sprintf("%s = %q is the object identifier of %s", cst.Ident, cst.S, owner), map[string]interface{}{"constant": cst.Ident, "declared": cst.S, "owner": owner})
			} else {
				unbound = append(unbound, "declared:"+cst.Ident)
			}
		}
	}

	// ---- the severity rule over every declared NTSTATUS
	nDecl := 0
	for _, cst := range ntConsts {
		if cst.IsStr || !strings.HasPrefix(cst.Ident, "NT_STATUS_") {
			continue
		}
		nDecl++
		v := uint32(cst.U)
		rule, ok := ntRule[int(v>>30)]
		if !ok {
			continue
		}
		e := nt_status.NT_STATUS(v).Error()
		c.Exec(1)
		if (e != nil) != rule.Failure {
			c.Drift("nt_status.NT_STATUS.Error", "error:severity="+rule.SevName, fmt.Sprintf("%s = 0x%08X has severity %s (NT_SUCCESS=%v) but Error() returns %v", cst.Ident, v, rule.SevName, !rule.Failure, e),
				map[string]interface{}{"constant": cst.Ident, "value": fmt.Sprintf("0x%08X", v), "severity": rule.SevName})
		}
		if v&(1<<29) != 0 || v&(1<<28) != 0 {
			c.Drift("nt_status.NT_STATUS", "layout:customer-or-reserved-bit", fmt.Sprintf("%s = 0x%08X has the customer (C) or reserved (N) bit set", cst.Ident, v), map[string]interface{}{"constant": cst.Ident})
		}
	}
	c.Set("declared_nt_status", nDecl)
	sort.Strings(unbound)
	c.Set("rows_without_declared_constant", unbound)
	return nil
}

func g03Ints(raw json.RawMessage) []int {
	var v []int
	json.Unmarshal(raw, &v)
	return v
}

func g03JSONString(raw json.RawMessage) string {
	var s string
	json.Unmarshal(raw, &s)
	return s
}

// ---------------------------------------------------------------------------------------------

func g03FlagWord(c *h.Ctx, k *g03Case, rows []*g03Row) {
	fk := g03FlagKinds[k.T]
	w := g03U32(k.W)
	c.Case(fmt.Sprintf("flagword:%s:%08x", k.T, w))
	want := map[string]bool{}
	for _, n := range k.Names {
		want[n] = true
	}
	smp := map[string]interface{}{"table": k.T, "word": fmt.Sprintf("0x%08X", w), "names": k.Names}
	// ADHas through the declared masks
	for _, r := range rows {
		if r.Const == nil {
			continue
		}
		c.Exec(1)
		if has := uint64(w)&r.Const.U != 0; has != want[r.Name] {
			c.Drift(fk.Site, "bit:"+r.Name, fmt.Sprintf("word 0x%08X: the standard says %s is %v, word & %s is %v", w, r.Name, want[r.Name], r.Const.Ident, has), smp)
		}
	}
	rowOf := func(printed string) *g03Row {
		for _, r := range rows {
			for _, s := range r.Spell {
				if normName(s) == normName(printed) {
					return r
				}
			}
		}
		return nil
	}
	switch k.T {
	case "uac":
		s := ldap_attributes.UserAccountControl(w).String()
		c.Exec(1)
		seen := map[string]int{}
		for _, p := range splitPipe(s) {
			r := rowOf(p)
			if r == nil {
				c.Drift(fk.Site+".String", "string:"+p, fmt.Sprintf("word 0x%08X prints %q, which is no userAccountControl bit of MS-ADTS 2.2.16", w, p), smp)
				continue
			}
			seen[r.Name]++
			if !want[r.Name] {
				c.Drift(fk.Site+".String", "string:"+r.Name, fmt.Sprintf("word 0x%08X prints %q but bit %d (%s) is not set", w, p, r.Bit, r.Name), smp)
			}
		}
		for _, n := range k.Names {
			if seen[n] != 1 {
				c.Drift(fk.Site+".String", "string:"+n, fmt.Sprintf("word 0x%08X has %s set; String() = %q names it %d times", w, n, s, seen[n]), smp)
			}
		}
		// GetFlags: the named bits that are set, ascending
		wantBits := []int{}
		for _, r := range rows {
			if want[r.Name] {
				wantBits = append(wantBits, r.Bit)
			}
		}
		sort.Ints(wantBits)
		gotBits := []int{}
		asc := true
		var prev ldap_attributes.UserAccountControl
		for i, f := range ldap_attributes.UserAccountControl(w).GetFlags() {
			if i > 0 && f <= prev {
				asc = false
			}
			prev = f
			for b := 0; b < 32; b++ {
				if uint32(f) == uint32(1)<<uint(b) {
					gotBits = append(gotBits, b)
				}
			}
		}
		c.Exec(1)
		if !asc {
			c.Drift(fk.Site+".GetFlags", "order", fmt.Sprintf("word 0x%08X: GetFlags() is not ascending", w), smp)
		}
		gs, ws := map[int]bool{}, map[int]bool{}
		for _, b := range gotBits {
			gs[b] = true
		}
		for _, b := range wantBits {
			ws[b] = true
		}
		for b := 0; b < 32; b++ {
			if gs[b] != ws[b] {
				n := fmt.Sprintf("bit%d", b)
				if r := rowOf(ldap_attributes.UserAccountControl(uint32(1) << uint(b)).String()); r != nil {
					n = r.Name // the flag the LIBRARY places at this bit
				}
				for _, r := range rows {
					if r.Bit == b {
						n = r.Name
					}
				}
				c.Drift(fk.Site+".GetFlags", "getflags:"+n, fmt.Sprintf("word 0x%08X: the standard names bit %d: %v, GetFlags() returns it: %v", w, b, ws[b], gs[b]), smp)
			}
		}
	case "pwd", "enroll":
		var s string
		if k.T == "pwd" {
			s = ldap_attributes.PasswordProperties(w).String()
		} else {
			s = ldap_attributes.MSPKIEnrollmentFlag(w).String()
		}
		c.Exec(1)
		site := fk.Site + ".String"
		ns := normName(s)
		switch {
		case len(k.Names) == 1 && len(k.Bits) == 1:
			if ns != normName(k.Names[0]) {
				c.Drift(site, "string:"+k.Names[0], fmt.Sprintf("String() of the single flag 0x%08X is %q, the standard calls it %s", w, s, k.Names[0]), smp)
			}
		case len(k.Names) == 0:
			for _, r := range rows {
				if strings.Contains(ns, normName(r.Name)) {
					c.Drift(site, "string:no-named-bit", fmt.Sprintf("word 0x%08X has no named bit set, String() = %q mentions %s", w, s, r.Name), smp)
				}
			}
		default:
			for _, n := range k.Names {
				if !strings.Contains(ns, normName(n)) {
					c.Drift(site, "string:combined-word", fmt.Sprintf("word 0x%08X has %v set, String() = %q does not name %s", w, k.Names, s, n), smp)
					break
				}
			}
		}
	}
	if len(k.Bits) == 2 {
		c.Sample(smp)
	}
}

func g03Dfl(c *h.Ctx, k *g03Case, consts []g03Const) {
	var v int
	json.Unmarshal(k.V, &v)
	site := "ldap_attributes.DomainFunctionalityLevel"
	lvl := ldap_attributes.DomainFunctionalityLevel(v)
	s := lvl.String()
	sup := lvl.IsSupported()
	c.Exec(2)
	if k.K == "dflrow" {
		c.Case("dflrow:" + k.Name)
		smp := map[string]interface{}{"level": v, "name": "DS_BEHAVIOR_" + k.Name, "product": k.Product}
		found := false
		for _, cst := range consts {
			if !cst.IsStr && strings.HasPrefix(cst.Ident, "DOMAIN_FUNCTIONALITY_LEVEL_") && cst.U == uint64(v) {
				found = true
			}
		}
		if !found {
			c.Drift(site, "value:"+k.Name, fmt.Sprintf("no DOMAIN_FUNCTIONALITY_LEVEL_ constant has the value %d (DS_BEHAVIOR_%s)", v, k.Name), smp)
		}
		if !strings.HasSuffix(s, k.Product) {
			c.Drift(site+".String", "string:"+k.Name, fmt.Sprintf("level %d is %s (DS_BEHAVIOR_%s), String() = %q", v, k.Product, k.Name, s), smp)
		}
		if !sup {
			c.Drift(site+".IsSupported", "supported:"+k.Name, fmt.Sprintf("level %d (DS_BEHAVIOR_%s) is a domain functional level of MS-ADTS 6.1.4.3, IsSupported() = false", v, k.Name), smp)
		}
		return
	}
	c.Case(fmt.Sprintf("dflunknown:%d", v))
	smp := map[string]interface{}{"level": v}
	for _, p := range k.Prods {
		if strings.HasSuffix(s, p) {
			c.Drift(site+".String", "string:undefined-level", fmt.Sprintf("level %d is not defined, String() = %q", v, s), smp)
		}
	}
	if !strings.Contains(s, strconv.Itoa(v)) {
		c.Drift(site+".String", "string:undefined-level", fmt.Sprintf("level %d is not defined, String() = %q does not show the number", v, s), smp)
	}
	if sup != k.Defined {
		c.Drift(site+".IsSupported", "supported:undefined-level", fmt.Sprintf("level %d: defined=%v, IsSupported() = %v", v, k.Defined, sup), smp)
	}
}

func g03NtRow(c *h.Ctx, k *g03Case, consts []g03Const, unbound *[]string) {
	v := g03U32(g03Ints(k.V))
	c.Case("ntrow:" + k.Name)
	smp := map[string]interface{}{"name": "STATUS_" + k.Name, "value": fmt.Sprintf("0x%08X", v), "severity": k.SevName, "facility": 0, "code": v & 0xFFFF}
	if int(v>>30) != k.Sev {
		c.Drift("nt_status.NT_STATUS", "layout", "driver and specification disagree on the severity field", smp)
	}
	cst := g03Bind(consts, "NT_STATUS_", []string{k.Name})
	if cst == nil {
		*unbound = append(*unbound, "ntstatus:"+k.Name)
	} else if cst.U != uint64(v) {
		c.Drift("nt_status.NT_STATUS", "value:"+k.Name, fmt.Sprintf("MS-ERREF gives STATUS_%s = 0x%08X, the library declares %s = 0x%08X", k.Name, v, cst.Ident, cst.U), smp)
	}
	got := nt_status.NT_STATUS(v).String()
	e := nt_status.NT_STATUS(v).Error()
	c.Exec(2)
	okName := false
	for _, n := range k.Names {
		if normName(n) == normName(got) {
			okName = true
		}
	}
	if !okName {
		c.Drift("nt_status.NT_STATUS.String", "name:"+k.Name, fmt.Sprintf("String() of 0x%08X is %q, MS-ERREF calls it %v", v, got, k.Names), smp)
	}
	if (e != nil) != k.Failure {
		c.Drift("nt_status.NT_STATUS.Error", "error:severity="+k.SevName, fmt.Sprintf("STATUS_%s = 0x%08X has severity %s (NT_SUCCESS=%v) but Error() returns %v", k.Name, v, k.SevName, !k.Failure, e), smp)
	}
	if k.Name == "ACCESS_DENIED" {
		c.Sample(smp)
	}
}

func g03Pad(c *h.Ctx, k *g03Case) {
	s, p := g03Text(k.S), g03Text(k.P)
	c.Case(fmt.Sprintf("pad:%q:%q:%d", s, p, k.N))
	aspect := "result"
	if !k.Ascii {
		aspect = "result:non-ascii-input"
	}
	smp := map[string]interface{}{"input": s, "pad": p, "length": k.N}
	var r, l string
	pan := h.Guard(func() { r = utils.PadStringRight(s, p, k.N); l = utils.PadStringLeft(s, p, k.N) })
	c.Exec(2)
	if pan != "" {
		c.Drift("utils.PadStringRight", "panic", pan, smp)
		return
	}
	if want := g03Text(k.Right); r != want {
		c.Drift("utils.PadStringRight", aspect, fmt.Sprintf("PadStringRight(%q, %q, %d) = %q (%d characters), specification %q", s, p, k.N, r, len([]rune(r)), want), smp)
	}
	if want := g03Text(k.Left); l != want {
		c.Drift("utils.PadStringLeft", aspect, fmt.Sprintf("PadStringLeft(%q, %q, %d) = %q (%d characters), specification %q", s, p, k.N, l, len([]rune(l)), want), smp)
	}
}

func g03Krb5(c *h.Ctx, k *g03Case, etypes map[string]g03Case, byID map[int]g03Case) {
	host, realm := g03Text(k.Host), g03Text(k.Realm)
	c.Case(fmt.Sprintf("krb:%q:%q", host, realm))
	site := "kerberos.KerberosInit"
	smp := map[string]interface{}{"host": host, "realm": realm}
	spn, cfg := kerberos.KerberosInit(host, realm)
	c.Exec(1)
	if cfg == nil {
		c.Drift(site, "config", "nil configuration", smp)
		return
	}
	w := k.Cfg
	if want := g03Text(w.SPN); spn != want {
		c.Drift(site, "spn", fmt.Sprintf("service principal name %q, specification %q", spn, want), smp)
	}
	wr := g03Text(w.Realm)
	if cfg.LibDefaults.DefaultRealm != wr {
		c.Drift(site, "realm", fmt.Sprintf("default_realm %q, specification %q", cfg.LibDefaults.DefaultRealm, wr), smp)
	}
	if len(cfg.Realms) != 1 {
		c.Drift(site, "realms", fmt.Sprintf("%d [realms] entries, specification 1", len(cfg.Realms)), smp)
	} else {
		r := cfg.Realms[0]
		if r.Realm != wr {
			c.Drift(site, "realm", fmt.Sprintf("[realms] entry %q, specification %q", r.Realm, wr), smp)
		}
		if want := g03Text(w.KDC); len(r.KDC) != 1 || r.KDC[0] != want {
			c.Drift(site, "kdc", fmt.Sprintf("kdc %v, specification [%q]", r.KDC, want), smp)
		}
		if want := g03Text(w.Kpasswd); len(r.KPasswdServer) != 1 || r.KPasswdServer[0] != want {
			c.Drift(site, "kpasswd", fmt.Sprintf("kpasswd_server %v, specification [%q]", r.KPasswdServer, want), smp)
		}
	}
	wantDR := map[string]string{}
	for _, kv := range w.DomainRealm {
		if len(kv) == 2 {
			wantDR[g03Text(kv[0])] = g03Text(kv[1])
		}
	}
	keys := map[string]bool{}
	for kk := range wantDR {
		keys[kk] = true
	}
	for kk := range cfg.DomainRealm {
		keys[kk] = true
	}
	ks := []string{}
	for kk := range keys {
		ks = append(ks, kk)
	}
	sort.Strings(ks)
	for _, kk := range ks {
		g, gok := cfg.DomainRealm[kk]
		wv, wok := wantDR[kk]
		if g != wv || gok != wok {
			c.Drift(site, "domain_realm", fmt.Sprintf("[domain_realm] %q: code %q (present %v), specification %q (present %v)", kk, g, gok, wv, wok), smp)
		}
	}
	// encryption types: each configured name/number pair agrees with the IANA registry, in the same order; no weak type unless allowed
	ld := cfg.LibDefaults
	for _, lst := range []struct {
		what  string
		names []string
		ids   []int32
	}{{"default_tgs_enctypes", ld.DefaultTGSEnctypes, ld.DefaultTGSEnctypeIDs}, {"default_tkt_enctypes", ld.DefaultTktEnctypes, ld.DefaultTktEnctypeIDs},
		{"permitted_enctypes", ld.PermittedEnctypes, ld.PermittedEnctypeIDs}} {
		if len(lst.names) != len(lst.ids) {
			c.Drift(site, "etype:"+lst.what, fmt.Sprintf("%s: %d names, %d numbers", lst.what, len(lst.names), len(lst.ids)), smp)
			continue
		}
		for i, n := range lst.names {
			row, ok := etypes[strings.ToLower(n)]
			if !ok {
				c.Drift(site, "etype:"+n, fmt.Sprintf("%s: %q is not a registered Kerberos encryption type name", lst.what, n), smp)
				continue
			}
			if int(lst.ids[i]) != row.ID {
				c.Drift(site, "etype:"+n, fmt.Sprintf("%s: %q is encryption type %d, configured number %d", lst.what, n, row.ID, lst.ids[i]), smp)
			}
			if row.Weak && !ld.AllowWeakCrypto {
				c.Drift(site, "etype:"+n, fmt.Sprintf("%s: weak encryption type %q although allow_weak_crypto = false", lst.what, n), smp)
			}
		}
	}
	for _, id := range ld.PreferredPreauthTypes {
		if _, ok := byID[id]; !ok {
			c.Drift(site, "etype:preferred_preauth_types", fmt.Sprintf("preferred_preauth_types: %d is not a modelled encryption type number", id), smp)
		}
	}
	if host == "dc01.lab.local" && realm == "lab.local" {
		c.Sample(smp)
	}
}

func g03Ctl(c *h.Ctx, k *g03Case) {
	oids := g03Texts(k.Oids)
	c.Case(fmt.Sprintf("ctl:%v:%v", oids, k.Critical))
	site := "ldap.NewControlsWithOIDs"
	smp := map[string]interface{}{"oids": oids, "critical": k.Critical}
	ctls := ldap.NewControlsWithOIDs(oids, k.Critical)
	c.Exec(1)
	if len(ctls) != len(k.Controls) {
		c.Drift(site, "len", fmt.Sprintf("%d controls for %d object identifiers", len(ctls), len(k.Controls)), smp)
		return
	}
	for i, ct := range ctls {
		want := k.Controls[i]
		if ct == nil {
			c.Drift(site, "nil", fmt.Sprintf("control #%d is nil", i), smp)
			continue
		}
		if got := ct.GetControlType(); got != g03Text(want.Type) {
			c.Drift(site, "type", fmt.Sprintf("control #%d has type %q, specification %q", i, got, g03Text(want.Type)), smp)
		}
		var got []byte
		pan := h.Guard(func() { got = ct.Encode().Bytes() })
		if pan != "" {
			c.Drift(site, "ber:panic", pan, smp)
			continue
		}
		if h.Hex(got) != h.Hex(want.Ber) {
			aspect := "ber"
			if len(got) == len(want.Ber) && want.Critical {
				// the same encoding except for the content octet of BOOLEAN TRUE (RFC 4511 5.1: 0xFF)?
				nd, at := 0, -1
				for j := range got {
					if got[j] != want.Ber[j] {
						nd, at = nd+1, j
					}
				}
				if nd == 1 && want.Ber[at] == 0xFF && at >= 2 && want.Ber[at-1] == 1 && want.Ber[at-2] == 1 {
					aspect = "ber:boolean-true-octet"
				}
			}
			c.Drift(site, aspect, fmt.Sprintf("control #%d encodes as %s, RFC 4511 gives %s", i, h.Hex(got), h.Hex(want.Ber)), smp)
		}
	}
	if len(oids) == 2 && k.Critical {
		c.Sample(smp)
	}
}

func g03Mod(c *h.Ctx, k *g03Case) {
	ops := []string{}
	for _, cl := range k.Calls {
		ops = append(ops, cl.Op)
	}
	c.Case("mod:" + strings.Join(ops, ","))
	site := "ldap.ModifyRequest"
	smp := map[string]interface{}{"calls": ops}
	dn := g03Text(k.DN)
	req := ldap.NewModifyRequest(dn)
	for _, cl := range k.Calls {
		t, vals := g03Text(cl.Type), g03Texts(cl.Vals)
		switch cl.Op {
		case "add":
			req.Add(t, vals)
		case "delete":
			req.Delete(t, vals)
		case "replace":
			req.Replace(t, vals)
		case "increment":
			req.Increment(t, vals[0])
		}
	}
	c.Exec(1)
	if req.DistinguishedName != dn {
		c.Drift(site, "object", fmt.Sprintf("object %q, specification %q", req.DistinguishedName, dn), smp)
	}
	if len(req.Attributes) != len(k.Changes) {
		c.Drift(site, "changes:len", fmt.Sprintf("%d changes after %d calls", len(req.Attributes), len(k.Changes)), smp)
		return
	}
	for i, a := range req.Attributes {
		want := k.Changes[i]
		// the operation of a change = which value list the Action carries
		codes := []int{}
		var vals []string
		if a.AddValues != nil {
			codes, vals = append(codes, 0), a.AddValues
		}
		if a.DelValues != nil {
			codes, vals = append(codes, 1), a.DelValues
		}
		if a.ReplaceValues != nil {
			codes, vals = append(codes, 2), a.ReplaceValues
		}
		if a.IncrementValues != nil {
			codes, vals = append(codes, 3), a.IncrementValues
		}
		if len(codes) != 1 || codes[0] != want.Code {
			c.Drift(site, fmt.Sprintf("changes:operation=%d", want.Code), fmt.Sprintf("change #%d carries the operations %v, specification %d", i, codes, want.Code), smp)
			continue
		}
		if a.Attribute != g03Text(want.Type) {
			c.Drift(site, "changes:type", fmt.Sprintf("change #%d is on %q, specification %q", i, a.Attribute, g03Text(want.Type)), smp)
		}
		if fmt.Sprint(vals) != fmt.Sprint(g03Texts(want.Vals)) {
			c.Drift(site, "changes:vals", fmt.Sprintf("change #%d has values %v, specification %v", i, vals, g03Texts(want.Vals)), smp)
		}
	}
}

func g03Cred(c *h.Ctx, k *g03Case) {
	d, u, p, hs := g03Text(k.Domain), g03Text(k.User), g03Text(k.Password), g03Text(k.Hashes)
	c.Case(fmt.Sprintf("cred:%q:%q:%q:%q", d, u, p, hs))
	site := "credentials.Credentials"
	smp := map[string]interface{}{"domain": d, "user": u, "password": p, "hashes": hs}
	cr, err := credentials.NewCredentials(d, u, p, hs)
	c.Exec(1)
	if (err == nil) != k.OK {
		c.Drift("credentials.NewCredentials", "result", fmt.Sprintf("error %v, specification ok=%v", err, k.OK), smp)
		return
	}
	if err != nil {
		if cr != nil {
			c.Drift("credentials.NewCredentials", "result:non-nil-with-error", "a credential set is returned together with an error", smp)
		}
		return
	}
	if cr.GetDomain() != d || cr.GetUsername() != u || cr.GetPassword() != p || cr.Domain != d || cr.Username != u || cr.Password != p {
		c.Drift(site, "fields", fmt.Sprintf("(%q, %q, %q) stored as (%q, %q, %q)", d, u, p, cr.GetDomain(), cr.GetUsername(), cr.GetPassword()), smp)
	}
	if !strings.EqualFold(cr.GetLMHash(), g03Text(k.LM)) || !strings.EqualFold(cr.GetNTHash(), g03Text(k.NT)) {
		c.Drift(site, "hashes", fmt.Sprintf("LM %q NT %q, specification LM %q NT %q", cr.GetLMHash(), cr.GetNTHash(), g03Text(k.LM), g03Text(k.NT)), smp)
	}
	if cr.IsDomainIdentity() != k.IsDomain {
		c.Drift(site+".IsDomainIdentity", "result", fmt.Sprintf("%v, specification %v", cr.IsDomainIdentity(), k.IsDomain), smp)
	}
	if cr.IsLocalIdentity() != k.IsLocal {
		c.Drift(site+".IsLocalIdentity", "result", fmt.Sprintf("%v, specification %v", cr.IsLocalIdentity(), k.IsLocal), smp)
	}
	if cr.CanPassTheHash() != k.PTH {
		c.Drift(site+".CanPassTheHash", "result", fmt.Sprintf("%v, specification %v", cr.CanPassTheHash(), k.PTH), smp)
	}
}

func g03DNSCase(c *h.Ctx, k *g03Case, srv *g03DNS) {
	name := g03Text(k.QName)
	zone := map[string][]net.IP{}
	for _, z := range k.Zone {
		var ips []net.IP
		for _, a := range z.Addrs {
			ips = append(ips, net.ParseIP(g03Text(a)))
		}
		zone[strings.ToLower(strings.TrimSuffix(g03Text(z.Name), "."))] = ips
	}
	srv.mu.Lock()
	srv.zone = zone
	srv.mu.Unlock()
	got := dns.DNSLookup(name, srv.addr())
	c.Exec(1)
	want := g03Texts(k.Answer)
	g := append([]string(nil), got...)
	sort.Strings(g)
	sort.Strings(want)
	if fmt.Sprint(g) != fmt.Sprint(want) {
		c.Drift("dns.DNSLookup", "answer", fmt.Sprintf("DNSLookup(%q) against a server that serves the zone returned %v, specification %v", name, got, want),
			map[string]interface{}{"name": name, "want": want, "got": got})
	}
}
