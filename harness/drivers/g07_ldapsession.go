package drivers

// Growth G07: the LDAP session layer of network/ldap (Session.GetDomain, GetAllDomains, FindObjectSIDByRID, LookupSID, the Query
// family, naming contexts, domain controllers, certificate templates, objects.Domain methods) over a modelled directory, bound to
// spec/LDAPDirectory.tla through the cases of spec/G07Cases.tla.
//
// A minimal in-process LDAP server (bind, search with the paged-results control, unbind; BER via go-asn1-ber) serves the
// directory of the case on 127.0.0.1:0 and evaluates the search filter it receives generically (and / or / not / equalityMatch /
// present / substrings / extensibleMatch with the bit-and rule; String(Sid) attributes match their binary value and -- as
// Active Directory does -- their S-1-... string form; DN-valued attributes match as DNs; objectCategory also matches a class
// name). A real ldap.Session is connected to it, the call of the case is executed and compared with the specification's
// expectation; what the server saw (base, scope, filter, attributes of every search below the RootDSE) is compared with the
// searches the specification states.
//
// Verdicts: the SID text returned for a binary objectSid the directory returned and the DNS domain derived from a DN the
// directory returned are C16 clauses (c.Fail); which searches are sent, NetBIOS names, result counts, error handling are
// beyond the property statement (c.Drift). A panic inside a session method on well-formed replies is c.Fail "panic-on-case".

import (
	"bytes"
	"encoding/json"
	"fmt"
	"net"
	"sort"
	"strconv"
	"strings"
	"sync"
	"time"

	"github.com/TheManticoreProject/Manticore/network/ldap"
	"github.com/TheManticoreProject/Manticore/network/ldap/objects"
	"github.com/TheManticoreProject/Manticore/windows/credentials"
	ber "github.com/go-asn1-ber/asn1-ber"
	goldap "github.com/go-ldap/ldap/v3"
	"verif/harness/h"
)

func init() { h.Register("g07.ldapsession", g07LdapSession) }

// ---------------------------------------------------------------------------------------------
// case records

type g07Attr struct {
	N h.Bytes   `json:"n"`
	V []h.Bytes `json:"v"`
}

type g07Entry struct {
	Dn     h.Bytes   `json:"dn"`
	Attrs  []g07Attr `json:"attrs"`
	Sidtxt h.Bytes   `json:"sidtxt"`
	Dom    h.Bytes   `json:"dom"`
}

type g07DirID struct {
	Sidp int    `json:"sidp"`
	Ndom int    `json:"ndom"`
	Bi   string `json:"bi"`
	Nb   string `json:"nb"`
	Gc   bool   `json:"gc"`
	Cap  int    `json:"cap"`
	Dnc  int    `json:"dnc"`
}

func (d g07DirID) key() string {
	return fmt.Sprintf("sidp=%d ndom=%d bi=%s nb=%s gc=%v cap=%d dnc=%d", d.Sidp, d.Ndom, d.Bi, d.Nb, d.Gc, d.Cap, d.Dnc)
}

type g07Dir struct {
	ID      g07DirID   `json:"id"`
	Gc      bool       `json:"gc"`
	Cap     int        `json:"cap"`
	Root    []g07Attr  `json:"root"`
	Entries []g07Entry `json:"entries"`
}

type g07Filter struct {
	Op   string      `json:"op"`
	Attr h.Bytes     `json:"attr"`
	Val  h.Bytes     `json:"val"`
	Subs []g07Filter `json:"subs"`
	Ini  h.Bytes     `json:"ini"`
	Any  []h.Bytes   `json:"any"`
	Fin  h.Bytes     `json:"fin"`
	Rule h.Bytes     `json:"rule"`
}

type g07Query struct {
	Base  h.Bytes    `json:"base"`
	Scope int        `json:"scope"`
	F     g07Filter  `json:"f"`
	Attrs *[]h.Bytes `json:"attrs"` // nil: the specification does not state the selection
}

type g07Domain struct {
	Dn  h.Bytes `json:"dn"`
	Nb  h.Bytes `json:"nb"`
	Dns h.Bytes `json:"dns"`
	Sid h.Bytes `json:"sid"`
}

type g07HostRow struct {
	Dn    h.Bytes   `json:"dn"`
	Hosts []h.Bytes `json:"hosts"`
}

type g07WantEntry struct {
	Dn    h.Bytes   `json:"dn"`
	Attrs []g07Attr `json:"attrs"`
}

type g07Rec struct {
	K     string          `json:"k"`
	Dir   g07DirID        `json:"dir"`
	M     string          `json:"m"`
	A     json.RawMessage `json:"a"`
	Want  json.RawMessage `json:"want"`
	Q     []g07Query      `json:"q"`
	Qopen bool            `json:"qopen"`
}

// ---------------------------------------------------------------------------------------------
// RFC 4515 text of a filter the specification states (the wire form of a call's argument, and the form searches are compared in)

func g07Escape(v []byte) string {
	var b strings.Builder
	for _, x := range v {
		if x < 0x20 || x >= 0x7f || x == '(' || x == ')' || x == '*' || x == '\\' {
			fmt.Fprintf(&b, "\\%02x", x)
		} else {
			b.WriteByte(x)
		}
	}
	return b.String()
}

func (f g07Filter) text() string {
	switch f.Op {
	case "and", "or", "not":
		var b strings.Builder
		b.WriteString("(" + map[string]string{"and": "&", "or": "|", "not": "!"}[f.Op])
		for _, s := range f.Subs {
			b.WriteString(s.text())
		}
		return b.String() + ")"
	case "present":
		return "(" + string(f.Attr) + "=*)"
	case "eq":
		return "(" + string(f.Attr) + "=" + g07Escape(f.Val) + ")"
	case "sub":
		s := g07Escape(f.Ini) + "*"
		for _, a := range f.Any {
			s += g07Escape(a) + "*"
		}
		return "(" + string(f.Attr) + "=" + s + g07Escape(f.Fin) + ")"
	case "ext":
		return "(" + string(f.Attr) + ":" + string(f.Rule) + ":=" + g07Escape(f.Val) + ")"
	}
	return "(?" + f.Op + ")"
}

// canonical comparison form of a filter text: the attribute descriptions in lower case, escapes in lower case
func g07FilterKey(s string) string {
	p, err := goldap.CompileFilter(s)
	if err != nil {
		return "uncompilable:" + s
	}
	return g07PacketKey(p)
}

func g07PacketKey(p *ber.Packet) string {
	switch p.Tag {
	case goldap.FilterAnd, goldap.FilterOr, goldap.FilterNot:
		s := "(" + map[ber.Tag]string{goldap.FilterAnd: "&", goldap.FilterOr: "|", goldap.FilterNot: "!"}[p.Tag]
		for _, c := range p.Children {
			s += g07PacketKey(c)
		}
		return s + ")"
	case goldap.FilterPresent:
		return "(" + strings.ToLower(string(g07Content(p))) + "=*)"
	case goldap.FilterEqualityMatch, goldap.FilterGreaterOrEqual, goldap.FilterLessOrEqual, goldap.FilterApproxMatch:
		if len(p.Children) != 2 {
			return "(malformed)"
		}
		op := map[ber.Tag]string{goldap.FilterEqualityMatch: "=", goldap.FilterGreaterOrEqual: ">=", goldap.FilterLessOrEqual: "<=", goldap.FilterApproxMatch: "~="}[p.Tag]
		return "(" + strings.ToLower(string(g07Content(p.Children[0]))) + op + g07Escape(g07Content(p.Children[1])) + ")"
	case goldap.FilterSubstrings:
		if len(p.Children) != 2 {
			return "(malformed)"
		}
		s := "(" + strings.ToLower(string(g07Content(p.Children[0]))) + "="
		for i, c := range p.Children[1].Children {
			switch c.Tag {
			case goldap.FilterSubstringsInitial:
				s += g07Escape(g07Content(c)) + "*"
			case goldap.FilterSubstringsAny:
				if i == 0 {
					s += "*"
				}
				s += g07Escape(g07Content(c)) + "*"
			case goldap.FilterSubstringsFinal:
				if i == 0 {
					s += "*"
				}
				s += g07Escape(g07Content(c))
			}
		}
		return s + ")"
	case goldap.FilterExtensibleMatch:
		var rule, typ, val string
		for _, c := range p.Children {
			switch c.Tag {
			case goldap.MatchingRuleAssertionMatchingRule:
				rule = string(g07Content(c))
			case goldap.MatchingRuleAssertionType:
				typ = strings.ToLower(string(g07Content(c)))
			case goldap.MatchingRuleAssertionMatchValue:
				val = g07Escape(g07Content(c))
			}
		}
		return "(" + typ + ":" + rule + ":=" + val + ")"
	}
	return fmt.Sprintf("(tag%d)", p.Tag)
}

func g07Content(p *ber.Packet) []byte {
	if p.ByteValue != nil {
		return p.ByteValue
	}
	if p.Data != nil {
		return p.Data.Bytes()
	}
	return nil
}

// ---------------------------------------------------------------------------------------------
// the directory as the server holds it

type g07SrvAttr struct {
	Name string
	Vals [][]byte
}

type g07SrvEntry struct {
	DN    string
	Norm  []string
	Attrs []g07SrvAttr
}

// RFC 4514 string form -> normalised RDN list (type and value in upper case, escapes resolved)
func g07ParseDN(s string) []string {
	if s == "" {
		return []string{}
	}
	var parts []string
	var cur []byte
	for i := 0; i < len(s); i++ {
		ch := s[i]
		if ch == '\\' && i+1 < len(s) {
			if i+2 < len(s) && g07IsHex(s[i+1]) && g07IsHex(s[i+2]) {
				v, _ := strconv.ParseUint(s[i+1:i+3], 16, 8)
				cur = append(cur, 0, byte(v)) // 0 marks "escaped": never a separator
				i += 2
			} else {
				cur = append(cur, 0, s[i+1])
				i++
			}
			continue
		}
		if ch == ',' {
			parts = append(parts, string(cur))
			cur = nil
			continue
		}
		cur = append(cur, ch)
	}
	parts = append(parts, string(cur))
	out := make([]string, len(parts))
	for i, p := range parts {
		eq := strings.IndexByte(p, '=')
		t, v := p, ""
		if eq >= 0 {
			t, v = p[:eq], p[eq+1:]
		}
		v = strings.ReplaceAll(v, "\x00", "")
		out[i] = strings.ToUpper(strings.TrimSpace(t)) + "\x01" + strings.ToUpper(v)
	}
	return out
}

func g07IsHex(c byte) bool {
	return c >= '0' && c <= '9' || c >= 'a' && c <= 'f' || c >= 'A' && c <= 'F'
}

func g07SameDN(a, b []string) bool {
	if len(a) != len(b) {
		return false
	}
	for i := range a {
		if a[i] != b[i] {
			return false
		}
	}
	return true
}

func g07IsSuffix(b, d []string) bool {
	return len(b) <= len(d) && g07SameDN(b, d[len(d)-len(b):])
}

// MS-DTYP 2.4.2.1 string form -> 2.4.2.2 packet (nil when the text is no SID)
func g07SidFromText(t string) []byte {
	parts := strings.Split(t, "-")
	if len(parts) < 3 || (parts[0] != "S" && parts[0] != "s") || parts[1] != "1" || len(parts)-3 > 15 {
		return nil
	}
	var auth uint64
	var err error
	if strings.HasPrefix(parts[2], "0x") || strings.HasPrefix(parts[2], "0X") {
		auth, err = strconv.ParseUint(parts[2][2:], 16, 48)
	} else {
		auth, err = strconv.ParseUint(parts[2], 10, 48)
	}
	if err != nil {
		return nil
	}
	out := []byte{1, byte(len(parts) - 3), byte(auth >> 40), byte(auth >> 32), byte(auth >> 24), byte(auth >> 16), byte(auth >> 8), byte(auth)}
	for _, p := range parts[3:] {
		v, err := strconv.ParseUint(p, 10, 32)
		if err != nil {
			return nil
		}
		out = append(out, byte(v), byte(v>>8), byte(v>>16), byte(v>>24))
	}
	return out
}

var g07DnAttrs = map[string]bool{"DISTINGUISHEDNAME": true, "NCNAME": true, "FSMOROLEOWNER": true}

// classSchema: lDAPDisplayName -> common name of the defaultObjectCategory
var g07ClassCategory = map[string]string{"pkienrollmentservice": "PKI-Enrollment-Service", "pkicertificatetemplate": "PKI-Certificate-Template",
	"computer": "Computer", "user": "Person", "person": "Person", "group": "Group", "domaindns": "Domain-DNS", "crossref": "Cross-Ref",
	"container": "Container", "organizationalunit": "Organizational-Unit", "builtindomain": "Builtin-Domain",
	"configuration": "Configuration", "dmd": "DMD", "crossrefcontainer": "Cross-Ref-Container"}

type g07Seen struct {
	Base     string
	Scope    int
	Filter   string // go-ldap's decompiled text
	Key      string // comparison form
	Attrs    []string
	Paged    bool
	Cookie   string
	Code     int
	Returned []int // indices into the directory, -1 = the RootDSE
	RootDSE  bool
}

type g07Bind struct {
	Name, Password string
}

type g07Server struct {
	ln      net.Listener
	entries []g07SrvEntry
	root    g07SrvEntry
	ncs     [][]string
	schema  string
	gc      bool
	cap     int

	mu     sync.Mutex
	seen   []g07Seen
	binds  []g07Bind
	reject bool
	conns  map[net.Conn]struct{}
	wg     sync.WaitGroup
	closed bool
}

func g07SrvAttrs(as []g07Attr) []g07SrvAttr {
	out := make([]g07SrvAttr, len(as))
	for i, a := range as {
		vs := make([][]byte, len(a.V))
		for k, v := range a.V {
			vs[k] = append([]byte{}, v...)
		}
		out[i] = g07SrvAttr{Name: string(a.N), Vals: vs}
	}
	return out
}

func g07NewServer(d *g07Dir) (*g07Server, error) {
	s := &g07Server{gc: d.Gc, cap: d.Cap, conns: map[net.Conn]struct{}{}}
	for _, e := range d.Entries {
		s.entries = append(s.entries, g07SrvEntry{DN: string(e.Dn), Norm: g07ParseDN(string(e.Dn)), Attrs: g07SrvAttrs(e.Attrs)})
	}
	s.root = g07SrvEntry{DN: "", Norm: []string{}, Attrs: g07SrvAttrs(d.Root)}
	for _, a := range s.root.Attrs {
		if strings.EqualFold(a.Name, "namingContexts") {
			for _, v := range a.Vals {
				s.ncs = append(s.ncs, g07ParseDN(string(v)))
			}
		}
		if strings.EqualFold(a.Name, "schemaNamingContext") && len(a.Vals) > 0 {
			s.schema = string(a.Vals[0])
		}
	}
	ln, err := net.Listen("tcp4", "127.0.0.1:0")
	if err != nil {
		return nil, err
	}
	s.ln = ln
	s.wg.Add(1)
	go s.accept()
	return s, nil
}

func (s *g07Server) port() int { return s.ln.Addr().(*net.TCPAddr).Port }

func (s *g07Server) accept() {
	defer s.wg.Done()
	for {
		conn, err := s.ln.Accept()
		if err != nil {
			return
		}
		s.mu.Lock()
		if s.closed {
			s.mu.Unlock()
			conn.Close()
			return
		}
		s.conns[conn] = struct{}{}
		s.wg.Add(1)
		s.mu.Unlock()
		go s.serve(conn)
	}
}

// dropConns closes every connection (the clients see an error, the serving goroutines end)
func (s *g07Server) dropConns() {
	s.mu.Lock()
	for c := range s.conns {
		c.Close()
	}
	s.mu.Unlock()
}

func (s *g07Server) close() {
	s.mu.Lock()
	s.closed = true
	s.mu.Unlock()
	s.ln.Close()
	s.dropConns()
	done := make(chan struct{})
	go func() { s.wg.Wait(); close(done) }()
	select {
	case <-done:
	case <-time.After(5 * time.Second):
	}
}

func (s *g07Server) reset(reject bool) {
	s.mu.Lock()
	s.seen, s.binds, s.reject = nil, nil, reject
	s.mu.Unlock()
}

func (s *g07Server) snapshot() ([]g07Seen, []g07Bind) {
	s.mu.Lock()
	defer s.mu.Unlock()
	return append([]g07Seen(nil), s.seen...), append([]g07Bind(nil), s.binds...)
}

func (s *g07Server) serve(conn net.Conn) {
	defer func() {
		recover() // a malformed request ends the connection, not the driver
		conn.Close()
		s.mu.Lock()
		delete(s.conns, conn)
		s.mu.Unlock()
		s.wg.Done()
	}()
	for {
		conn.SetReadDeadline(time.Now().Add(30 * time.Second))
		p, err := ber.ReadPacket(conn)
		if err != nil {
			return
		}
		if len(p.Children) < 2 {
			return
		}
		id, _ := p.Children[0].Value.(int64)
		op := p.Children[1]
		var controls *ber.Packet
		if len(p.Children) > 2 && p.Children[2].ClassType == ber.ClassContext && p.Children[2].Tag == 0 {
			controls = p.Children[2]
		}
		if op.ClassType != ber.ClassApplication {
			return
		}
		var out [][]byte
		switch op.Tag {
		case goldap.ApplicationBindRequest:
			out = s.bind(id, op)
		case goldap.ApplicationUnbindRequest:
			return
		case goldap.ApplicationSearchRequest:
			out = s.search(id, op, controls)
		case goldap.ApplicationAbandonRequest:
			continue
		default:
			// RFC 4511 4.1.1: an unrecognised request is answered with a notice of disconnection and the connection is closed
			return
		}
		conn.SetWriteDeadline(time.Now().Add(10 * time.Second))
		for _, b := range out {
			if _, err := conn.Write(b); err != nil {
				return
			}
		}
	}
}

func g07Msg(id int64, op *ber.Packet, controls *ber.Packet) []byte {
	m := ber.Encode(ber.ClassUniversal, ber.TypeConstructed, ber.TagSequence, nil, "LDAPMessage")
	m.AppendChild(ber.NewInteger(ber.ClassUniversal, ber.TypePrimitive, ber.TagInteger, id, "messageID"))
	m.AppendChild(op)
	if controls != nil {
		m.AppendChild(controls)
	}
	return m.Bytes()
}

func g07Result(app ber.Tag, code int, diag string) *ber.Packet {
	p := ber.Encode(ber.ClassApplication, ber.TypeConstructed, app, nil, "LDAPResult")
	p.AppendChild(ber.NewInteger(ber.ClassUniversal, ber.TypePrimitive, ber.TagEnumerated, int64(code), "resultCode"))
	p.AppendChild(ber.NewString(ber.ClassUniversal, ber.TypePrimitive, ber.TagOctetString, "", "matchedDN"))
	p.AppendChild(ber.NewString(ber.ClassUniversal, ber.TypePrimitive, ber.TagOctetString, diag, "diagnosticMessage"))
	return p
}

func (s *g07Server) bind(id int64, op *ber.Packet) [][]byte {
	b := g07Bind{}
	if len(op.Children) >= 3 {
		b.Name = string(g07Content(op.Children[1]))
		b.Password = string(g07Content(op.Children[2]))
	}
	s.mu.Lock()
	s.binds = append(s.binds, b)
	reject := s.reject
	s.mu.Unlock()
	code := 0
	diag := ""
	if reject {
		code, diag = goldap.LDAPResultInvalidCredentials, "80090308: LdapErr: DSID-0C090439, comment: AcceptSecurityContext error, data 52e"
	}
	return [][]byte{g07Msg(id, g07Result(goldap.ApplicationBindResponse, code, diag), nil)}
}

func (s *g07Server) ncOf(norm []string) int {
	best := -1
	for i, nc := range s.ncs {
		if g07IsSuffix(nc, norm) && (best < 0 || len(nc) > len(s.ncs[best])) {
			best = i
		}
	}
	return best
}

func (s *g07Server) search(id int64, op *ber.Packet, controls *ber.Packet) [][]byte {
	done := func(code int, diag string, ctl *ber.Packet) []byte {
		return g07Msg(id, g07Result(goldap.ApplicationSearchResultDone, code, diag), ctl)
	}
	if len(op.Children) < 8 {
		return [][]byte{done(goldap.LDAPResultProtocolError, "malformed search request", nil)}
	}
	base := string(g07Content(op.Children[0]))
	scope64, _ := op.Children[1].Value.(int64)
	scope := int(scope64)
	limit64, _ := op.Children[3].Value.(int64)
	filter := op.Children[6]
	var sel []string
	for _, a := range op.Children[7].Children {
		sel = append(sel, string(g07Content(a)))
	}
	rec := g07Seen{Base: base, Scope: scope, Attrs: sel, Key: g07PacketKey(filter)}
	rec.Filter, _ = goldap.DecompileFilter(filter)
	var paging *goldap.ControlPaging
	if controls != nil {
		for _, c := range controls.Children {
			if dc, err := goldap.DecodeControl(c); err == nil {
				if pc, ok := dc.(*goldap.ControlPaging); ok {
					paging = pc
				}
			}
		}
	}
	if paging != nil {
		rec.Paged, rec.Cookie = true, string(paging.Cookie)
	}
	finish := func(code int, diag string, ctl *ber.Packet, msgs [][]byte) [][]byte {
		rec.Code = code
		s.mu.Lock()
		s.seen = append(s.seen, rec)
		s.mu.Unlock()
		return append(msgs, done(code, diag, ctl))
	}
	// the RootDSE (RFC 4512 5.1): empty base object, scope baseObject
	if base == "" {
		if scope != 0 {
			return finish(goldap.LDAPResultNoSuchObject, "0000208D: NameErr: DSID-0310028B, problem 2001 (NO_OBJECT)", nil, nil)
		}
		rec.RootDSE, rec.Returned = true, []int{-1}
		return finish(0, "", nil, [][]byte{g07Msg(id, g07EntryPacket(&s.root, sel), nil)})
	}
	b := g07ParseDN(base)
	baseIdx := -1
	for i := range s.entries {
		if g07SameDN(s.entries[i].Norm, b) {
			baseIdx = i
			break
		}
	}
	if baseIdx < 0 {
		return finish(goldap.LDAPResultNoSuchObject, "0000208D: NameErr: DSID-0310028B, problem 2001 (NO_OBJECT)", nil, nil)
	}
	baseNC := s.ncOf(b)
	var hits []int
	for i := range s.entries {
		e := &s.entries[i]
		in := false
		switch scope {
		case 0:
			in = g07SameDN(e.Norm, b)
		case 1:
			in = len(e.Norm) == len(b)+1 && g07IsSuffix(b, e.Norm)
		case 2:
			in = g07IsSuffix(b, e.Norm)
		case 3:
			in = len(e.Norm) > len(b) && g07IsSuffix(b, e.Norm)
		default:
			return finish(goldap.LDAPResultProtocolError, "unknown scope", nil, nil)
		}
		if !in || (!s.gc && s.ncOf(e.Norm) != baseNC) {
			continue
		}
		ok, err := s.match(filter, e)
		if err != nil {
			return finish(goldap.LDAPResultUnwillingToPerform, err.Error(), nil, nil)
		}
		if ok {
			hits = append(hits, i)
		}
	}
	code := 0
	from, to := 0, len(hits)
	var ctl *ber.Packet
	if paging != nil {
		if len(paging.Cookie) > 0 {
			from, _ = strconv.Atoi(string(paging.Cookie))
			if from < 0 || from > len(hits) {
				return finish(goldap.LDAPResultUnwillingToPerform, "invalid paging cookie", nil, nil)
			}
		}
		page := int(paging.PagingSize)
		if s.cap > 0 && (page == 0 || page > s.cap) {
			page = s.cap
		}
		if page > 0 && from+page < to {
			to = from + page
		}
		pc := goldap.NewControlPaging(0)
		if to < len(hits) {
			pc.SetCookie([]byte(strconv.Itoa(to)))
		}
		ctl = ber.Encode(ber.ClassContext, ber.TypeConstructed, 0, nil, "Controls")
		ctl.AppendChild(pc.Encode())
	} else if limit64 > 0 && int64(len(hits)) > limit64 {
		to, code = int(limit64), goldap.LDAPResultSizeLimitExceeded
	}
	var msgs [][]byte
	for _, i := range hits[from:to] {
		msgs = append(msgs, g07Msg(id, g07EntryPacket(&s.entries[i], sel), nil))
		rec.Returned = append(rec.Returned, i)
	}
	return finish(code, "", ctl, msgs)
}

// SearchResultEntry with the selected attributes under their schema spelling (RFC 4511 4.5.1.8: none listed or "*" = all user attributes)
func g07EntryPacket(e *g07SrvEntry, sel []string) *ber.Packet {
	all := len(sel) == 0
	none := false
	for _, a := range sel {
		if a == "*" {
			all = true
		}
		if a == "1.1" && len(sel) == 1 {
			none = true
		}
	}
	p := ber.Encode(ber.ClassApplication, ber.TypeConstructed, goldap.ApplicationSearchResultEntry, nil, "SearchResultEntry")
	p.AppendChild(ber.NewString(ber.ClassUniversal, ber.TypePrimitive, ber.TagOctetString, e.DN, "objectName"))
	attrs := ber.Encode(ber.ClassUniversal, ber.TypeConstructed, ber.TagSequence, nil, "attributes")
	for _, a := range e.Attrs {
		want := all && !none
		for _, n := range sel {
			if strings.EqualFold(n, a.Name) {
				want = true
			}
		}
		if !want {
			continue
		}
		pa := ber.Encode(ber.ClassUniversal, ber.TypeConstructed, ber.TagSequence, nil, "PartialAttribute")
		pa.AppendChild(ber.NewString(ber.ClassUniversal, ber.TypePrimitive, ber.TagOctetString, a.Name, "type"))
		vals := ber.Encode(ber.ClassUniversal, ber.TypeConstructed, ber.TagSet, nil, "vals")
		for _, v := range a.Vals {
			vals.AppendChild(ber.NewString(ber.ClassUniversal, ber.TypePrimitive, ber.TagOctetString, string(v), "value"))
		}
		pa.AppendChild(vals)
		attrs.AppendChild(pa)
	}
	p.AppendChild(attrs)
	return p
}

func (e *g07SrvEntry) vals(name string) [][]byte {
	for _, a := range e.Attrs {
		if strings.EqualFold(a.Name, name) {
			return a.Vals
		}
	}
	return nil
}

func (s *g07Server) eq(attr string, val, asr []byte) bool {
	u := strings.ToUpper(attr)
	switch {
	case u == "OBJECTSID":
		if bytes.Equal(val, asr) {
			return true
		}
		b := g07SidFromText(string(asr))
		return b != nil && bytes.Equal(b, val)
	case g07DnAttrs[u]:
		return g07SameDN(g07ParseDN(string(val)), g07ParseDN(string(asr)))
	case u == "OBJECTCATEGORY":
		v := g07ParseDN(string(val))
		if g07SameDN(v, g07ParseDN(string(asr))) {
			return true
		}
		if cn, ok := g07ClassCategory[strings.ToLower(string(asr))]; ok {
			return g07SameDN(v, g07ParseDN("CN="+cn+","+s.schema))
		}
		return false
	}
	return strings.EqualFold(string(val), string(asr))
}

func (s *g07Server) match(p *ber.Packet, e *g07SrvEntry) (bool, error) {
	switch p.Tag {
	case goldap.FilterAnd:
		for _, c := range p.Children {
			ok, err := s.match(c, e)
			if err != nil || !ok {
				return false, err
			}
		}
		return true, nil
	case goldap.FilterOr:
		for _, c := range p.Children {
			ok, err := s.match(c, e)
			if err != nil {
				return false, err
			}
			if ok {
				return true, nil
			}
		}
		return false, nil
	case goldap.FilterNot:
		if len(p.Children) != 1 {
			return false, fmt.Errorf("malformed not")
		}
		ok, err := s.match(p.Children[0], e)
		return !ok, err
	case goldap.FilterPresent:
		return len(e.vals(string(g07Content(p)))) > 0, nil
	case goldap.FilterEqualityMatch:
		if len(p.Children) != 2 {
			return false, fmt.Errorf("malformed equalityMatch")
		}
		attr, asr := string(g07Content(p.Children[0])), g07Content(p.Children[1])
		for _, v := range e.vals(attr) {
			if s.eq(attr, v, asr) {
				return true, nil
			}
		}
		return false, nil
	case goldap.FilterSubstrings:
		if len(p.Children) != 2 {
			return false, fmt.Errorf("malformed substrings")
		}
		attr := string(g07Content(p.Children[0]))
		for _, v := range e.vals(attr) {
			rest, ok := strings.ToUpper(string(v)), true
			for _, c := range p.Children[1].Children {
				part := strings.ToUpper(string(g07Content(c)))
				switch c.Tag {
				case goldap.FilterSubstringsInitial:
					if !strings.HasPrefix(rest, part) {
						ok = false
					} else {
						rest = rest[len(part):]
					}
				case goldap.FilterSubstringsAny:
					if i := strings.Index(rest, part); i < 0 {
						ok = false
					} else {
						rest = rest[i+len(part):]
					}
				case goldap.FilterSubstringsFinal:
					ok = ok && strings.HasSuffix(rest, part)
				}
			}
			if ok {
				return true, nil
			}
		}
		return false, nil
	case goldap.FilterExtensibleMatch:
		var rule, typ string
		var val []byte
		for _, c := range p.Children {
			switch c.Tag {
			case goldap.MatchingRuleAssertionMatchingRule:
				rule = string(g07Content(c))
			case goldap.MatchingRuleAssertionType:
				typ = string(g07Content(c))
			case goldap.MatchingRuleAssertionMatchValue:
				val = g07Content(c)
			}
		}
		for _, v := range e.vals(typ) {
			switch rule {
			case "1.2.840.113556.1.4.803": // LDAP_MATCHING_RULE_BIT_AND
				a, e1 := strconv.ParseUint(string(v), 10, 64)
				m, e2 := strconv.ParseUint(string(val), 10, 64)
				if e1 == nil && e2 == nil && a&m == m {
					return true, nil
				}
			case "1.2.840.113556.1.4.804": // LDAP_MATCHING_RULE_BIT_OR
				a, e1 := strconv.ParseUint(string(v), 10, 64)
				m, e2 := strconv.ParseUint(string(val), 10, 64)
				if e1 == nil && e2 == nil && a&m != 0 {
					return true, nil
				}
			case "":
				if s.eq(typ, v, val) {
					return true, nil
				}
			default:
				return false, fmt.Errorf("matching rule %s not supported", rule)
			}
		}
		return false, nil
	}
	return false, fmt.Errorf("filter choice %d not supported", p.Tag)
}

// ---------------------------------------------------------------------------------------------
// the driver

const g07CallTimeout = 10 * time.Second

// g07Run executes fn (a call into the library) and reports a panic or that it did not return within the timeout
func g07Run(srv *g07Server, fn func()) (panicked string, hung bool) {
	done := make(chan string, 1)
	go func() { done <- h.Guard(fn) }()
	select {
	case p := <-done:
		return p, false
	case <-time.After(g07CallTimeout):
		srv.dropConns() // the pending read fails, the call returns with an error
		select {
		case <-done:
		case <-time.After(3 * time.Second):
		}
		return "", true
	}
}

type g07Live struct {
	key  string
	dir  *g07Dir
	srv  *g07Server
	sess *ldap.Session
	byDN map[string]int
}

func (l *g07Live) stop() {
	if l == nil {
		return
	}
	if l.sess != nil {
		h.Guard(func() { l.sess.Close() })
		l.sess = nil
	}
	if l.srv != nil {
		l.srv.close()
	}
}

func g07Connect(srv *g07Server, domain, user, password string) (*ldap.Session, bool, error, string, bool) {
	creds, err := credentials.NewCredentials(domain, user, password, "")
	if err != nil {
		return nil, false, err, "", false
	}
	sess := &ldap.Session{}
	if err := sess.InitSession("127.0.0.1", srv.port(), creds, false, false); err != nil {
		return nil, false, err, "", false
	}
	var ok bool
	var cerr error
	p, hung := g07Run(srv, func() { ok, cerr = sess.Connect() })
	return sess, ok, cerr, p, hung
}

func g07Strs(xs []h.Bytes) []string {
	out := make([]string, len(xs))
	for i, x := range xs {
		out[i] = string(x)
	}
	return out
}

func g07SetKey(xs []string) string {
	ys := make([]string, len(xs))
	for i, x := range xs {
		ys[i] = strings.ToLower(x)
	}
	sort.Strings(ys)
	return strings.Join(ys, ",")
}

func g07Short(s string) string {
	if len(s) > 160 {
		return s[:160] + "..."
	}
	return s
}

var g07Sites = map[string]string{
	"findsid": "ldap.Session.FindObjectSIDByRID", "getdomain": "ldap.Session.GetDomain", "alldomains": "ldap.Session.GetAllDomains",
	"lookupsid": "ldap.Session.LookupSID", "basedn": "ldap.Session.BaseDNExists", "rootdse": "ldap.Session.GetRootDSE",
	"namingcontexts": "ldap.Session.GetAllNamingContexts", "dcs": "ldap.Session.GetAllDomainControllers",
	"rodcs": "ldap.Session.GetAllReadOnlyDomainControllers", "certs": "ldap.Session.GetAllCertificates",
	"certnames": "ldap.Session.GetNamesOfAllEnabledCertificates", "certdns": "ldap.Session.GetDistinguishedNamesOfAllEnabledCertificates",
	"pdc": "ldap.Session.GetPrincipalDomainController", "computers": "objects.Domain.GetAllComputers",
	"atleast": "objects.Domain.IsDomainAtLeast", "connect": "ldap.Session.Connect",
}

func g07LdapSession(c *h.Ctx) error {
	dirs := map[string]*g07Dir{}
	var pending [][]byte
	var live *g07Live
	defer func() { live.stop() }()
	counts := map[string]int{}
	ndirs, rootReads, searches, conns := 0, 0, 0, 0

	ensure := func(id g07DirID) (*g07Live, error) {
		k := id.key()
		if live != nil && live.key == k && live.sess != nil {
			return live, nil
		}
		d := dirs[k]
		if d == nil {
			return nil, nil
		}
		if live == nil || live.key != k {
			live.stop()
			srv, err := g07NewServer(d)
			if err != nil {
				return nil, err
			}
			live = &g07Live{key: k, dir: d, srv: srv, byDN: map[string]int{}}
			for i, e := range d.Entries {
				live.byDN[string(e.Dn)] = i
			}
		}
		sess, ok, err, p, hung := g07Connect(live.srv, "", "", "")
		conns++
		if p != "" || hung || !ok || err != nil {
			return nil, fmt.Errorf("cannot connect the session to the in-process server: ok=%v err=%v panic=%q hung=%v", ok, err, p, hung)
		}
		live.sess = sess
		return live, nil
	}

	run := func(raw []byte, k *g07Rec) error {
		l, err := ensure(k.Dir)
		if err != nil {
			return err
		}
		if l == nil {
			pending = append(pending, append([]byte(nil), raw...))
			return nil
		}
		counts[k.M]++
		c.Case(k.Dir.key() + "|" + k.M + "|" + string(k.A))
		g07Call(c, l, k, &rootReads, &searches, &conns)
		return nil
	}

	err := c.Lines(func(raw []byte) error {
		var k g07Rec
		if err := json.Unmarshal(raw, &k); err != nil {
			return err
		}
		switch k.K {
		case "dir":
			var d g07Dir
			if err := json.Unmarshal(raw, &d); err != nil {
				return err
			}
			dirs[d.ID.key()] = &d
			ndirs++
			return nil
		case "call":
			return run(raw, &k)
		}
		return fmt.Errorf("unknown record kind %q", k.K)
	})
	if err != nil {
		return err
	}
	for _, raw := range pending {
		var k g07Rec
		if err := json.Unmarshal(raw, &k); err != nil {
			return err
		}
		if dirs[k.Dir.key()] == nil {
			return fmt.Errorf("call on a directory that was never emitted: %s", k.Dir.key())
		}
		if err := run(raw, &k); err != nil {
			return err
		}
	}
	c.Set("directories", ndirs)
	c.Set("calls_by_method", counts)
	c.Set("rootdse_reads_seen", rootReads)
	c.Set("searches_seen", searches)
	c.Set("connections", conns)
	return nil
}

// g07Call executes one call record on the live session and judges it.
func g07Call(c *h.Ctx, l *g07Live, k *g07Rec, rootReads, searches, conns *int) {
	site := g07Sites[k.M]
	smp := map[string]interface{}{"directory": k.Dir.key(), "method": k.M, "args": json.RawMessage(k.A)}
	drift := func(aspect, detail string) { c.Drift(site, aspect, detail, smp) }
	fail := func(aspect, detail string) { c.Fail(site, aspect, detail, smp) }
	entrySid := func(i int) string { return string(l.dir.Entries[i].Sidtxt) }

	if k.M == "connect" {
		var a struct {
			Domain, User, Password h.Bytes
			Reject                 bool
		}
		var w struct {
			Ok   bool
			Bind struct{ Name, Password h.Bytes }
		}
		if json.Unmarshal(k.A, &a) != nil || json.Unmarshal(k.Want, &w) != nil {
			drift("case-decode", "undecodable connect case")
			return
		}
		l.srv.reset(a.Reject)
		sess, ok, err, p, hung := g07Connect(l.srv, string(a.Domain), string(a.User), string(a.Password))
		*conns++
		c.Exec(1)
		_, binds := l.srv.snapshot()
		l.srv.reset(false)
		if sess != nil && ok {
			h.Guard(func() { sess.Close() })
		}
		switch {
		case p != "":
			fail("panic-on-case", "Connect: panic "+p)
		case hung:
			drift("no-return", "Connect did not return within 10 s")
		case ok != w.Ok || (err != nil) == w.Ok:
			drift("connect:result", fmt.Sprintf("spec ok=%v, code ok=%v err=%v", w.Ok, ok, err))
		case len(binds) != 1 || binds[0].Name != string(w.Bind.Name) || binds[0].Password != string(w.Bind.Password):
			drift("connect:bind", fmt.Sprintf("spec one simple bind name=%q password=%q, server saw %+v", w.Bind.Name, w.Bind.Password, binds))
		}
		return
	}

	l.srv.reset(false)
	var p string
	var hung bool
	judge := func() {} // compares the result with the specification; runs when the call returned
	call := func(fn func()) { p, hung = g07Run(l.srv, fn); c.Exec(1) }
	domainChecks := func(where string, d *objects.Domain) bool {
		// C16 clauses on what the directory returned: the SID text of the entry's binary objectSid, the DNS domain of its DN
		i, known := l.byDN[d.DistinguishedName]
		if !known {
			drift(where+":dn", fmt.Sprintf("the DistinguishedName %q is not the name of an entry of the directory", d.DistinguishedName))
			return false
		}
		ok := true
		if d.SID != entrySid(i) {
			fail(where+":sid-text", fmt.Sprintf("entry %q: binary objectSid has the text %q, the method returned %q", d.DistinguishedName, entrySid(i), d.SID))
			ok = false
		}
		if dom := string(l.dir.Entries[i].Dom); !strings.EqualFold(d.DNSName, dom) {
			fail(where+":dns-domain", fmt.Sprintf("entry %q: the DC components give %q, the method returned %q", d.DistinguishedName, dom, d.DNSName))
			ok = false
		}
		return ok
	}
	sameDomain := func(where string, d *objects.Domain, w *g07Domain) {
		if d.DistinguishedName != string(w.Dn) {
			drift(where+":which-domain", fmt.Sprintf("spec %q, code %q", w.Dn, d.DistinguishedName))
			return
		}
		if !domainChecks(where, d) {
			return
		}
		if d.DNSName != string(w.Dns) {
			drift(where+":dns-name-case", fmt.Sprintf("spec %q, code %q", w.Dns, d.DNSName))
		}
		if d.NetBIOSName != string(w.Nb) {
			drift(where+":netbios-name", fmt.Sprintf("domain %q: spec %q (nETBIOSName of its crossRef), code %q", w.Dn, w.Nb, d.NetBIOSName))
		}
	}
	hostRows := func(where string, got map[string][]string, want []g07HostRow) {
		wm := map[string]string{}
		for _, r := range want {
			wm[string(r.Dn)] = strings.Join(g07Strs(r.Hosts), "|")
		}
		gm := map[string]string{}
		for dn, hs := range got {
			gm[dn] = strings.Join(hs, "|")
		}
		if fmt.Sprint(wm) != fmt.Sprint(gm) {
			drift(where, fmt.Sprintf("spec %v, code %v", wm, gm))
		}
	}
	textList := func(where string, got []string, want []h.Bytes) {
		if strings.Join(got, "\x00") != strings.Join(g07Strs(want), "\x00") {
			drift(where, fmt.Sprintf("spec %q, code %q", g07Strs(want), got))
		}
	}

	switch k.M {
	case "findsid":
		var a struct {
			Name   h.Bytes
			Rid    int
			Branch string
		}
		var w struct {
			Err bool
			Sid h.Bytes
		}
		json.Unmarshal(k.A, &a)
		json.Unmarshal(k.Want, &w)
		var got string
		var err error
		call(func() { got, err = l.sess.FindObjectSIDByRID(string(a.Name), a.Rid) })
		judge = func() {
			seen, _ := l.srv.snapshot()
			// the last search for an objectSid and what the directory returned for it
			var last *g07Seen
			for i := range seen {
				if !seen[i].RootDSE && strings.Contains(seen[i].Key, "objectsid=") {
					last = &seen[i]
				}
			}
			if err == nil && last != nil && len(last.Returned) == 1 {
				if want := entrySid(last.Returned[0]); got != want {
					fail("sid-text:"+a.Branch, fmt.Sprintf("domain %q RID %d: the search %s returned the one entry %q whose binary objectSid has the text %q; the method returned %q",
						a.Name, a.Rid, last.Filter, l.dir.Entries[last.Returned[0]].Dn, want, got))
					return
				}
			}
			switch {
			case (err != nil) != w.Err:
				drift("error:"+a.Branch, fmt.Sprintf("domain %q RID %d: spec error=%v, code err=%v", a.Name, a.Rid, w.Err, err))
			case err == nil && got != "" && len(w.Sid) > 0 && got != string(w.Sid):
				// a SID text was reported, and it is not the text of the objectSid of the one entry this directory holds for the
				// request (nothing the directory returned in this call carries it: a value remembered from elsewhere)
				fail("sid-text:"+a.Branch+":not-this-directory's-entry", fmt.Sprintf("domain %q RID %d: the entry this directory holds has the SID text %q; the method returned %q", a.Name, a.Rid, w.Sid, got))
			case got != string(w.Sid):
				drift("result:"+a.Branch, fmt.Sprintf("domain %q RID %d: spec %q, code %q", a.Name, a.Rid, w.Sid, got))
			}
		}
	case "getdomain":
		var a struct{ Name h.Bytes }
		var w struct {
			Err bool
			Dom g07Domain
		}
		json.Unmarshal(k.A, &a)
		json.Unmarshal(k.Want, &w)
		var d *objects.Domain
		var err error
		call(func() { d, err = l.sess.GetDomain(string(a.Name)) })
		judge = func() {
			if d != nil && err == nil && !domainChecks("domain", d) {
				return
			}
			switch {
			case (err != nil || d == nil) != w.Err:
				drift("lookup", fmt.Sprintf("name %q: spec found=%v (%q), code err=%v", a.Name, !w.Err, w.Dom.Dn, err))
			case !w.Err:
				sameDomain("domain", d, &w.Dom)
			}
		}
	case "alldomains":
		var w struct {
			Err  bool
			List []g07Domain
		}
		json.Unmarshal(k.Want, &w)
		var m map[string]*objects.Domain
		var err error
		call(func() { m, err = l.sess.GetAllDomains() })
		judge = func() {
			if (err != nil) != w.Err {
				drift("error", fmt.Sprintf("spec error=%v, code err=%v", w.Err, err))
				return
			}
			okAll := true
			for _, d := range m {
				if d != nil && !domainChecks("domain", d) {
					okAll = false
				}
			}
			if !okAll {
				return
			}
			if len(m) != len(w.List) {
				drift("count", fmt.Sprintf("spec %d domains, code %d", len(w.List), len(m)))
				return
			}
			for i := range w.List {
				d := m[string(w.List[i].Dns)]
				if d == nil {
					drift("key", fmt.Sprintf("no domain under the key %q", w.List[i].Dns))
					continue
				}
				sameDomain("domain", d, &w.List[i])
			}
		}
	case "lookupsid":
		var a struct{ Sid h.Bytes }
		var w struct {
			Err  bool
			Name h.Bytes
		}
		json.Unmarshal(k.A, &a)
		json.Unmarshal(k.Want, &w)
		var got string
		var err error
		call(func() { got, err = l.sess.LookupSID(string(a.Sid)) })
		judge = func() {
			if (err != nil) != w.Err || got != string(w.Name) {
				drift("result", fmt.Sprintf("SID %q: spec name %q error=%v, code %q err=%v", a.Sid, w.Name, w.Err, got, err))
			}
		}
	case "query":
		var a struct {
			Base  h.Bytes
			Via   string
			Scope int
			F     g07Filter
			Sel   []h.Bytes
		}
		var w struct {
			Err     bool
			Entries []g07WantEntry
		}
		json.Unmarshal(k.A, &a)
		json.Unmarshal(k.Want, &w)
		site = "ldap.Session." + a.Via
		var got []*goldap.Entry
		var err error
		base, ft, sel := string(a.Base), a.F.text(), g07Strs(a.Sel)
		call(func() {
			switch a.Via {
			case "Query":
				got, err = l.sess.Query(base, ft, sel, a.Scope)
			case "QueryBaseObject":
				got, err = l.sess.QueryBaseObject(base, ft, sel)
			case "QuerySingleLevel":
				got, err = l.sess.QuerySingleLevel(base, ft, sel)
			case "QueryWholeSubtree":
				got, err = l.sess.QueryWholeSubtree(base, ft, sel)
			case "QueryChildren":
				got, err = l.sess.QueryChildren(base, ft, sel)
			case "QueryAllNamingContexts":
				got, err = l.sess.QueryAllNamingContexts(ft, sel, a.Scope)
			}
		})
		judge = func() {
			if (err != nil) != w.Err {
				drift("error", fmt.Sprintf("base %q filter %s: spec error=%v, code err=%v", base, ft, w.Err, err))
				return
			}
			render := func(dn string, attrs map[string][]string) string {
				var ks []string
				for n := range attrs {
					ks = append(ks, n)
				}
				sort.Strings(ks)
				s := dn + " {"
				for _, n := range ks {
					s += n + "=" + fmt.Sprintf("%x", attrs[n]) + ";"
				}
				return s + "}"
			}
			var ws, gs []string
			for _, e := range w.Entries {
				m := map[string][]string{}
				for _, at := range e.Attrs {
					m[string(at.N)] = g07Strs(at.V)
				}
				ws = append(ws, render(string(e.Dn), m))
			}
			for _, e := range got {
				m := map[string][]string{}
				for _, at := range e.Attributes {
					var vs []string
					for _, v := range at.ByteValues {
						vs = append(vs, string(v))
					}
					m[at.Name] = vs
				}
				gs = append(gs, render(e.DN, m))
			}
			if strings.Join(ws, "\n") != strings.Join(gs, "\n") {
				at := 0
				for at < len(ws) && at < len(gs) && ws[at] == gs[at] {
					at++
				}
				pick := func(xs []string) string {
					if at < len(xs) {
						return g07Short(xs[at])
					}
					return "(end)"
				}
				drift("entries", fmt.Sprintf("base %q scope %d filter %s: spec %d entries, code %d; first difference at #%d: spec %s code %s", base, a.Scope, ft, len(ws), len(gs), at, pick(ws), pick(gs)))
			}
		}
	case "basedn":
		var a struct{ Base h.Bytes }
		var w struct{ Exists bool }
		json.Unmarshal(k.A, &a)
		json.Unmarshal(k.Want, &w)
		var got bool
		call(func() { got = l.sess.BaseDNExists(string(a.Base)) })
		judge = func() {
			if got != w.Exists {
				drift("result", fmt.Sprintf("base %q: spec %v, code %v", a.Base, w.Exists, got))
			}
		}
	case "rootdse":
		var w struct{ Attrs []g07Attr }
		json.Unmarshal(k.Want, &w)
		var e *goldap.Entry
		var err error
		call(func() { e, err = l.sess.GetRootDSE() })
		judge = func() {
			if err != nil || e == nil {
				drift("error", fmt.Sprintf("code err=%v", err))
				return
			}
			for _, at := range w.Attrs {
				if strings.Join(e.GetAttributeValues(string(at.N)), "|") != strings.Join(g07Strs(at.V), "|") {
					drift("attribute", fmt.Sprintf("%s: spec %q, code %q", at.N, g07Strs(at.V), e.GetAttributeValues(string(at.N))))
				}
			}
		}
	case "namingcontexts":
		var w struct {
			Err  bool
			List []h.Bytes
		}
		json.Unmarshal(k.Want, &w)
		var got []string
		var err error
		call(func() { got, err = l.sess.GetAllNamingContexts() })
		judge = func() {
			if (err != nil) != w.Err {
				drift("error", fmt.Sprintf("spec error=%v, code err=%v", w.Err, err))
				return
			}
			textList("list", got, w.List)
		}
	case "dcs", "rodcs":
		var w struct {
			Err  bool
			List []g07HostRow
		}
		json.Unmarshal(k.Want, &w)
		var got map[string][]string
		var err error
		call(func() {
			if k.M == "dcs" {
				got, err = l.sess.GetAllDomainControllers()
			} else {
				got, err = l.sess.GetAllReadOnlyDomainControllers()
			}
		})
		judge = func() {
			if (err != nil) != w.Err {
				drift("error", fmt.Sprintf("spec error=%v, code err=%v", w.Err, err))
				return
			}
			hostRows("controllers", got, w.List)
		}
	case "certs", "certnames", "certdns":
		var w struct {
			Err  bool
			List []h.Bytes
		}
		json.Unmarshal(k.Want, &w)
		var got []string
		var err error
		call(func() {
			switch k.M {
			case "certs":
				got, err = l.sess.GetAllCertificates()
			case "certnames":
				got, err = l.sess.GetNamesOfAllEnabledCertificates()
			default:
				got, err = l.sess.GetDistinguishedNamesOfAllEnabledCertificates()
			}
		})
		judge = func() {
			if (err != nil) != w.Err {
				drift("error", fmt.Sprintf("spec error=%v, code err=%v", w.Err, err))
				return
			}
			textList("list", got, w.List)
		}
	case "pdc":
		var a struct{ Name h.Bytes }
		var w struct {
			Err  bool
			Host h.Bytes
		}
		json.Unmarshal(k.A, &a)
		json.Unmarshal(k.Want, &w)
		var got string
		var err error
		call(func() { got, err = l.sess.GetPrincipalDomainController(string(a.Name)) })
		judge = func() {
			if (err != nil) != w.Err || got != string(w.Host) {
				drift("host", fmt.Sprintf("domain %q: spec %q error=%v, code %q err=%v", a.Name, w.Host, w.Err, got, err))
			}
		}
	case "computers", "atleast":
		var a struct {
			Name  h.Bytes
			Level int
		}
		json.Unmarshal(k.A, &a)
		var d *objects.Domain
		var derr error
		call(func() { d, derr = l.sess.GetDomain(string(a.Name)) })
		if p != "" || hung {
			break
		}
		if derr != nil || d == nil {
			var w struct{ Err bool }
			json.Unmarshal(k.Want, &w)
			if !w.Err { // the specification knows the domain
				drift("domain", fmt.Sprintf("GetDomain(%q) failed: %v", a.Name, derr))
			}
			return
		}
		if k.M == "computers" {
			var w struct {
				Err  bool
				List []g07HostRow
			}
			json.Unmarshal(k.Want, &w)
			var got map[string]*objects.Computer
			var err error
			call(func() { got, err = d.GetAllComputers() })
			judge = func() {
				if (err != nil) != w.Err {
					drift("error", fmt.Sprintf("spec error=%v, code err=%v", w.Err, err))
					return
				}
				gm := map[string][]string{}
				for dn, cp := range got {
					if cp != nil {
						gm[dn] = cp.DNSHostname
						if cp.DistinguishedName != dn {
							drift("key", fmt.Sprintf("key %q holds the computer %q", dn, cp.DistinguishedName))
						}
					}
				}
				hostRows("computers", gm, w.List)
			}
		} else {
			var w struct{ Err, Ok bool }
			json.Unmarshal(k.Want, &w)
			var got bool
			var err error
			call(func() { got, err = d.IsDomainAtLeast(a.Level) })
			judge = func() {
				if (err != nil) != w.Err || got != w.Ok {
					drift("result", fmt.Sprintf("domain %q level %d: spec %v error=%v, code %v err=%v", a.Name, a.Level, w.Ok, w.Err, got, err))
				}
			}
		}
	default:
		drift("case-decode", "unknown method "+k.M)
		return
	}

	switch {
	case p != "":
		fail("panic-on-case", "panic: "+p)
		l.sess = nil // the connection state is unknown: the next call gets a new session
		return
	case hung:
		drift("no-return", "the call did not return within 10 s")
		l.sess = nil
		return
	}
	judge()

	// the searches the server saw below the RootDSE against the searches the specification states
	seen, _ := l.srv.snapshot()
	var obs []g07Seen
	for _, s := range seen {
		if s.RootDSE {
			*rootReads++
			continue
		}
		if s.Paged && s.Cookie != "" {
			continue // a further page of the same search
		}
		*searches++
		obs = append(obs, s)
	}
	describe := func(s *g07Seen) string {
		return fmt.Sprintf("base=%q scope=%d filter=%s attrs=%v", s.Base, s.Scope, s.Filter, s.Attrs)
	}
	oi := 0
	for qi, q := range k.Q {
		wantKey := g07FilterKey(q.F.text())
		matches := func(s *g07Seen) (bool, string) {
			switch {
			case !g07SameDN(g07ParseDN(s.Base), g07ParseDN(string(q.Base))):
				return false, "base"
			case s.Scope != q.Scope:
				return false, "scope"
			case s.Key != wantKey:
				return false, "filter"
			case q.Attrs != nil && g07SetKey(s.Attrs) != g07SetKey(g07Strs(*q.Attrs)):
				return false, "attributes"
			}
			return true, ""
		}
		if !k.Qopen {
			if oi >= len(obs) {
				drift("searches:missing", fmt.Sprintf("search #%d of the specification (base=%q scope=%d filter=%s) was not sent; the server saw %d searches", qi+1, q.Base, q.Scope, q.F.text(), len(obs)))
				return
			}
			if ok, why := matches(&obs[oi]); !ok {
				drift("searches:"+why, fmt.Sprintf("search #%d: spec base=%q scope=%d filter=%s, server saw %s", qi+1, q.Base, q.Scope, q.F.text(), describe(&obs[oi])))
				return
			}
			oi++
			continue
		}
		// open: the stated searches appear in this order among the observed ones
		found, firstWhy, firstAt := false, "", -1
		for j := oi; j < len(obs); j++ {
			ok, why := matches(&obs[j])
			if ok {
				oi, found = j+1, true
				break
			}
			if firstAt < 0 {
				firstWhy, firstAt = why, j
			}
		}
		if !found {
			if firstAt >= 0 {
				drift("searches:"+firstWhy, fmt.Sprintf("search #%d: spec base=%q scope=%d filter=%s, server saw %s", qi+1, q.Base, q.Scope, q.F.text(), describe(&obs[firstAt])))
			} else {
				drift("searches:missing", fmt.Sprintf("search #%d of the specification (base=%q scope=%d filter=%s) was not sent", qi+1, q.Base, q.Scope, q.F.text()))
			}
			return
		}
	}
	if !k.Qopen && oi < len(obs) {
		drift("searches:extra", fmt.Sprintf("the specification states %d searches, the server saw %d; first extra: %s", len(k.Q), len(obs), describe(&obs[oi])))
	}
}
