package drivers

// C06: the SMB wire data types bound to spec/SMBTypes.tla (+ Wire.tla, C06Cases.tla, TraceSMBTypes.tla).
//
//   c06.types   model -> code: every case TLC enumerates (all 65 536 date words, all 65 536 pipe-status
//               words, boundary-length strings / blocks, fixed layouts, directory entries) is built as a
//               real value, marshalled, and unmarshalled from  bytes || suffix  for every suffix the
//               specification lists.  P: no error, n == len(bytes), equal fields.  D: bytes == spec layout.
//   c06.record  code -> model: random full-range values; one ndjson event per value with the real
//               Marshal bytes and the real Unmarshal results (without and with a random suffix);
//               TLC (TraceSMBTypes.tla) judges every event against the specification's codec.

import (
	"bytes"
	"encoding/json"
	"fmt"
	"hash/fnv"
	"math/rand"
	"reflect"
	"strings"

	"github.com/TheManticoreProject/Manticore/network/smb/smb_v10/message/commands/andx"
	"github.com/TheManticoreProject/Manticore/network/smb/smb_v10/message/commands/codes"
	"github.com/TheManticoreProject/Manticore/network/smb/smb_v10/message/data"
	"github.com/TheManticoreProject/Manticore/network/smb/smb_v10/message/parameters"
	"github.com/TheManticoreProject/Manticore/network/smb/smb_v10/spnego/ntlm/version"
	"github.com/TheManticoreProject/Manticore/network/smb/smb_v10/types"
	"github.com/TheManticoreProject/Manticore/windows/ms_dtyp/common/data_structures"
	"verif/harness/h"
)

func init() {
	h.Register("c06.types", c06Types)
	h.Register("c06.record", c06Record)
}

// ---------------------------------------------------------------- vocabulary shared with the specification

// w32 travels as the specification's Word32: [hi16, lo16].
type w32 uint32

func (w *w32) UnmarshalJSON(b []byte) error {
	var a [2]uint32
	if err := json.Unmarshal(b, &a); err != nil {
		return err
	}
	if a[0] > 0xFFFF || a[1] > 0xFFFF {
		return fmt.Errorf("word32 half out of range: %v", a)
	}
	*w = w32(a[0]<<16 | a[1])
	return nil
}
func (w w32) MarshalJSON() ([]byte, error) {
	return json.Marshal([2]uint32{uint32(w) >> 16, uint32(w) & 0xFFFF})
}

// The X* structs are the field values of a wire type in the specification's vocabulary (json tags =
// the field names of SMBTypes.tla; Go names = the library's field names, used in aspect strings).
type xStr struct {
	BufferFormat int     `json:"fmt"`
	Buffer       h.Bytes `json:"buf"`
}
type xOem struct {
	Buffer h.Bytes `json:"buf"`
}
type xDate struct {
	Year  int `json:"year"`
	Month int `json:"month"`
	Day   int `json:"day"`
}
type xFiletime struct {
	DwLowDateTime  w32 `json:"lo"`
	DwHighDateTime w32 `json:"hi"`
}
type xRange32 struct {
	PID           int `json:"pid"`
	ByteOffset    w32 `json:"off"`
	LengthInBytes w32 `json:"len"`
}
type xRange64 struct {
	PID               int `json:"pid"`
	Pad               int `json:"pad"`
	ByteOffsetHigh    w32 `json:"offhi"`
	ByteOffsetLow     w32 `json:"offlo"`
	LengthInBytesHigh w32 `json:"lenhi"`
	LengthInBytesLow  w32 `json:"lenlo"`
}
type xPipe struct {
	ICount int `json:"icount"`
	Flags  int `json:"flags"`
}
type xResumeKey struct {
	Reserved    int     `json:"reserved"`
	ServerState h.Bytes `json:"server"`
	ClientState h.Bytes `json:"client"`
}
type xDirInfo struct {
	ResumeKey      xResumeKey `json:"rk"`
	FileAttributes int        `json:"attr"`
	LastWriteTime  xFiletime  `json:"time"`
	LastWriteDate  xDate      `json:"date"`
	FileSize       w32        `json:"size"`
	FileName       h.Bytes    `json:"name"`
}
type xAttr struct {
	Attributes int `json:"attr"`
}
type xAndX struct {
	AndXCommand  int `json:"cmd"`
	AndXReserved int `json:"reserved"`
	AndXOffset   int `json:"offset"`
}
type xParams struct {
	Words []int `json:"words"`
}
type xData struct {
	Bytes h.Bytes `json:"bytes"`
}
type xVersion struct {
	ProductMajorVersion int     `json:"major"`
	ProductMinorVersion int     `json:"minor"`
	ProductBuild        int     `json:"build"`
	Reserved            h.Bytes `json:"reserved"`
	NTLMRevision        int     `json:"rev"`
}

type c06Obj interface {
	Marshal() ([]byte, error)
	Unmarshal([]byte) (int, error)
}

// one way of building a value through the public API
type c06Route struct {
	name string // "" = the plain route
	site string // site blamed when Marshal fails on this route ("" = <type>.Marshal)
	obj  c06Obj
	// guard: a caller-owned buffer handed to the object as a sub-slice with spare capacity (h.Guarded); nil when the route has none
	guard []byte
}

type c06Codec struct {
	site   string
	parse  func(json.RawMessage) (interface{}, error)
	routes func(x interface{}) []c06Route
	fresh  func() c06Obj
	proj   func(c06Obj) interface{}
	random func(*rand.Rand) interface{}
	reused c06Obj // one receiver kept across cases: decoding into an object that already holds a value
}

func c06Def[X any](site string, routes func(*X) []c06Route, fresh func() c06Obj, proj func(c06Obj) *X, random func(*rand.Rand) *X) *c06Codec {
	return &c06Codec{
		site: site,
		parse: func(raw json.RawMessage) (interface{}, error) {
			var x X
			dec := json.NewDecoder(bytes.NewReader(raw))
			dec.DisallowUnknownFields()
			if err := dec.Decode(&x); err != nil {
				return nil, err
			}
			return &x, nil
		},
		routes: func(x interface{}) []c06Route { return routes(x.(*X)) },
		fresh:  fresh,
		proj:   func(o c06Obj) interface{} { return proj(o) },
		random: func(r *rand.Rand) interface{} { return random(r) },
	}
}

func one(o c06Obj) []c06Route { return []c06Route{{obj: o}} }

// c06AndXWords encodes an AndX block through GetParameters.
type c06AndXWords struct{ a *andx.AndX }

func (w *c06AndXWords) Marshal() ([]byte, error) {
	var out []byte
	for _, word := range w.a.GetParameters() {
		out = append(out, byte(word>>8), byte(word))
	}
	return out, nil
}
func (w *c06AndXWords) Unmarshal(b []byte) (int, error) { return w.a.Unmarshal(b) }

// c06Rejects stands for a value the library refused to build although it is inside the type's domain: its Marshal reports that.
type c06Rejects struct{ why string }

func (r *c06Rejects) Marshal() ([]byte, error)      { return nil, fmt.Errorf("%s", r.why) }
func (r *c06Rejects) Unmarshal([]byte) (int, error) { return 0, fmt.Errorf("%s", r.why) }

func arr16(b []byte) (a [16]byte) { copy(a[:], b); return }
func arr4(b []byte) (a [4]byte)   { copy(a[:], b); return }
func arr3(b []byte) (a [3]byte)   { copy(a[:], b); return }

func rndBytes(r *rand.Rand, n int, nonNul bool) h.Bytes {
	b := make([]byte, n)
	for i := range b {
		if nonNul {
			b[i] = byte(1 + r.Intn(255))
		} else {
			b[i] = byte(r.Intn(256))
		}
	}
	return b
}
func rndLen(r *rand.Rand) int {
	return []int{0, 1, 2, 3, 12, 13, 63, 254, 255, 256, 257, r.Intn(40), r.Intn(40), r.Intn(600)}[r.Intn(14)]
}
func rnd16(r *rand.Rand) int { return []int{0, 1, 255, 256, 0x7FFF, 0x8000, 0xFFFF, r.Intn(65536), r.Intn(65536)}[r.Intn(9)] }
func rnd8(r *rand.Rand) int  { return []int{0, 1, 127, 128, 255, r.Intn(256), r.Intn(256)}[r.Intn(7)] }
func rnd32(r *rand.Rand) w32 {
	return []w32{0, 1, 0xFFFF, 0x10000, 0x7FFFFFFF, 0x80000000, 0xFFFFFFFF, w32(r.Uint32()), w32(r.Uint32()), w32(r.Uint32())}[r.Intn(10)]
}
func rndDate(r *rand.Rand) xDate { return xDate{1980 + r.Intn(128), r.Intn(16), r.Intn(32)} }
func rndRK(r *rand.Rand) xResumeKey {
	return xResumeKey{rnd8(r), rndBytes(r, 16, false), rndBytes(r, 4, false)}
}
func rndName(r *rand.Rand) h.Bytes {
	n := r.Intn(13)
	b := rndBytes(r, n, true)
	for i := range b {
		if r.Intn(3) > 0 {
			b[i] = "ABCDEFGHIJKLMNOPQRSTUVWXYZ0123456789._~ "[r.Intn(40)]
		}
	}
	for len(b) > 0 && b[len(b)-1] == ' ' {
		b = b[:len(b)-1]
	}
	return b
}

func rkOf(k *types.SMB_RESUME_KEY) xResumeKey {
	return xResumeKey{int(k.Reserved), h.Bytes(k.ServerState[:]), h.Bytes(k.ClientState[:])}
}
func dateOf(d *types.SMB_DATE) xDate { return xDate{int(d.Year), int(d.Month), int(d.Day)} }
func ftOf(f *data_structures.FILETIME) xFiletime {
	return xFiletime{w32(f.DwLowDateTime), w32(f.DwHighDateTime)}
}
func mkRK(x xResumeKey) *types.SMB_RESUME_KEY {
	k := types.NewSMB_RESUME_KEY()
	k.Reserved = types.UCHAR(x.Reserved)
	k.ServerState = arr16(x.ServerState)
	k.ClientState = arr4(x.ClientState)
	return k
}

var c06Codecs = map[string]*c06Codec{
	"str": c06Def("types.SMB_STRING",
		func(x *xStr) []c06Route {
			s := types.NewSMB_STRING(append([]byte{}, x.Buffer...))
			s.SetBufferFormat(types.UCHAR(x.BufferFormat))
			g := h.Guarded(x.Buffer)
			s2 := types.NewSMB_STRING(g)
			s2.SetBufferFormat(types.UCHAR(x.BufferFormat))
			s3 := &types.SMB_STRING{}
			s3.SetBufferFormat(types.UCHAR(x.BufferFormat))
			if err := s3.SetString(string(x.Buffer)); err != nil { // every in-domain length (0..65535) can be set
				s3 = nil
			}
			rts := []c06Route{{obj: s}, {name: "buffer-with-spare-capacity", obj: s2, guard: g}}
			if s3 != nil {
				rts = append(rts, c06Route{name: "SetString", obj: s3})
			} else {
				rts = append(rts, c06Route{name: "SetString-rejected", site: "types.SMB_STRING.SetString", obj: &c06Rejects{"SetString refused an in-domain string"}})
			}
			return rts
		},
		func() c06Obj { return &types.SMB_STRING{} },
		func(o c06Obj) *xStr { s := o.(*types.SMB_STRING); return &xStr{int(s.BufferFormat), h.Bytes(s.Buffer)} },
		func(r *rand.Rand) *xStr {
			f := 1 + r.Intn(5)
			return &xStr{f, rndBytes(r, rndLen(r), f >= 2 && f <= 4)}
		}),
	"oem": c06Def("types.OEM_STRING",
		func(x *xOem) []c06Route {
			a := types.NewOEM_STRINGFromString(string(x.Buffer))
			b := types.NewOEM_STRING()
			b.SetString(string(x.Buffer))
			g := h.Guarded(x.Buffer)
			d := types.NewOEM_STRING()
			d.Buffer = g
			d.Length = types.USHORT(len(g))
			return []c06Route{{obj: a}, {name: "SetString", obj: b}, {name: "buffer-with-spare-capacity", obj: d, guard: g}}
		},
		func() c06Obj { return &types.OEM_STRING{} },
		func(o c06Obj) *xOem { return &xOem{h.Bytes(o.(*types.OEM_STRING).Buffer)} },
		func(r *rand.Rand) *xOem { return &xOem{rndBytes(r, rndLen(r), true)} }),
	"date": c06Def("types.SMB_DATE",
		func(x *xDate) []c06Route {
			return []c06Route{{obj: &types.SMB_DATE{Year: uint16(x.Year), Month: uint8(x.Month), Day: uint8(x.Day)}},
				{name: "NewSMB_DATEFromDate", obj: types.NewSMB_DATEFromDate(x.Year, x.Month, x.Day)}}
		},
		func() c06Obj { return types.NewSMB_DATE() },
		func(o c06Obj) *xDate { d := dateOf(o.(*types.SMB_DATE)); return &d },
		func(r *rand.Rand) *xDate { d := rndDate(r); return &d }),
	"filetime": c06Def("data_structures.FILETIME",
		func(x *xFiletime) []c06Route {
			return one(&data_structures.FILETIME{DwLowDateTime: uint32(x.DwLowDateTime), DwHighDateTime: uint32(x.DwHighDateTime)})
		},
		func() c06Obj { return &data_structures.FILETIME{} },
		func(o c06Obj) *xFiletime { f := ftOf(o.(*data_structures.FILETIME)); return &f },
		func(r *rand.Rand) *xFiletime { return &xFiletime{rnd32(r), rnd32(r)} }),
	"range32": c06Def("types.LOCKING_ANDX_RANGE32",
		func(x *xRange32) []c06Route {
			return one(&types.LOCKING_ANDX_RANGE32{PID: types.USHORT(x.PID), ByteOffset: types.ULONG(x.ByteOffset), LengthInBytes: types.ULONG(x.LengthInBytes)})
		},
		func() c06Obj { return &types.LOCKING_ANDX_RANGE32{} },
		func(o c06Obj) *xRange32 {
			l := o.(*types.LOCKING_ANDX_RANGE32)
			return &xRange32{int(l.PID), w32(l.ByteOffset), w32(l.LengthInBytes)}
		},
		func(r *rand.Rand) *xRange32 { return &xRange32{rnd16(r), rnd32(r), rnd32(r)} }),
	"range64": c06Def("types.LOCKING_ANDX_RANGE64",
		func(x *xRange64) []c06Route {
			return one(&types.LOCKING_ANDX_RANGE64{PID: types.USHORT(x.PID), Pad: types.USHORT(x.Pad),
				ByteOffsetHigh: types.ULONG(x.ByteOffsetHigh), ByteOffsetLow: types.ULONG(x.ByteOffsetLow),
				LengthInBytesHigh: types.ULONG(x.LengthInBytesHigh), LengthInBytesLow: types.ULONG(x.LengthInBytesLow)})
		},
		func() c06Obj { return &types.LOCKING_ANDX_RANGE64{} },
		func(o c06Obj) *xRange64 {
			l := o.(*types.LOCKING_ANDX_RANGE64)
			return &xRange64{int(l.PID), int(l.Pad), w32(l.ByteOffsetHigh), w32(l.ByteOffsetLow), w32(l.LengthInBytesHigh), w32(l.LengthInBytesLow)}
		},
		func(r *rand.Rand) *xRange64 {
			return &xRange64{rnd16(r), rnd16(r), rnd32(r), rnd32(r), rnd32(r), rnd32(r)}
		}),
	"pipe": c06Def("types.SMB_NMPIPE_STATUS",
		func(x *xPipe) []c06Route {
			b := &types.SMB_NMPIPE_STATUS{Flags: uint8(x.Flags)}
			b.SetICount(uint8(x.ICount))
			return []c06Route{{obj: &types.SMB_NMPIPE_STATUS{ICount: uint8(x.ICount), Flags: uint8(x.Flags)}}, {name: "SetICount", obj: b}}
		},
		func() c06Obj { return &types.SMB_NMPIPE_STATUS{} },
		func(o c06Obj) *xPipe { s := o.(*types.SMB_NMPIPE_STATUS); return &xPipe{int(s.ICount), int(s.Flags)} },
		func(r *rand.Rand) *xPipe { return &xPipe{rnd8(r), rnd8(r)} }),
	"resumekey": c06Def("types.SMB_RESUME_KEY",
		func(x *xResumeKey) []c06Route {
			lit := &types.SMB_RESUME_KEY{Reserved: types.UCHAR(x.Reserved), ServerState: arr16(x.ServerState), ClientState: arr4(x.ClientState)}
			return []c06Route{{obj: mkRK(*x)}, {name: "literal", obj: lit}}
		},
		func() c06Obj { return &types.SMB_RESUME_KEY{} },
		func(o c06Obj) *xResumeKey { k := rkOf(o.(*types.SMB_RESUME_KEY)); return &k },
		func(r *rand.Rand) *xResumeKey { k := rndRK(r); return &k }),
	"dirinfo": c06Def("types.SMB_DIRECTORY_INFORMATION",
		func(x *xDirInfo) []c06Route {
			d := types.NewSMB_DIRECTORY_INFORMATION()
			d.ResumeKey = *mkRK(x.ResumeKey)
			d.FileAttributes = types.UCHAR(x.FileAttributes)
			d.LastWriteTime = types.SMB_TIME{DwLowDateTime: uint32(x.LastWriteTime.DwLowDateTime), DwHighDateTime: uint32(x.LastWriteTime.DwHighDateTime)}
			d.LastWriteDate = types.SMB_DATE{Year: uint16(x.LastWriteDate.Year), Month: uint8(x.LastWriteDate.Month), Day: uint8(x.LastWriteDate.Day)}
			d.FileSize = types.ULONG(x.FileSize)
			d.FileName = *types.NewOEM_STRINGFromString(string(x.FileName))
			return one(d)
		},
		func() c06Obj { return types.NewSMB_DIRECTORY_INFORMATION() },
		func(o c06Obj) *xDirInfo {
			d := o.(*types.SMB_DIRECTORY_INFORMATION)
			// file names are equal modulo the space padding of the 12-byte field (property statement)
			name := bytes.TrimRight([]byte(d.FileName.GetString()), " ")
			return &xDirInfo{rkOf(&d.ResumeKey), int(d.FileAttributes), ftOf(&d.LastWriteTime), dateOf(&d.LastWriteDate), w32(d.FileSize), h.Bytes(name)}
		},
		func(r *rand.Rand) *xDirInfo {
			return &xDirInfo{rndRK(r), rnd8(r), xFiletime{rnd32(r), rnd32(r)}, rndDate(r), rnd32(r), rndName(r)}
		}),
	"attr": c06Def("types.SMB_FILE_ATTRIBUTES",
		func(x *xAttr) []c06Route {
			b := &types.SMB_FILE_ATTRIBUTES{}
			b.SetAttributes(uint16(x.Attributes))
			return []c06Route{{obj: &types.SMB_FILE_ATTRIBUTES{Attributes: uint16(x.Attributes)}}, {name: "SetAttributes", obj: b}}
		},
		func() c06Obj { return &types.SMB_FILE_ATTRIBUTES{} },
		func(o c06Obj) *xAttr { return &xAttr{int(o.(*types.SMB_FILE_ATTRIBUTES).Attributes)} },
		func(r *rand.Rand) *xAttr { return &xAttr{rnd16(r)} }),
	"andx": c06Def("andx.AndX",
		func(x *xAndX) []c06Route {
			a := andx.NewAndX()
			a.AndXCommand, a.AndXReserved, a.AndXOffset = codes.CommandCode(x.AndXCommand), uint8(x.AndXReserved), uint16(x.AndXOffset)
			// the block's second encoder: the two parameter words every AndX command puts on the wire (GetParameters), in
			// the byte order of the parameter block (parameters.Parameters.Marshal writes each word high byte first)
			return []c06Route{{obj: a}, {name: "GetParameters", site: "andx.AndX.GetParameters", obj: &c06AndXWords{a}}}
		},
		func() c06Obj { return andx.NewAndX() },
		func(o c06Obj) *xAndX {
			a := o.(*andx.AndX)
			return &xAndX{int(a.AndXCommand), int(a.AndXReserved), int(a.AndXOffset)}
		},
		func(r *rand.Rand) *xAndX { return &xAndX{rnd8(r), rnd8(r), rnd16(r)} }),
	"params": c06Def("parameters.Parameters",
		func(x *xParams) []c06Route {
			ws := make([]uint16, len(x.Words))
			stream := []byte{}
			viaAdd := parameters.NewParameters()
			for i, w := range x.Words {
				ws[i] = uint16(w)
				stream = append(stream, byte(w>>8), byte(w)) // the library's documented pairing of a byte stream into words
				viaAdd.AddWord(uint16(w))
			}
			viaStream := parameters.NewParameters()
			viaStream.AddWordsFromBytesStream(stream)
			return []c06Route{{obj: &parameters.Parameters{WordCount: uint8(len(ws)), Words: ws}},
				{name: "AddWordsFromBytesStream", site: "parameters.Parameters.AddWordsFromBytesStream", obj: viaStream},
				{name: "AddWord", site: "parameters.Parameters.AddWord", obj: viaAdd}}
		},
		func() c06Obj { return parameters.NewParameters() },
		func(o c06Obj) *xParams {
			p := o.(*parameters.Parameters)
			ws := make([]int, len(p.Words))
			for i, w := range p.Words {
				ws[i] = int(w)
			}
			return &xParams{ws}
		},
		func(r *rand.Rand) *xParams {
			n := []int{0, 1, 2, 3, 17, 127, 128, 255, r.Intn(20), r.Intn(20)}[r.Intn(10)]
			ws := make([]int, n)
			for i := range ws {
				ws[i] = rnd16(r)
			}
			return &xParams{ws}
		}),
	"data": c06Def("data.Data",
		func(x *xData) []c06Route {
			a := data.NewData()
			a.SetData(append([]byte{}, x.Bytes...))
			b := data.NewData()
			b.Add(x.Bytes)
			return []c06Route{{obj: a}, {name: "Add", site: "data.Data.Add", obj: b}}
		},
		func() c06Obj { return data.NewData() },
		func(o c06Obj) *xData { return &xData{h.Bytes(o.(*data.Data).Bytes)} },
		func(r *rand.Rand) *xData { return &xData{rndBytes(r, rndLen(r), false)} }),
	"version": c06Def("version.Version",
		func(x *xVersion) []c06Route {
			return one(&version.Version{ProductMajorVersion: byte(x.ProductMajorVersion), ProductMinorVersion: byte(x.ProductMinorVersion),
				ProductBuild: uint16(x.ProductBuild), Reserved: arr3(x.Reserved), NTLMRevision: byte(x.NTLMRevision)})
		},
		func() c06Obj { return &version.Version{} },
		func(o c06Obj) *xVersion {
			v := o.(*version.Version)
			return &xVersion{int(v.ProductMajorVersion), int(v.ProductMinorVersion), int(v.ProductBuild), h.Bytes(v.Reserved[:]), int(v.NTLMRevision)}
		},
		func(r *rand.Rand) *xVersion {
			return &xVersion{rnd8(r), rnd8(r), rnd16(r), rndBytes(r, 3, false), rnd8(r)}
		}),
}

// c06Diff lists the fields (dotted path, library names) in which two X values differ.
func c06Diff(a, b reflect.Value, prefix string) []string {
	var out []string
	switch a.Kind() {
	case reflect.Ptr:
		return c06Diff(a.Elem(), b.Elem(), prefix)
	case reflect.Struct:
		for i := 0; i < a.NumField(); i++ {
			p := a.Type().Field(i).Name
			if prefix != "" {
				p = prefix + "." + p
			}
			out = append(out, c06Diff(a.Field(i), b.Field(i), p)...)
		}
	case reflect.Slice:
		if a.Len() != b.Len() {
			return []string{prefix}
		}
		for i := 0; i < a.Len(); i++ {
			if !reflect.DeepEqual(a.Index(i).Interface(), b.Index(i).Interface()) {
				return []string{prefix}
			}
		}
	default:
		if !reflect.DeepEqual(a.Interface(), b.Interface()) {
			out = append(out, prefix)
		}
	}
	return out
}

type c06Outcome struct {
	N     int         `json:"n"`
	Err   bool        `json:"err"`
	Panic bool        `json:"panic"`
	DV    interface{} `json:"dv"`
	msg   string
}

// c06Decode runs the real Unmarshal of a fresh value on a private copy of buf.
func c06Decode(cd *c06Codec, buf []byte) c06Outcome {
	in := append([]byte{}, buf...)
	o := cd.fresh()
	var out c06Outcome
	var err error
	if p := h.Guard(func() { out.N, err = o.Unmarshal(in) }); p != "" {
		out.Panic, out.msg = true, p
	} else if err != nil {
		out.Err, out.msg = true, err.Error()
	}
	out.DV = cd.proj(o)
	return out
}

type c06Line struct {
	K    string          `json:"k"`
	T    string          `json:"t"`
	W    int             `json:"w"`
	V    json.RawMessage `json:"v"`
	Enc  h.Bytes         `json:"enc"`
	Std  h.Bytes         `json:"std"`
	StdN int             `json:"stdn"`
	Law  bool            `json:"law"`
	Sufs []h.Bytes       `json:"sufs"`
	X    struct {
		ReadMode    int  `json:"readmode"`
		NonBlocking bool `json:"nonblocking"`
	} `json:"x"`
}

func c06SampleOf(t string, v json.RawMessage, b []byte, suf []byte) map[string]interface{} {
	s := map[string]interface{}{"type": t, "suffix_hex": h.Hex(suf)}
	if len(v) <= 1500 {
		s["value"] = v
	} else {
		s["value"] = fmt.Sprintf("(%d bytes of JSON; encoding of %d bytes)", len(v), len(b))
	}
	if len(b) <= 200 {
		s["marshalled_hex"] = h.Hex(b)
	} else {
		s["marshalled_hex"] = h.Hex(b[:64]) + "..."
		s["marshalled_len"] = len(b)
	}
	return s
}

func c06Types(c *h.Ctx) error {
	var sufs [][]byte
	var lines []c06Line
	err := c.Lines(func(raw []byte) error {
		var ln c06Line
		if err := json.Unmarshal(raw, &ln); err != nil {
			return err
		}
		if ln.K == "hdr" {
			for _, s := range ln.Sufs {
				sufs = append(sufs, s)
			}
			return nil
		}
		if !ln.Law {
			return fmt.Errorf("specification-level failure: round-trip law false in SMBTypes for %s %s", ln.T, string(ln.V)[:min(len(ln.V), 200)])
		}
		lines = append(lines, ln)
		return nil
	})
	if err != nil {
		return err
	}
	if len(sufs) == 0 || len(sufs[0]) != 0 {
		return fmt.Errorf("no suffix header (or first suffix not empty)")
	}
	perType := map[string]int{}
	words := map[string]int{}
	drifts := map[string]int{}
	for _, ln := range lines {
		cd := c06Codecs[ln.T]
		if cd == nil {
			return fmt.Errorf("unknown type %q", ln.T)
		}
		x, err := cd.parse(ln.V)
		if err != nil {
			return fmt.Errorf("type %s: %v", ln.T, err)
		}
		hs := fnv.New64a()
		hs.Write(ln.V)
		c.Case(fmt.Sprintf("%s:%x", ln.T, hs.Sum64()))
		perType[ln.T]++
		if ln.K == "w" {
			words[ln.T]++
		}
		if perType[ln.T] == 2 && len(ln.V) < 300 {
			c.Sample(map[string]interface{}{"type": ln.T, "value": ln.V, "spec_encoding_hex": h.Hex(ln.Enc)})
		}
		for _, rt := range cd.routes(x) {
			msite := cd.site + ".Marshal"
			if rt.site != "" {
				msite = rt.site
			}
			var b []byte
			var merr error
			if p := h.Guard(func() { b, merr = rt.obj.Marshal() }); p != "" {
				c.Fail(msite, "marshal-panic", p, c06SampleOf(ln.T, ln.V, nil, nil))
				continue
			}
			c.Exec(1)
			c.Retain(msite, b, map[string]interface{}{"type": ln.T})
			if rt.guard != nil && !h.GuardIntact(rt.guard) {
				c.Fail(msite, "writes-behind-its-argument", "Marshal wrote into the spare capacity of the caller's buffer (the bytes behind the string in the caller's array changed)", c06SampleOf(ln.T, ln.V, nil, nil))
			}
			if merr != nil {
				c.Fail(msite, "marshal-error", fmt.Sprintf("in-domain value cannot be encoded (route %q): %v", rt.name, merr), c06SampleOf(ln.T, ln.V, nil, nil))
				continue
			}
			// D: byte layout (property C05's business; never a C06 violation)
			doc := []byte(ln.Enc)
			if len(ln.Std) > 0 {
				doc = ln.Std
			}
			docOK := bytes.Equal(b, doc)
			if ln.T == "dirinfo" {
				docOK = len(b) == ln.StdN
			}
			if !docOK {
				dk := "layout:library-deviation"
				if !bytes.Equal(b, ln.Enc) {
					dk = "layout:unknown"
				}
				drifts[cd.site+".Marshal "+dk]++
				if drifts[cd.site+".Marshal "+dk] > 1 {
					// counted, reported once
				} else if bytes.Equal(b, ln.Enc) {
					c.Drift(cd.site+".Marshal", "layout:library-deviation", fmt.Sprintf("encoding is the library's named deviation, not the document layout (%d bytes vs %d)", len(b), ln.StdN), c06SampleOf(ln.T, ln.V, b, nil))
				} else {
					c.Drift(cd.site+".Marshal", "layout:unknown", fmt.Sprintf("encoding %s differs from both layouts of the specification (%s)", h.Hex(b[:min(len(b), 40)]), h.Hex(ln.Enc[:min(len(ln.Enc), 40)])), c06SampleOf(ln.T, ln.V, b, nil))
				}
			}
			// the same encoding delivered in a buffer that held the previous encoding of this length (reused caller buffer)
			if len(b) <= 4096 {
				c.ReusedInput(cd.site+".Unmarshal", b, func(in []byte) string {
					o := cd.fresh()
					var n int
					var err error
					if p := h.Guard(func() { n, err = o.Unmarshal(in) }); p != "" || err != nil {
						return fmt.Sprintf("error %v %s", err, p)
					}
					j, _ := json.Marshal(cd.proj(o))
					return fmt.Sprintf("%d %s", n, j)
				}, map[string]interface{}{"type": ln.T})
			}
			// P: Unmarshal(bytes || suffix) = (fields, len(bytes)) for every suffix
			base := map[string]bool{}
			for si, suf := range sufs {
				out := c06Decode(cd, append(append([]byte{}, b...), suf...))
				c.Exec(1)
				var kinds []string
				var details []string
				switch {
				case out.Panic:
					kinds, details = []string{"panic"}, []string{out.msg}
				case out.Err:
					kinds, details = []string{"unmarshal-error"}, []string{"own encoding rejected: " + out.msg}
				default:
					if out.N != len(b) {
						kinds = append(kinds, "consumed")
						details = append(details, fmt.Sprintf("reported %d bytes, encoding occupies %d", out.N, len(b)))
					}
					seen := map[string]bool{}
					for _, f := range c06Diff(reflect.ValueOf(x), reflect.ValueOf(out.DV), "") {
						f = strings.SplitN(f, ".", 2)[0] // top-level wire field, as the trace judgement names it
						if seen[f] {
							continue
						}
						seen[f] = true
						kinds = append(kinds, "roundtrip:"+f)
						xj, _ := json.Marshal(out.DV)
						details = append(details, fmt.Sprintf("field %s decoded differently: %s", f, string(xj[:min(len(xj), 300)])))
					}
				}
				for i, k := range kinds {
					asp := k
					if si == 0 {
						base[k] = true
					} else if !base[k] {
						asp = "suffix:" + k
					}
					if xs, ok := x.(*xStr); ok {
						asp += fmt.Sprintf(":fmt=0x%02x", xs.BufferFormat) // the five formats are five code paths
					}
					d := details[i]
					if rt.name != "" {
						d += " (built via " + rt.name + ")"
					}
					c.Fail(cd.site+".Unmarshal", asp, fmt.Sprintf("%s; suffix %s", d, h.Hex(suf)), c06SampleOf(ln.T, ln.V, b, suf))
				}
			}
			// P (history): decoding into a receiver that already holds the value of the PREVIOUS case must give the same
			// fields and consumed count as decoding into a fresh one (only judged where the fresh decode was right)
			if len(base) == 0 && ln.K != "w" {
				if cd.reused == nil {
					cd.reused = cd.fresh()
				}
				// first the truncated prefixes of this very encoding (they announce the same lengths and are rejected or survived),
				// then the full encoding: what a failed call leaves in the receiver must not change the next, valid call
				for _, cut := range h.Cuts(len(b)) {
					h.Guard(func() { cd.reused.Unmarshal(append([]byte{}, b[:cut]...)) })
				}
				in := append([]byte{}, b...)
				var n int
				var uerr error
				if p := h.Guard(func() { n, uerr = cd.reused.Unmarshal(in) }); p != "" || uerr != nil {
					c.Fail(cd.site+".Unmarshal", "reused-receiver:error", fmt.Sprintf("decoding into a receiver that held the previous value failed (%s %v) although a fresh receiver decodes it", p, uerr), c06SampleOf(ln.T, ln.V, b, nil))
					cd.reused = cd.fresh()
				} else {
					c.Exec(1)
					if n != len(b) {
						c.Fail(cd.site+".Unmarshal", "reused-receiver:consumed", fmt.Sprintf("reported %d bytes, encoding occupies %d", n, len(b)), c06SampleOf(ln.T, ln.V, b, nil))
					}
					if fs := c06Diff(reflect.ValueOf(x), reflect.ValueOf(cd.proj(cd.reused)), ""); len(fs) > 0 {
						xj, _ := json.Marshal(cd.proj(cd.reused))
						c.Fail(cd.site+".Unmarshal", "reused-receiver:roundtrip", fmt.Sprintf("fields %v differ when decoding into a receiver that held the previous value: %s", fs, string(xj[:min(len(xj), 200)])), c06SampleOf(ln.T, ln.V, b, nil))
					}
				}
			}
			// D: the named sub-fields of the pipe status word
			if ln.K == "w" && ln.T == "pipe" {
				s := rt.obj.(*types.SMB_NMPIPE_STATUS)
				if int(s.GetReadMode()) != ln.X.ReadMode || s.IsNonBlocking() != ln.X.NonBlocking {
					c.Drift(cd.site+".GetReadMode", "accessor", fmt.Sprintf("word %#04x: read mode %d nonblocking %v, spec %d %v", ln.W, s.GetReadMode(), s.IsNonBlocking(), ln.X.ReadMode, ln.X.NonBlocking), nil)
				}
			}
		}
	}
	c.Set("values_per_type", perType)
	c.Set("exhaustive_words", words)
	c.Set("suffixes", len(sufs))
	c.Set("layout_drift_counts", drifts)
	return nil
}

// c06Record: random full-range values of every type; for each, the real Marshal bytes and the real
// Unmarshal outcome without and with a random suffix.  TLC judges (TraceSMBTypes.tla).
func c06Record(c *h.Ctx) error {
	n := c.OptInt("events", 1500)
	rng := rand.New(rand.NewSource(int64(c.OptInt("seed", 1))))
	names := []string{"str", "oem", "date", "filetime", "range32", "range64", "pipe", "resumekey", "dirinfo", "attr", "andx", "params", "data", "version"}
	only := c.Opt("only", "")
	for i := 0; i < n; i++ {
		t := names[i%len(names)]
		if only != "" && !strings.Contains(","+only+",", ","+t+",") {
			continue
		}
		cd := c06Codecs[t]
		x := cd.random(rng)
		rts := cd.routes(x)
		rt := rts[0]
		if t == "params" {
			rt = rts[1] // the route the command structures use; AddWord is covered by the case table
		}
		ev := map[string]interface{}{"t": t, "v": x, "merr": false, "enc": h.Bytes{}, "suf": h.Bytes{}, "r0": c06Outcome{DV: x}, "r1": c06Outcome{DV: x}}
		var b []byte
		var merr error
		if p := h.Guard(func() { b, merr = rt.obj.Marshal() }); p != "" || merr != nil {
			ev["merr"] = true
		} else {
			suf := rndBytes(rng, 1+rng.Intn(9), false)
			if rng.Intn(4) == 0 {
				suf[0] = 0
			}
			ev["enc"], ev["suf"] = h.Bytes(b), suf
			ev["r0"] = c06Decode(cd, b)
			ev["r1"] = c06Decode(cd, append(append([]byte{}, b...), suf...))
			c.Exec(3)
		}
		line, err := json.Marshal(ev)
		if err != nil {
			return err
		}
		c.Emit(line)
		c.Case(fmt.Sprintf("%s:%d", t, i))
	}
	c.Sample(map[string]interface{}{"recorded_events": n, "types": len(names)})
	return nil
}
