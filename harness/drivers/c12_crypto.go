package drivers

// C12: RC4, CMAC, PKCS#7 and GPP-AES bound to spec/RC4.tla, RC4Stream.tla, TraceRC4.tla, CMAC.tla, ToyCipher.tla,
// CMACStream.tla, TraceCMAC.tla, PKCS7.tla, GPP.tla, C12Cases.tla.
//
//   c12.rc4graph   model -> code: every edge (stream position p, call length k) of the RC4 chunking graph is executed
//                  on a real rc4.RC4 in three histories (separate dst / in place / many small calls + oversized dst).
//   c12.rc4record  code -> model: random keys of 1..256 bytes, random call sizes; TLC recomputes every output byte.
//   c12.cmacgraph  model -> code: every Write/Sum/Reset edge of the CMAC object over the specification's toy block
//                  cipher (implemented here as a cipher.Block), block sizes 8 and 16.
//   c12.cmacrecord code -> model: random Write/Sum/Reset programs over real AES/DES/3DES wrapped in a recorder that
//                  logs every Encrypt(in) = out; TLC recomputes subkeys, chaining and tags with that function.
//   c12.cases      model -> code: RC4 key sweep, RFC 4493, PKCS#7 pad grid, exhaustive unpad accept/reject, GPP.

import (
	"bytes"
	"crypto/aes"
	"crypto/cipher"
	"crypto/des"
	"encoding/base64"
	"encoding/json"
	"fmt"
	"hash"
	"math/rand"
	"strings"

	"github.com/TheManticoreProject/Manticore/crypto/cmac"
	"github.com/TheManticoreProject/Manticore/crypto/gppp"
	"github.com/TheManticoreProject/Manticore/crypto/pkcs7"
	"github.com/TheManticoreProject/Manticore/crypto/rc4"
	"verif/harness/h"
)

func init() {
	h.Register("c12.rc4graph", c12RC4Graph)
	h.Register("c12.rc4record", c12RC4Record)
	h.Register("c12.cmacgraph", c12CMACGraph)
	h.Register("c12.cmacrecord", c12CMACRecord)
	h.Register("c12.cases", c12Cases)
}

// ---------------------------------------------------------------- RC4 chunking graph

type rc4Edge struct {
	Op  string  `json:"op"`
	Kid int     `json:"kid"`
	P   int     `json:"p"`
	K   int     `json:"k"`
	Out h.Bytes `json:"out"`
	Key h.Bytes `json:"key"`
	M   h.Bytes `json:"m"`
}

func c12RC4Graph(c *h.Ctx) error {
	keys := map[int][]byte{}
	var msg []byte
	const site = "rc4.RC4.XORKeyStream"
	first := true
	err := c.Lines(func(raw []byte) error {
		var e rc4Edge
		if err := json.Unmarshal(raw, &e); err != nil {
			return err
		}
		if e.Op == "key" {
			keys[e.Kid] = e.Key
			msg = e.M
			return nil
		}
		key, ok := keys[e.Kid]
		if !ok {
			return fmt.Errorf("edge before key line (kid %d)", e.Kid)
		}
		want := []byte(e.Out)
		if e.K == 0 {
			c.Case("")
		} else {
			c.Case(fmt.Sprintf("%d@%d+%d", e.Kid, e.P, e.K))
		}
		smp := map[string]interface{}{"key_hex": h.Hex(key), "stream_pos": e.P, "call_len": e.K}
		src := msg[e.P : e.P+e.K]
		// history A: one call for the first p bytes, then the edge's call into a separate dst
		ci, err := rc4.NewRC4WithKey(append([]byte(nil), key...))
		if err != nil {
			c.Fail("rc4.NewRC4WithKey", "rejects-valid-key", fmt.Sprintf("key of %d bytes: %v", len(key), err), smp)
			return nil
		}
		pre := make([]byte, e.P)
		ci.XORKeyStream(pre, msg[:e.P])
		srcCopy := append([]byte(nil), src...)
		dst := make([]byte, e.K)
		if p := h.Guard(func() { ci.XORKeyStream(dst, srcCopy) }); p != "" {
			c.Fail(site, "panic", p, smp)
			return nil
		}
		if !bytes.Equal(dst, want) {
			c.Fail(site, "chunking", fmt.Sprintf("XOR(%d);XOR(%d): spec %x code %x", e.P, e.K, want, dst), smp)
		}
		if !bytes.Equal(srcCopy, src) {
			c.Drift(site, "src-modified", fmt.Sprintf("src changed by a call with a separate dst (p=%d k=%d)", e.P, e.K), smp)
		}
		// history B: in place, the prefix cut in two calls
		ci, _ = rc4.NewRC4WithKey(append([]byte(nil), key...))
		buf := append([]byte(nil), msg[:e.P+e.K]...)
		h1 := e.P / 2
		ci.XORKeyStream(buf[:h1], buf[:h1])
		ci.XORKeyStream(buf[h1:e.P], buf[h1:e.P])
		ci.XORKeyStream(buf[e.P:], buf[e.P:])
		if !bytes.Equal(buf[e.P:], want) {
			c.Fail(site, "chunking-inplace", fmt.Sprintf("XOR(%d);XOR(%d);XOR(%d) in place: spec %x code %x", h1, e.P-h1, e.K, want, buf[e.P:]), smp)
		}
		// history C: prefix in many small calls (1,2,3,.. bytes), dst longer than src
		ci, _ = rc4.NewRC4WithKey(append([]byte(nil), key...))
		for off, n := 0, 1; off < e.P; n = n%7 + 1 {
			if off+n > e.P {
				n = e.P - off
			}
			tmp := make([]byte, n)
			ci.XORKeyStream(tmp, msg[off:off+n])
			off += n
		}
		big := bytes.Repeat([]byte{0xA5}, e.K+3)
		ci.XORKeyStream(big, src)
		if !bytes.Equal(big[:e.K], want) {
			c.Fail(site, "chunking-small-calls", fmt.Sprintf("small calls to %d then XOR(%d): spec %x code %x", e.P, e.K, want, big[:e.K]), smp)
		}
		if !bytes.Equal(big[e.K:], []byte{0xA5, 0xA5, 0xA5}) {
			c.Drift(site, "writes-past-len-src", fmt.Sprintf("dst beyond len(src) modified (p=%d k=%d)", e.P, e.K), smp)
		}
		c.Exec(3)
		if first && e.K > 3 {
			first = false
			c.Sample(map[string]interface{}{"op": "xor", "key_hex": h.Hex(key), "stream_pos": e.P, "len": e.K, "expected_hex": h.Hex(want)})
		}
		return nil
	})
	c.Set("keys", len(keys))
	c.Set("stream_len", len(msg))
	return err
}

// ---------------------------------------------------------------- RC4 recorded programs

func c12RC4Record(c *h.Ctx) error {
	traces := c.OptInt("traces", 30)
	maxTotal := c.OptInt("maxbytes", 300)
	rng := rand.New(rand.NewSource(int64(c.OptInt("seed", 1))*7919 + 12))
	events := 0
	for tr := 0; tr < traces; tr++ {
		c.Emit([]byte(`{"op":"reset"}`))
		kl := []int{1, 2, 5, 16, 32, 255, 256, 1 + rng.Intn(256), 1 + rng.Intn(256)}[rng.Intn(9)]
		key := make([]byte, kl)
		rng.Read(key)
		if rng.Intn(4) == 0 {
			for i := range key {
				key[i] = []byte{0, 255}[rng.Intn(2)]
			}
		}
		ci, err := rc4.NewRC4WithKey(append([]byte(nil), key...))
		if err != nil {
			c.Fail("rc4.NewRC4WithKey", "rejects-valid-key", fmt.Sprintf("key of %d bytes: %v", kl, err), map[string]interface{}{"key_hex": h.Hex(key)})
			continue
		}
		b, _ := json.Marshal(map[string]interface{}{"op": "new", "key": h.Bytes(key)})
		c.Emit(b)
		events++
		total := 0
		steps := 2 + rng.Intn(7)
		for s := 0; s < steps; s++ {
			n := []int{0, 1, 2, 3, 17, 64, 255, 256, 257, rng.Intn(100)}[rng.Intn(10)]
			if total+n > maxTotal {
				n = maxTotal - total
			}
			total += n
			src := make([]byte, n)
			rng.Read(src)
			dst := make([]byte, n)
			if rng.Intn(2) == 0 {
				copy(dst, src)
				ci.XORKeyStream(dst, dst) // in place
			} else {
				ci.XORKeyStream(dst, src)
			}
			b, _ := json.Marshal(map[string]interface{}{"op": "xor", "src": h.Bytes(src), "dst": h.Bytes(dst)})
			c.Emit(b)
			events++
		}
		c.Case(fmt.Sprint(tr))
	}
	c.Exec(events)
	c.Set("events", events)
	return nil
}

// ---------------------------------------------------------------- toy block cipher (spec/ToyCipher.tla)

type toyBlock struct {
	key []byte
	b   int
}

func (t toyBlock) BlockSize() int { return t.b }
func toyRound(key, x []byte, r int) []byte {
	b := len(x)
	y := make([]byte, b)
	for i0 := 0; i0 < b; i0++ {
		i := i0 + 1
		y[i0] = byte((int(x[i0])+int(key[(i+r)%len(key)]))*7 + 13*i + r)
	}
	out := make([]byte, b)
	for i0 := 0; i0 < b; i0++ {
		i := i0 + 1
		out[i0] = byte(int(y[i0]^y[i%b]) + 3*int(y[(i+2)%b]))
	}
	return out
}
func (t toyBlock) Encrypt(dst, src []byte) {
	x := append([]byte(nil), src[:t.b]...)
	for r := 1; r <= 3; r++ {
		x = toyRound(t.key, x, r)
	}
	copy(dst, x)
}
func (t toyBlock) Decrypt(dst, src []byte) { panic("toy cipher: CMAC never decrypts") }

// ---------------------------------------------------------------- CMAC graph

type cmacEdge struct {
	Op  string  `json:"op"`
	Cid int     `json:"cid"`
	P   int     `json:"p"`
	K   int     `json:"k"`
	D   h.Bytes `json:"d"`
	B   int     `json:"b"`
	Key h.Bytes `json:"key"`
	M   h.Bytes `json:"m"`
	Tx  h.Bytes `json:"tx"`
	Ty  h.Bytes `json:"ty"`
}

func c12CMACGraph(c *h.Ctx) error {
	type cfgT struct {
		blk toyBlock
		dig map[int][]byte
	}
	cfgs := map[int]*cfgT{}
	var msg []byte
	var edges []cmacEdge
	err := c.Lines(func(raw []byte) error {
		var e cmacEdge
		if err := json.Unmarshal(raw, &e); err != nil {
			return err
		}
		if e.Op == "cfg" {
			t := toyBlock{key: e.Key, b: e.B}
			got := make([]byte, e.B)
			t.Encrypt(got, e.Tx)
			if !bytes.Equal(got, e.Ty) {
				return fmt.Errorf("harness toy cipher disagrees with spec/ToyCipher.tla: E(%x)= spec %x harness %x", []byte(e.Tx), []byte(e.Ty), got)
			}
			cfgs[e.Cid] = &cfgT{blk: t, dig: map[int][]byte{0: e.D}}
			msg = e.M
			return nil
		}
		cf := cfgs[e.Cid]
		if cf == nil {
			return fmt.Errorf("edge before cfg line (cid %d)", e.Cid)
		}
		if e.Op == "write" {
			cf.dig[e.P+e.K] = e.D
		}
		edges = append(edges, e)
		return nil
	})
	if err != nil {
		return err
	}
	const site = "cmac.cmac"
	sampled := false
	for _, e := range edges {
		cf := cfgs[e.Cid]
		b := cf.blk.b
		want := []byte(e.D)
		smp := map[string]interface{}{"block_size": b, "toy_key_hex": h.Hex(cf.blk.key), "offset": e.P, "write_len": e.K, "msg_hex": h.Hex(msg[:e.P+e.K])}
		newH := func() hash.Hash { return cmac.New(cf.blk) }
		switch e.Op {
		case "sum":
			c.Case("")
			m := newH()
			m.Write(msg[:e.P])
			a := m.Sum(nil)
			a2 := append([]byte(nil), a...)
			bb := m.Sum(nil)
			c.Exec(1)
			if !bytes.Equal(a2, want) {
				c.Fail(site+".Sum", "tag", fmt.Sprintf("b=%d W(%d);Sum: spec %x code %x", b, e.P, want, a2), smp)
			}
			if !bytes.Equal(bb, a2) {
				c.Fail(site+".Sum", "second-sum-differs", fmt.Sprintf("b=%d W(%d);Sum;Sum: %x then %x", b, e.P, a2, bb), smp)
			}
			if !bytes.Equal(a, a2) {
				c.Drift(site+".Sum", "returned-slice-aliased", fmt.Sprintf("b=%d: slice returned by the first Sum(nil) changed after the second Sum", b), smp)
			}
			if m.Size() != b {
				c.Fail(site+".Size", "size", fmt.Sprintf("Size()=%d for block size %d", m.Size(), b), smp)
			}
			if e.P == 0 && m.BlockSize() != b {
				c.Drift(site+".BlockSize", "blocksize", fmt.Sprintf("BlockSize()=%d for a %d-byte block cipher", m.BlockSize(), b), map[string]interface{}{"block_size": b})
			}
		case "reset":
			c.Case(fmt.Sprintf("%d:reset@%d", e.Cid, e.P%b))
			m := newH()
			m.Write(msg[:e.P])
			if e.P%2 == 1 {
				m.Sum(nil)
			}
			m.Reset()
			got := m.Sum(nil)
			if !bytes.Equal(got, want) {
				c.Fail(site+".Reset", "reset-then-sum", fmt.Sprintf("b=%d W(%d);Reset;Sum: spec %x code %x", b, e.P, want, got), smp)
			}
			// the object must now behave as a fresh one: follow a few edges out of state 0
			for _, q := range []int{1, b - 1, b, b + 1, 2*b + 1} {
				wq, ok := cf.dig[q]
				if !ok || q > len(msg) {
					continue
				}
				m.Reset()
				m.Write(msg[:q])
				g := m.Sum(nil)
				if !bytes.Equal(g, wq) {
					c.Fail(site+".Reset", "reset-not-fresh", fmt.Sprintf("b=%d W(%d);Reset;..;Reset;W(%d);Sum: spec %x code %x", b, e.P, q, wq, g), smp)
				}
			}
			c.Exec(2)
		case "write":
			c.Case(fmt.Sprintf("%d:%d+%d", e.Cid, e.P%b, e.K))
			// A: W(p) W(k) Sum(nil); Sum(prefix)
			m := newH()
			m.Write(msg[:e.P])
			n, werr := m.Write(msg[e.P : e.P+e.K])
			if n != e.K || werr != nil {
				c.Fail(site+".Write", "return", fmt.Sprintf("Write of %d bytes returned (%d,%v)", e.K, n, werr), smp)
			}
			a := append([]byte(nil), m.Sum(nil)...)
			if !bytes.Equal(a, want) {
				c.Fail(site+".Write", "chunking", fmt.Sprintf("b=%d W(%d);W(%d);Sum: spec %x code %x", b, e.P, e.K, want, a), smp)
			}
			pfx := make([]byte, 3, 3+b+5)
			copy(pfx, []byte{9, 8, 7})
			wp := m.Sum(pfx)
			if !bytes.Equal(wp, append([]byte{9, 8, 7}, want...)) {
				c.Fail(site+".Sum", "append", fmt.Sprintf("b=%d Sum(in): spec in||%x code %x", b, want, wp), smp)
			}
			// B: W(p) Sum W(k) Sum -- a read between writes must not change what later writes produce
			m = newH()
			m.Write(msg[:e.P])
			pre := m.Sum(nil)
			if wpre, ok := cf.dig[e.P]; ok && !bytes.Equal(pre, wpre) {
				c.Fail(site+".Sum", "tag", fmt.Sprintf("b=%d W(%d);Sum: spec %x code %x", b, e.P, wpre, pre), smp)
			}
			c.Retain(site+".Sum", pre, smp) // the tag read between the writes is a value: the later Sum must not change it
			m.Write(msg[e.P : e.P+e.K])
			g := m.Sum(nil)
			c.Retain(site+".Sum", g, smp)
			if !bytes.Equal(g, want) {
				c.Fail(site+".Sum", "sum-then-write", fmt.Sprintf("b=%d W(%d);Sum;W(%d);Sum: spec %x code %x", b, e.P, e.K, want, g), smp)
			}
			// C: junk, Reset, prefix byte by byte, Sum, Sum, W(k), Sum
			m = newH()
			m.Write(bytes.Repeat([]byte{0x5c}, (e.P*7+e.K)%(2*b+3)))
			m.Reset()
			for i := 0; i < e.P; i++ {
				m.Write(msg[i : i+1])
			}
			m.Sum(nil)
			m.Sum(nil)
			m.Write(msg[e.P : e.P+e.K])
			g = m.Sum(nil)
			if !bytes.Equal(g, want) {
				c.Fail(site+".Reset", "reset-then-write", fmt.Sprintf("b=%d W(junk);Reset;W(1)x%d;Sum;Sum;W(%d);Sum: spec %x code %x", b, e.P, e.K, want, g), smp)
			}
			c.Exec(4)
			if !sampled && e.K > 2 && e.P > 0 {
				sampled = true
				c.Sample(map[string]interface{}{"op": "write", "block_size": b, "toy_key_hex": h.Hex(cf.blk.key), "offset": e.P, "len": e.K, "expected_tag": h.Hex(want)})
			}
		default:
			return fmt.Errorf("unknown edge op %q", e.Op)
		}
	}
	c.Set("configs", len(cfgs))
	c.Set("message_len", len(msg))
	return nil
}

// ---------------------------------------------------------------- CMAC recorded programs over real ciphers

type recBlock struct {
	inner cipher.Block
	log   [][2]h.Bytes
}

func (r *recBlock) BlockSize() int { return r.inner.BlockSize() }
func (r *recBlock) Encrypt(dst, src []byte) {
	in := append([]byte(nil), src[:r.inner.BlockSize()]...)
	r.inner.Encrypt(dst, src)
	out := append([]byte(nil), dst[:r.inner.BlockSize()]...)
	r.log = append(r.log, [2]h.Bytes{in, out})
}
func (r *recBlock) Decrypt(dst, src []byte) { r.inner.Decrypt(dst, src) }
func (r *recBlock) take() [][2]h.Bytes {
	l := r.log
	r.log = nil
	if l == nil {
		l = [][2]h.Bytes{}
	}
	return l
}

func c12CMACRecord(c *h.Ctx) error {
	traces := c.OptInt("traces", 30)
	maxTotal := c.OptInt("maxbytes", 200)
	rng := rand.New(rand.NewSource(int64(c.OptInt("seed", 1))*104729 + 5))
	events := 0
	emit := func(m map[string]interface{}) {
		b, _ := json.Marshal(m)
		c.Emit(b)
		events++
	}
	rfcKey := []byte{0x2b, 0x7e, 0x15, 0x16, 0x28, 0xae, 0xd2, 0xa6, 0xab, 0xf7, 0x15, 0x88, 0x09, 0xcf, 0x4f, 0x3c}
	kinds := map[string]int{}
	for tr := 0; tr < traces; tr++ {
		c.Emit([]byte(`{"op":"reset"}`))
		var blk cipher.Block
		var err error
		kind := []string{"aes128", "aes192", "aes256", "des", "3des", "aes128rfc"}[(tr+rng.Intn(2))%6]
		mk := func(n int) []byte { k := make([]byte, n); rng.Read(k); return k }
		switch kind {
		case "aes128":
			blk, err = aes.NewCipher(mk(16))
		case "aes192":
			blk, err = aes.NewCipher(mk(24))
		case "aes256":
			blk, err = aes.NewCipher(mk(32))
		case "des":
			blk, err = des.NewCipher(mk(8))
		case "3des":
			blk, err = des.NewTripleDESCipher(mk(24))
		case "aes128rfc":
			blk, err = aes.NewCipher(rfcKey)
		}
		if err != nil {
			return err
		}
		kinds[kind]++
		rb := &recBlock{inner: blk}
		var m hash.Hash
		if p := h.Guard(func() { m = cmac.New(rb) }); p != "" {
			c.Fail("cmac.New", "panic", fmt.Sprintf("%s: %s", kind, p), nil)
			continue
		}
		emit(map[string]interface{}{"op": "new", "b": blk.BlockSize(), "enc": rb.take()})
		total := 0
		bs := blk.BlockSize()
		steps := 3 + rng.Intn(9)
		for s := 0; s < steps; s++ {
			switch rng.Intn(7) {
			case 0, 1, 2, 3:
				n := []int{0, 1, bs - 1, bs, bs + 1, 2 * bs, 2*bs + 1, rng.Intn(50)}[rng.Intn(8)]
				if total+n > maxTotal {
					n = maxTotal - total
				}
				total += n
				p := make([]byte, n)
				rng.Read(p)
				m.Write(p)
				emit(map[string]interface{}{"op": "write", "data": h.Bytes(p), "enc": rb.take()})
			case 4, 5:
				in := make([]byte, rng.Intn(4))
				rng.Read(in)
				out := m.Sum(append([]byte(nil), in...))
				emit(map[string]interface{}{"op": "sum", "inp": h.Bytes(in), "out": h.Bytes(out), "enc": rb.take()})
			case 6:
				m.Reset()
				total = 0
				emit(map[string]interface{}{"op": "hreset", "enc": rb.take()})
			}
		}
		out := m.Sum(nil)
		emit(map[string]interface{}{"op": "sum", "inp": h.Bytes{}, "out": h.Bytes(out), "enc": rb.take()})
		c.Case(fmt.Sprintf("%s/%d", kind, tr))
	}
	c.Exec(events)
	c.Set("events", events)
	c.Set("ciphers", kinds)
	return nil
}

// ---------------------------------------------------------------- one-shot cases

type c12Seg struct {
	Off int
	B   h.Bytes
}

func (s *c12Seg) UnmarshalJSON(data []byte) error {
	var raw []json.RawMessage
	if err := json.Unmarshal(data, &raw); err != nil {
		return err
	}
	if len(raw) != 2 {
		return fmt.Errorf("segment: want [off, bytes]")
	}
	if err := json.Unmarshal(raw[0], &s.Off); err != nil {
		return err
	}
	return json.Unmarshal(raw[1], &s.B)
}

type c12Case struct {
	K      string   `json:"k"`
	Key    h.Bytes  `json:"key"`
	Segs   []c12Seg `json:"segs"`
	Ks     h.Bytes  `json:"ks"`
	M      h.Bytes  `json:"m"`
	Tag    h.Bytes  `json:"tag"`
	B      int      `json:"b"`
	Padded h.Bytes  `json:"padded"`
	Buf    h.Bytes  `json:"buf"`
	Valid  bool     `json:"valid"`
	Agree  bool     `json:"agree"`
	Pw     []int    `json:"pw"`
	IV     h.Bytes  `json:"iv"`
	Plain  h.Bytes  `json:"plain"`
	Cp     []int    `json:"cp"`
}

func c12Cases(c *h.Ctx) error {
	sampled := map[string]bool{}
	sample := func(kind string, s map[string]interface{}) {
		if !sampled[kind] {
			sampled[kind] = true
			c.Sample(s)
		}
	}
	counts := map[string]int{}
	err := c.Lines(func(raw []byte) error {
		var k c12Case
		if err := json.Unmarshal(raw, &k); err != nil {
			return err
		}
		counts[k.K]++
		switch k.K {
		case "rc4key":
			c.Case("rc4key:" + h.Hex(k.Key))
			smp := map[string]interface{}{"key_hex": h.Hex(k.Key)}
			ci, err := rc4.NewRC4WithKey(append([]byte(nil), k.Key...))
			if err != nil {
				c.Fail("rc4.NewRC4WithKey", "rejects-valid-key", fmt.Sprintf("key of %d bytes: %v", len(k.Key), err), smp)
				return nil
			}
			end := 0
			for _, s := range k.Segs {
				if s.Off+len(s.B) > end {
					end = s.Off + len(s.B)
				}
			}
			ks := make([]byte, end)
			ci.XORKeyStream(ks, ks) // zero data: the output IS the keystream
			c.Exec(1)
			for _, s := range k.Segs {
				if got := ks[s.Off : s.Off+len(s.B)]; !bytes.Equal(got, s.B) {
					aspect := "keystream"
					if s.Off > 0 {
						aspect = "keystream-deep"
					}
					c.Fail("rc4.NewRC4WithKey", aspect, fmt.Sprintf("keylen %d offset %d: spec %x code %x", len(k.Key), s.Off, []byte(s.B), got), smp)
				}
			}
			// decryption is the same operation: a second cipher restores the data
			c2, _ := rc4.NewRC4WithKey(append([]byte(nil), k.Key...))
			back := make([]byte, end)
			c2.XORKeyStream(back, ks)
			if !bytes.Equal(back, make([]byte, end)) {
				c.Fail("rc4.RC4.XORKeyStream", "not-involutive", fmt.Sprintf("keylen %d: decrypting the ciphertext does not restore the data", len(k.Key)), smp)
			}
			sample("rc4key", map[string]interface{}{"kind": "rc4key", "keylen": len(k.Key), "first_keystream_bytes": h.Hex(k.Segs[0].B[:8])})
		case "rc4bad":
			c.Case("")
			_, err := rc4.NewRC4WithKey(k.Key)
			c.Exec(1)
			if err == nil {
				c.Drift("rc4.NewRC4WithKey", "accepts-bad-key-size", fmt.Sprintf("key of %d bytes accepted", len(k.Key)), nil)
			}
		case "rc4blank":
			c.Case("")
			ci, err := rc4.NewRC4WithKey([]byte{1, 2, 3})
			if err != nil {
				return nil
			}
			tmp := make([]byte, 13)
			ci.XORKeyStream(tmp, tmp)
			ci.Reset()
			out := make([]byte, len(k.Ks))
			ci.XORKeyStream(out, out)
			c.Exec(1)
			if !bytes.Equal(out, k.Ks) {
				c.Drift("rc4.RC4.Reset", "blank-state", fmt.Sprintf("after Reset: spec (identity permutation) %x code %x", []byte(k.Ks), out), nil)
			}
		case "cmackat":
			c.Case(fmt.Sprintf("cmackat:%d", len(k.M)))
			blk, err := aes.NewCipher(k.Key)
			if err != nil {
				return err
			}
			m := cmac.New(blk)
			m.Write(k.M)
			got := m.Sum(nil)
			c.Exec(1)
			c.Retain("cmac.cmac.Sum", got, map[string]interface{}{"msg_len": len(k.M)})
			if !bytes.Equal(got, k.Tag) {
				c.Fail("cmac.New", "rfc4493", fmt.Sprintf("len %d: RFC %x code %x", len(k.M), []byte(k.Tag), got), map[string]interface{}{"msg_hex": h.Hex(k.M)})
			}
			sample("cmackat", map[string]interface{}{"kind": "cmac rfc4493", "len": len(k.M), "tag": h.Hex(k.Tag)})
		case "pad":
			c.Case(fmt.Sprintf("pad:%d:%d:%x", k.B, len(k.M), pkHash(k.M)))
			smp := map[string]interface{}{"block_size": k.B, "msg_hex": h.Hex(k.M)}
			in := append(make([]byte, 0, len(k.M)), k.M...) // cap == len: Pad must allocate
			got, err := pkcs7.Pad(in, uint8(k.B))
			c.Exec(2)
			if err != nil {
				c.Fail("pkcs7.Pad", "error", fmt.Sprintf("b=%d len=%d: %v", k.B, len(k.M), err), smp)
				return nil
			}
			if !bytes.Equal(got, k.Padded) {
				c.Fail("pkcs7.Pad", "padding", fmt.Sprintf("b=%d len=%d: spec %x code %x", k.B, len(k.M), []byte(k.Padded), got), smp)
			}
			back, err := pkcs7.Unpad(append([]byte(nil), k.Padded...))
			if err != nil {
				c.Fail("pkcs7.Unpad", "rejects-valid", fmt.Sprintf("b=%d len=%d: Unpad(Pad(m)) failed: %v", k.B, len(k.M), err), smp)
			} else if !bytes.Equal(back, k.M) {
				c.Fail("pkcs7.Unpad", "roundtrip", fmt.Sprintf("b=%d len=%d: Unpad(Pad(m)) = %x", k.B, len(k.M), back), smp)
			}
			// aliasing (D): padding a slice with spare capacity must not be visible through the caller's array
			arr := append(append(make([]byte, 0, len(k.M)+300), k.M...), bytes.Repeat([]byte{0xEE}, 300)...)
			pkcs7.Pad(arr[:len(k.M)], uint8(k.B))
			if arr[len(k.M)] != 0xEE {
				c.Drift("pkcs7.Pad", "writes-into-callers-array", "Pad appends in place when the argument has spare capacity", smp)
			}
			sample("pad", map[string]interface{}{"kind": "pad", "block_size": k.B, "len": len(k.M), "padded_len": len(k.Padded)})
		case "pad0":
			c.Case("")
			_, err := pkcs7.Pad(k.M, 0)
			c.Exec(1)
			if err == nil {
				c.Drift("pkcs7.Pad", "accepts-block-size-0", "Pad(m, 0) did not fail", nil)
			}
		case "unpad":
			if !k.Agree {
				return fmt.Errorf("specification inconsistency: PKCS7IsPadded and PKCS7WellFormed disagree on %x", []byte(k.Buf))
			}
			c.Case("unpad:" + h.Hex(k.Buf))
			smp := map[string]interface{}{"buf_hex": h.Hex(k.Buf)}
			in := append([]byte(nil), k.Buf...)
			var got []byte
			var err error
			if p := h.Guard(func() { got, err = pkcs7.Unpad(in) }); p != "" {
				c.Fail("pkcs7.Unpad", "panic", p, smp)
				return nil
			}
			c.Exec(1)
			switch {
			case k.Valid && err != nil:
				c.Fail("pkcs7.Unpad", "rejects-valid", fmt.Sprintf("%x: %v", []byte(k.Buf), err), smp)
			case k.Valid && !bytes.Equal(got, k.M):
				c.Fail("pkcs7.Unpad", "wrong-message", fmt.Sprintf("%x: spec %x code %x", []byte(k.Buf), []byte(k.M), got), smp)
			case !k.Valid && err == nil:
				c.Fail("pkcs7.Unpad", "accepts-invalid", fmt.Sprintf("%x accepted, returned %x", []byte(k.Buf), got), smp)
			}
			if !bytes.Equal(in, k.Buf) {
				c.Drift("pkcs7.Unpad", "modifies-input", "input buffer changed", smp)
			}
			if len(k.Buf) == 4 {
				sample("unpad", map[string]interface{}{"kind": "unpad", "buf_hex": h.Hex(k.Buf), "valid": k.Valid})
			}
		case "gpp":
			pw := cps(k.Pw)
			c.Case("gpp:" + pw)
			smp := map[string]interface{}{"password_codepoints": k.Pw}
			blk, err := aes.NewCipher(k.Key)
			if err != nil {
				return err
			}
			if len(k.Plain)%16 != 0 || len(k.Plain) == 0 {
				return fmt.Errorf("spec plaintext not block aligned")
			}
			ct := make([]byte, len(k.Plain))
			cipher.NewCBCEncrypter(blk, k.IV).CryptBlocks(ct, k.Plain) // Prim: AES-256-CBC(key, iv, plaintext) -- all three from the spec
			want := base64.StdEncoding.EncodeToString(ct)
			if len(k.Cp) > 0 {
				doc := cps(k.Cp)
				if strings.TrimRight(want, "=") != doc {
					return fmt.Errorf("oracle self-check failed: documented cpassword %q, AES-CBC of the spec's plaintext gives %q", doc, want)
				}
				got, err := gppp.GPPPDecryptBase64(doc)
				c.Exec(1)
				if err != nil || got != pw {
					c.Drift("gppp.GPPPDecryptBase64", "unpadded-base64", fmt.Sprintf("cpassword without '=' padding: got (%q,%v) want %q", got, err, pw), smp)
				}
			}
			enc, err := gppp.GPPPEncrypt(pw)
			c.Exec(3)
			if err != nil {
				c.Fail("gppp.GPPPEncrypt", "error", err.Error(), smp)
			} else if enc != want {
				c.Fail("gppp.GPPPEncrypt", "ciphertext", fmt.Sprintf("spec %s code %s", want, enc), smp)
			}
			var dec string
			if p := h.Guard(func() { dec, err = gppp.GPPPDecryptBytes(append([]byte(nil), ct...)) }); p != "" {
				c.Fail("gppp.GPPPDecryptBytes", "panic", p, smp)
			} else if err != nil {
				c.Fail("gppp.GPPPDecryptBytes", "error", err.Error(), smp)
			} else if dec != pw {
				c.Fail("gppp.GPPPDecryptBytes", "plaintext", fmt.Sprintf("spec %q code %q", pw, dec), smp)
			}
			if p := h.Guard(func() { dec, err = gppp.GPPPDecryptBase64(want) }); p != "" {
				c.Fail("gppp.GPPPDecryptBase64", "panic", p, smp)
			} else if err != nil {
				c.Fail("gppp.GPPPDecryptBase64", "error", err.Error(), smp)
			} else if dec != pw {
				c.Fail("gppp.GPPPDecryptBase64", "plaintext", fmt.Sprintf("spec %q code %q", pw, dec), smp)
			}
			// mutual inverses on the library's own output
			if enc != "" {
				if p := h.Guard(func() { dec, err = gppp.GPPPDecryptBase64(enc) }); p != "" || err != nil || dec != pw {
					c.Fail("gppp.GPPPDecryptBase64", "not-inverse-of-encrypt", fmt.Sprintf("Decrypt(Encrypt(pw)) = (%q,%v,%s)", dec, err, p), smp)
				}
			}
			if len(k.Pw) == 2 {
				sample("gpp", map[string]interface{}{"kind": "gpp", "password_codepoints": k.Pw, "cpassword": want})
			}
		default:
			return fmt.Errorf("unknown case kind %q", k.K)
		}
		return nil
	})
	c.Set("by_kind", counts)
	return err
}

func pkHash(b []byte) uint32 {
	var x uint32 = 2166136261
	for _, v := range b {
		x = (x ^ uint32(v)) * 16777619
	}
	return x
}
