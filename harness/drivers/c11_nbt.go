package drivers

// C11: the NetBIOS session transport (network/netbios/nbt) bound to spec/NBTSession.tla.
//
//   c11.graph  model -> code: every edge of the real-size (Base = 256) state graph is executed: a real sending
//              transport writes into a capturing connection (bytes compared with the RFC 1002 header the spec
//              computes), a real receiving transport reads from a scripted connection that returns exactly the
//              segment sizes the model chose and ends where the model cut the stream; after every step the
//              harness waits until the receiver is blocked in a read again (or has returned) and compares the
//              bytes consumed and every Receive result with the model state.

import (
	"bytes"
	"encoding/json"
	"fmt"
	"io"
	"net"
	"runtime"
	"sort"
	"strconv"
	"sync"
	"time"

	"github.com/TheManticoreProject/Manticore/network/netbios/nbt"
	"verif/harness/h"
)

func init() { h.Register("c11.graph", c11Graph) }

type nbtState struct {
	Sent      []int `json:"sent"`
	Consumed  int   `json:"consumed"`
	Delivered []int `json:"delivered"`
	Limit     int   `json:"limit"`
	Rxerr     bool  `json:"rxerr"`
	Calls     int   `json:"calls"`
}

type nbtEdge struct {
	Op  string   `json:"op"`
	A   int      `json:"a"`
	Res string   `json:"res"`
	F   nbtState `json:"f"`
	T   nbtState `json:"t"`
	Hdr h.Bytes  `json:"hdr"`
	fi  int
	ti  int
}

func (s nbtState) key() string {
	b, _ := json.Marshal(s)
	return string(b)
}

func nbtPayload(frame, n int) []byte {
	p := make([]byte, n)
	for i := range p {
		p[i] = byte(frame*131 + i*7 + (i >> 8) + (i >> 16))
	}
	return p
}

// addr satisfies net.Addr.
type fakeAddr struct{}

func (fakeAddr) Network() string { return "verif" }
func (fakeAddr) String() string  { return "verif" }

// captureConn records what the sender writes.
type captureConn struct{ buf bytes.Buffer }

func (c *captureConn) Read(p []byte) (int, error)         { return 0, io.EOF }
func (c *captureConn) Write(p []byte) (int, error)        { return c.buf.Write(p) }
func (c *captureConn) Close() error                       { return nil }
func (c *captureConn) LocalAddr() net.Addr                { return fakeAddr{} }
func (c *captureConn) RemoteAddr() net.Addr               { return fakeAddr{} }
func (c *captureConn) SetDeadline(t time.Time) error      { return nil }
func (c *captureConn) SetReadDeadline(t time.Time) error  { return nil }
func (c *captureConn) SetWriteDeadline(t time.Time) error { return nil }

type grant struct {
	n   int
	eof bool
}

// feedConn hands the receiver exactly the bytes the schedule grants.
type feedConn struct {
	mu     sync.Mutex
	data   []byte
	pos    int
	req    chan int
	grants chan grant
}

func (c *feedConn) Read(p []byte) (int, error) {
	if len(p) == 0 {
		return 0, nil // like a real net.Conn: an empty read returns at once
	}
	c.req <- len(p)
	g := <-c.grants
	if g.eof {
		return 0, io.EOF
	}
	c.mu.Lock()
	defer c.mu.Unlock()
	n := g.n
	if n > len(p) {
		n = len(p)
	}
	if n > len(c.data)-c.pos {
		n = len(c.data) - c.pos
	}
	copy(p, c.data[c.pos:c.pos+n])
	c.pos += n
	return n, nil
}
func (c *feedConn) Write(p []byte) (int, error)        { return len(p), nil }
func (c *feedConn) Close() error                       { return nil }
func (c *feedConn) LocalAddr() net.Addr                { return fakeAddr{} }
func (c *feedConn) RemoteAddr() net.Addr               { return fakeAddr{} }
func (c *feedConn) SetDeadline(t time.Time) error      { return nil }
func (c *feedConn) SetReadDeadline(t time.Time) error  { return nil }
func (c *feedConn) SetWriteDeadline(t time.Time) error { return nil }

type rxResult struct {
	data []byte
	err  error
	pan  string
}

type nbtRun struct {
	c       *h.Ctx
	snd     *nbt.NBTTransport
	cap     *captureConn
	feed    *feedConn
	results chan rxResult
	got     []rxResult // every Receive result so far
	dead    bool       // receiver goroutine has ended
	blocked bool       // receiver is blocked in conn.Read
	reqLen  int
	frames  [][]byte // payloads accepted by the model, in order
	history []string
}

func newNbtRun(c *h.Ctx) *nbtRun {
	r := &nbtRun{c: c, cap: &captureConn{}, feed: &feedConn{req: make(chan int), grants: make(chan grant)}, results: make(chan rxResult, 8)}
	r.snd = nbt.NewNBTTransport()
	r.snd.VerifSetConn(r.cap)
	rx := nbt.NewNBTTransport()
	rx.VerifSetConn(r.feed)
	go func() {
		for {
			var b []byte
			var err error
			pan := h.Guard(func() { b, err = rx.Receive() })
			r.results <- rxResult{b, err, pan}
			if err != nil || pan != "" {
				return
			}
		}
	}()
	return r
}

// quiesce waits until the receiver is blocked in a read or has ended; false on a hang.
func (r *nbtRun) quiesce() bool {
	if r.dead || r.blocked {
		return true
	}
	for {
		select {
		case res := <-r.results:
			r.got = append(r.got, res)
			if res.err != nil || res.pan != "" {
				r.dead = true
				return true
			}
		case n := <-r.feed.req:
			r.blocked, r.reqLen = true, n
			// a result sent before this read request is already buffered: take it now
			for {
				select {
				case res := <-r.results:
					r.got = append(r.got, res)
					continue
				default:
				}
				break
			}
			return true
		case <-time.After(5 * time.Second):
			return false
		}
	}
}

func (r *nbtRun) finish() {
	for !r.dead {
		if !r.quiesce() {
			return
		}
		if r.blocked {
			r.blocked = false
			r.feed.grants <- grant{eof: true}
		}
	}
}

func (r *nbtRun) sample() map[string]interface{} { return map[string]interface{}{"history": r.history} }

func lenClass(n int) string {
	switch {
	case n > 0x1FFFF:
		return "len>0x1FFFF"
	case n > 0xFFFF:
		return "len>0xFFFF"
	}
	return "len<=0xFFFF"
}

// step executes one model edge on the real transports and compares with the model's post-state.
func (r *nbtRun) step(e *nbtEdge) bool {
	c := r.c
	r.history = append(r.history, fmt.Sprintf("%s(%d)", e.Op, e.A))
	switch e.Op {
	case "send":
		payload := nbtPayload(e.F.Calls, e.A)
		before := r.cap.buf.Len()
		var n int
		var err error
		pan := h.Guard(func() { n, err = r.snd.Send(payload) })
		_ = n
		wrote := r.cap.buf.Bytes()[before:]
		if pan != "" {
			c.Fail("nbt.NBTTransport.Send", "panic", pan, r.sample())
			return false
		}
		if e.Res == "refused" {
			if err == nil {
				c.Fail("nbt.NBTTransport.Send", "refusal:"+lenClass(e.A), fmt.Sprintf("payload of %d bytes cannot be framed (17-bit length) but Send reported success and wrote %d bytes (header % x)", e.A, len(wrote), wrote[:min(4, len(wrote))]), r.sample())
			} else if len(wrote) != 0 {
				c.Fail("nbt.NBTTransport.Send", "refused-but-wrote", fmt.Sprintf("refused payload of %d bytes yet %d bytes reached the stream", e.A, len(wrote)), r.sample())
			}
			return true
		}
		want := append(append([]byte{}, e.Hdr...), payload...)
		if err != nil {
			c.Fail("nbt.NBTTransport.Send", "error:"+lenClass(e.A), fmt.Sprintf("payload of %d bytes is framable but Send failed: %v", e.A, err), r.sample())
		} else if !bytes.Equal(wrote, want) {
			if len(wrote) >= 4 && !bytes.Equal(wrote[:4], want[:4]) {
				c.Fail("nbt.NBTTransport.Send", "header:"+lenClass(e.A), fmt.Sprintf("payload of %d bytes: RFC 1002 header % x, code wrote % x", e.A, want[:4], wrote[:4]), r.sample())
			} else {
				c.Fail("nbt.NBTTransport.Send", "bytes:"+lenClass(e.A), fmt.Sprintf("payload of %d bytes: stream bytes differ from header+payload (wrote %d bytes, want %d)", e.A, len(wrote), len(want)), r.sample())
			}
		}
		// the receiver is always fed the reference framing (independent sender -> library receiver)
		r.feed.mu.Lock()
		r.feed.data = append(r.feed.data, want...)
		r.feed.mu.Unlock()
		r.frames = append(r.frames, payload)
		return true
	case "cut":
		return true // only the schedule changes: no more than `limit` bytes will ever be granted
	case "read", "eof":
		if !r.quiesce() {
			c.Fail("nbt.NBTTransport.Receive", "hang", "receiver neither reads nor returns", r.sample())
			return false
		}
		if r.dead {
			c.Fail("nbt.NBTTransport.Receive", "ended-early", fmt.Sprintf("model expects the receiver to be reading (op %s) but Receive already returned: %v", e.Op, r.got[len(r.got)-1].err), r.sample())
			return false
		}
		r.blocked = false
		if e.Op == "eof" {
			r.feed.grants <- grant{eof: true}
		} else {
			r.feed.grants <- grant{n: e.A}
		}
		if !r.quiesce() {
			c.Fail("nbt.NBTTransport.Receive", "hang", "receiver neither reads nor returns", r.sample())
			return false
		}
		return r.compare(e)
	}
	return true
}

func (r *nbtRun) compare(e *nbtEdge) bool {
	c := r.c
	ok := true
	r.feed.mu.Lock()
	consumed := r.feed.pos
	r.feed.mu.Unlock()
	// payload results so far
	var pay []rxResult
	var errs []rxResult
	for _, g := range r.got {
		if g.pan != "" {
			c.Fail("nbt.NBTTransport.Receive", "panic", g.pan, r.sample())
			return false
		}
		if g.err != nil {
			errs = append(errs, g)
		} else {
			pay = append(pay, g)
		}
	}
	for i, g := range pay {
		if i >= len(r.frames) || i >= len(e.T.Delivered) {
			cls := "fabricated-frame"
			if e.T.Rxerr || e.T.Limit >= 0 {
				cls = "partial-frame"
			}
			c.Fail("nbt.NBTTransport.Receive", cls, fmt.Sprintf("Receive returned a %d-byte message #%d; the model has delivered %d frames (stream consumed %d bytes)", len(g.data), i+1, len(e.T.Delivered), consumed), r.sample())
			return false
		}
		if !bytes.Equal(g.data, r.frames[i]) {
			c.Fail("nbt.NBTTransport.Receive", "payload:"+lenClass(len(r.frames[i])), fmt.Sprintf("frame %d: sent %d bytes, received %d bytes (equal prefix %d)", i+1, len(r.frames[i]), len(g.data), commonPrefix(g.data, r.frames[i])), r.sample())
			return false
		}
	}
	if len(pay) != len(e.T.Delivered) {
		c.Fail("nbt.NBTTransport.Receive", "missing-frame", fmt.Sprintf("model delivered %d frames, code %d (stream consumed %d of %d)", len(e.T.Delivered), len(pay), consumed, e.T.Consumed), r.sample())
		ok = false
	}
	if e.T.Rxerr != (len(errs) > 0) {
		c.Fail("nbt.NBTTransport.Receive", "error-on-cut", fmt.Sprintf("model rxerr=%v, code returned %d errors", e.T.Rxerr, len(errs)), r.sample())
		ok = false
	}
	if consumed != e.T.Consumed {
		c.Fail("nbt.NBTTransport.Receive", "consumed", fmt.Sprintf("model consumed %d stream bytes, code %d", e.T.Consumed, consumed), r.sample())
		ok = false
	}
	return ok
}

func commonPrefix(a, b []byte) int {
	n := 0
	for n < len(a) && n < len(b) && a[n] == b[n] {
		n++
	}
	return n
}

func c11Graph(c *h.Ctx) error {
	ids := map[string]int{}
	var states []nbtState
	id := func(s nbtState) int {
		if s.Sent == nil {
			s.Sent = []int{}
		}
		if s.Delivered == nil {
			s.Delivered = []int{}
		}
		k := s.key()
		if i, ok := ids[k]; ok {
			return i
		}
		ids[k] = len(states)
		states = append(states, s)
		return len(states) - 1
	}
	var edges []*nbtEdge
	if err := c.Lines(func(raw []byte) error {
		e := &nbtEdge{}
		if err := json.Unmarshal(raw, e); err != nil {
			return err
		}
		e.fi, e.ti = id(e.F), id(e.T)
		edges = append(edges, e)
		return nil
	}); err != nil {
		return err
	}
	if len(edges) == 0 {
		return fmt.Errorf("no edges")
	}
	init := id(nbtState{Sent: []int{}, Delivered: []int{}, Limit: -1})
	out := make([][]int, len(states))
	for i, e := range edges {
		out[e.fi] = append(out[e.fi], i)
	}
	parent := make([]int, len(states))
	for i := range parent {
		parent[i] = -2
	}
	parent[init] = -1
	q := []int{init}
	for len(q) > 0 {
		s := q[0]
		q = q[1:]
		for _, ei := range out[s] {
			if t := edges[ei].ti; parent[t] == -2 {
				parent[t] = ei
				q = append(q, t)
			}
		}
	}
	pathTo := func(s int) []int {
		var p []int
		for s != init {
			ei := parent[s]
			if ei < 0 {
				return nil
			}
			p = append(p, ei)
			s = edges[ei].fi
		}
		sort.SliceStable(p, func(i, j int) bool { return false })
		for i, j := 0, len(p)-1; i < j; i, j = i+1, j-1 {
			p[i], p[j] = p[j], p[i]
		}
		return p
	}
	stride := c.OptInt("stride", 1)
	var wg sync.WaitGroup
	ch := make(chan int, 256)
	for w := 0; w < runtime.NumCPU(); w++ {
		wg.Add(1)
		go func() {
			defer wg.Done()
			for ei := range ch {
				e := edges[ei]
				run := newNbtRun(c)
				okSoFar := true
				for _, pi := range pathTo(e.fi) {
					if !run.step(edges[pi]) {
						okSoFar = false
						break
					}
					c.Exec(1)
				}
				if okSoFar {
					run.step(e)
					c.Exec(1)
				}
				run.finish()
			}
		}()
	}
	maxLen := 0
	for ei, e := range edges {
		if parent[e.fi] == -2 {
			return fmt.Errorf("edge from unreachable state")
		}
		if stride > 1 && ei%stride != 0 && e.Op != "send" {
			continue
		}
		key := ""
		if e.Op != "cut" {
			key = strconv.Itoa(ei)
		}
		c.Case(key)
		if l := len(pathTo(e.fi)) + 1; l > maxLen {
			maxLen = l
		}
		ch <- ei
	}
	close(ch)
	wg.Wait()
	c.Set("graph_states", len(states))
	c.Set("graph_edges", len(edges))
	c.Set("max_history_len", maxLen)
	e0 := edges[len(edges)/2]
	c.Sample(map[string]interface{}{"from": e0.F, "op": e0.Op, "arg": e0.A, "result": e0.Res, "to": e0.T})
	return nil
}

// c11BigRefusals: payloads far beyond the 17-bit length (including lengths whose low 17 bits look like a small frame: 16 MiB + 5)
// must be refused with nothing written; a valid frame sent afterwards on the same transport arrives intact.
func c11BigRefusals(c *h.Ctx) error {
	big := make([]byte, 0x2000001)
	for _, n := range []int{0x20000, 0x3FFFF, 0x100000, 0x1000000, 0x1000005, 0x101FFFF, 0x2000001} {
		ln, err := net.Listen("tcp", "127.0.0.1:0")
		if err != nil {
			return err
		}
		acc := make(chan net.Conn, 1)
		go func() { cn, _ := ln.Accept(); acc <- cn }()
		tr := nbt.NewNBTTransport()
		if err := tr.Connect(net.IPv4(127, 0, 0, 1), ln.Addr().(*net.TCPAddr).Port); err != nil {
			c.Fail("nbt.NBTTransport.Connect", "connect-error", fmt.Sprintf("Connect to a listening loopback port failed: %v", err), nil)
			return nil
		}
		peer := <-acc
		ln.Close()
		if peer == nil {
			return fmt.Errorf("accept failed")
		}
		got := make(chan []byte, 1)
		go func() { // the peer keeps everything that arrives (so that a mis-framing Send cannot block on a full socket)
			var all []byte
			buf := make([]byte, 1<<16)
			for {
				peer.SetReadDeadline(time.Now().Add(400 * time.Millisecond))
				k, err := peer.Read(buf)
				if len(all) < 64 {
					all = append(all, buf[:min(k, 64-len(all))]...)
				}
				if err != nil {
					got <- all
					return
				}
			}
		}()
		var serr error
		sent := make(chan struct{})
		go func() { _, serr = tr.Send(big[:n]); close(sent) }()
		select {
		case <-sent:
		case <-time.After(10 * time.Second):
			c.Fail("nbt.NBTTransport.Send", "refusal:hang", fmt.Sprintf("Send of %d bytes did not return", n), map[string]interface{}{"payload_len": n})
			peer.Close()
			continue
		}
		arrived := <-got
		c.Exec(1)
		if serr == nil || len(arrived) > 0 {
			c.Fail("nbt.NBTTransport.Send", "refusal:"+lenClass(n), fmt.Sprintf("payload of %d bytes (%#x) cannot be framed by a 17-bit length but Send returned %v and the peer received bytes starting % x", n, n, serr, arrived[:min(8, len(arrived))]),
				map[string]interface{}{"payload_len": n})
		}
		peer.Close()
	}
	return nil
}

// ---------------------------------------------------------------------------
// c11.tcp: real loopback TCP sessions through NBTTransport.Connect, recorded for TLC (TraceNBT.tla).

func init() { h.Register("c11.tcp", c11TCP) }

func c11TCP(c *h.Ctx) error {
	sessions := c.OptInt("sessions", 6)
	seed := c.OptInt("seed", 1)
	rnd := uint32(seed*2654435761 + 12345)
	next := func(n int) int { rnd = rnd*1664525 + 1013904223; return int(rnd>>8) % n }
	lens := []int{0, 1, 2, 100, 1460, 65535, 65536, 65537, 100000, 131070, 131071}
	emit := func(m map[string]interface{}) { b, _ := json.Marshal(m); c.Emit(b) }
	events := 0
	if err := c11BigRefusals(c); err != nil {
		return err
	}
	c11ReconnectAfterCut(c)
	c11ConcurrentSenders(c)
	for s := 0; s < sessions; s++ {
		ln, err := net.Listen("tcp", "127.0.0.1:0")
		if err != nil {
			return err
		}
		port := ln.Addr().(*net.TCPAddr).Port
		acc := make(chan net.Conn, 1)
		go func() { cn, _ := ln.Accept(); acc <- cn }()
		tr := nbt.NewNBTTransport()
		if err := tr.Connect(net.IPv4(127, 0, 0, 1), port); err != nil {
			c.Fail("nbt.NBTTransport.Connect", "connect-error", fmt.Sprintf("Connect to a listening loopback port failed: %v", err), nil)
			return nil
		}
		peer := <-acc
		ln.Close()
		if peer == nil {
			return fmt.Errorf("accept failed")
		}
		emit(map[string]interface{}{"op": "reset"})
		if s%2 == 0 {
			// direction A: the library sends, the peer parses the stream independently
			nf := 2 + next(4)
			for i := 0; i < nf; i++ {
				n := lens[next(len(lens))]
				if next(6) == 0 {
					n = 131072 + next(3)
				}
				payload := nbtPayload(i, n)
				done := make(chan []byte, 1)
				go func() { // peer reads header + as many bytes as were framed by a 17-bit length
					hdr := make([]byte, 4)
					peer.SetReadDeadline(time.Now().Add(3 * time.Second))
					if _, err := io.ReadFull(peer, hdr); err != nil {
						done <- nil
						return
					}
					l := int(hdr[1]&1)<<16 | int(hdr[2])<<8 | int(hdr[3])
					body := make([]byte, l)
					io.ReadFull(peer, body)
					done <- append(hdr, body...)
				}()
				_, err := tr.Send(payload)
				if n > 0x1FFFF && err != nil {
					peer.SetReadDeadline(time.Now()) // nothing will come
					<-done
					emit(map[string]interface{}{"op": "send", "n": n, "res": "refused", "hdr": []int{}})
				} else {
					got := <-done
					hdr := []int{}
					if len(got) >= 4 {
						hdr = []int{int(got[0]), int(got[1]), int(got[2]), int(got[3])}
						if !bytes.Equal(got[4:], payload) {
							c.Fail("nbt.NBTTransport.Send", "tcp-payload:"+lenClass(n), fmt.Sprintf("peer parsed %d payload bytes for a %d-byte Send", len(got)-4, n), nil)
						}
					}
					res := "ok"
					if err != nil {
						res = "refused"
					}
					emit(map[string]interface{}{"op": "send", "n": n, "res": res, "hdr": hdr})
				}
				events++
			}
		} else {
			// direction B: the peer sends frames in arbitrary write chunks, possibly cutting inside a frame
			nf := 2 + next(4)
			var stream []byte
			var frames [][]byte
			for i := 0; i < nf; i++ {
				n := lens[next(len(lens))]
				p := nbtPayload(i, n)
				hdr := []byte{0, byte(n >> 16 & 1), byte(n >> 8), byte(n)}
				stream = append(stream, hdr...)
				stream = append(stream, p...)
				frames = append(frames, p)
				emit(map[string]interface{}{"op": "peer-send", "n": n, "hdr": []int{int(hdr[0]), int(hdr[1]), int(hdr[2]), int(hdr[3])}})
				events++
			}
			cutAt := len(stream)
			if next(3) > 0 {
				cutAt = next(len(stream) + 1)
			}
			emit(map[string]interface{}{"op": "cut", "at": cutAt})
			go func() {
				pos := 0
				for pos < cutAt {
					k := 1 + next(70000)
					if pos+k > cutAt {
						k = cutAt - pos
					}
					peer.Write(stream[pos : pos+k])
					pos += k
				}
				peer.Close()
			}()
			for k := 1; ; k++ {
				var b []byte
				var err error
				pan := h.Guard(func() { b, err = tr.Receive() })
				events++
				if pan != "" {
					c.Fail("nbt.NBTTransport.Receive", "panic", pan, nil)
					break
				}
				if err != nil {
					emit(map[string]interface{}{"op": "recv-error"})
					break
				}
				eq := k <= len(frames) && bytes.Equal(b, frames[k-1])
				emit(map[string]interface{}{"op": "recv", "k": k, "len": len(b), "equal": eq})
				if k > len(frames)+2 {
					break
				}
			}
		}
		tr.Close()
		peer.Close()
		c.Case(strconv.Itoa(s))
	}
	c.Exec(events)
	c.Set("events", events)
	return nil
}

// streamConn: a net.Conn whose peer sent `data` and then closed.
type streamConn struct {
	captureConn
	r *bytes.Reader
}

func (s *streamConn) Read(p []byte) (int, error) { return s.r.Read(p) }

// c11ReconnectAfterCut: one NBTTransport object outlives its connection. The first stream ends inside a frame (every cut
// offset of a short frame: in the header, in the body); Receive reports an error. The object is then given a new connection
// (as Connect does after a Close) that carries two whole frames: they are received intact -- nothing of the cut frame
// survives in the object.
func c11ReconnectAfterCut(c *h.Ctx) {
	frame := func(p []byte) []byte {
		return append([]byte{0, 0, byte(len(p) >> 8), byte(len(p))}, p...)
	}
	first := frame([]byte("AAAAAAAAAA"))
	m1, m2 := []byte("hello"), []byte("world!!")
	second := append(frame(m1), frame(m2)...)
	for cut := 1; cut < len(first); cut++ {
		c.Case(fmt.Sprintf("reconnect-after-cut:%d", cut))
		smp := map[string]interface{}{"first_stream_hex": h.Hex(first[:cut]), "second_stream_hex": h.Hex(second)}
		t := nbt.NewNBTTransport()
		t.VerifSetConn(&streamConn{r: bytes.NewReader(first[:cut])})
		var got []byte
		var err error
		if p := h.Guard(func() { got, err = t.Receive() }); p != "" {
			c.Fail("nbt.NBTTransport.Receive", "panic", p, smp)
			continue
		}
		c.Exec(1)
		if err == nil {
			c.Fail("nbt.NBTTransport.Receive", "partial-frame", fmt.Sprintf("stream cut after %d of %d bytes of a frame: Receive returned %q without error", cut, len(first), got), smp)
			continue
		}
		t.Close()
		t.VerifSetConn(&streamConn{r: bytes.NewReader(second)})
		for i, want := range [][]byte{m1, m2} {
			if p := h.Guard(func() { got, err = t.Receive() }); p != "" {
				c.Fail("nbt.NBTTransport.Receive", "panic", p, smp)
				break
			}
			c.Exec(1)
			if err != nil || !bytes.Equal(got, want) {
				c.Fail("nbt.NBTTransport.Receive", "fabricated-frame:after-reconnect", fmt.Sprintf("the previous connection of this object ended %d bytes into a frame; on the new connection message #%d is %q (%v), sent was %q", cut, i+1, got, err, want), smp)
				break
			}
		}
	}
}

// yieldConn records what is written, one Write call at a time (as a TCP connection delivers it: the bytes of one Write are
// contiguous on the wire), and gives other goroutines a chance to run after every call.
type yieldConn struct {
	captureConn
	mu sync.Mutex
}

func (y *yieldConn) Write(p []byte) (int, error) {
	y.mu.Lock()
	n, err := y.buf.Write(p)
	y.mu.Unlock()
	time.Sleep(200 * time.Microsecond)
	return n, err
}

// c11ConcurrentSenders: several goroutines send on ONE transport (a client with more than one request in flight). Whatever the
// schedule, the peer receives exactly the payloads that were sent, each once and each whole: a frame is one unit on the wire.
func c11ConcurrentSenders(c *h.Ctx) {
	sizes := []int{100, 20000, 5, 70000, 16385, 131071, 0, 16384}
	const senders = 4
	c.Case("concurrent-senders")
	conn := &yieldConn{}
	t := nbt.NewNBTTransport()
	t.VerifSetConn(conn)
	want := map[string]int{}
	var wmu sync.Mutex
	var wg sync.WaitGroup
	for g := 0; g < senders; g++ {
		wg.Add(1)
		go func(g int) {
			defer wg.Done()
			for i, n := range sizes {
				p := make([]byte, n)
				for j := range p {
					p[j] = byte(0x40 + g*16 + i)
				}
				if _, err := t.Send(p); err != nil {
					continue
				}
				wmu.Lock()
				want[fmt.Sprintf("%d:%d:%d", g, i, n)]++
				wmu.Unlock()
			}
		}(g)
	}
	wg.Wait()
	c.Exec(senders * len(sizes))
	// the peer: a fresh transport reading the recorded stream
	rx := nbt.NewNBTTransport()
	rx.VerifSetConn(&streamConn{r: bytes.NewReader(conn.buf.Bytes())})
	smp := map[string]interface{}{"senders": senders, "payload_sizes": sizes, "stream_bytes": conn.buf.Len()}
	for k := 0; k < senders*len(sizes); k++ {
		var got []byte
		var err error
		if p := h.Guard(func() { got, err = rx.Receive() }); p != "" || err != nil {
			c.Fail("nbt.NBTTransport.Send", "concurrent-senders:stream-not-framed", fmt.Sprintf("after %d messages the peer cannot read the next frame from what %d concurrent senders wrote: %v %s", k, senders, err, p), smp)
			return
		}
		key := "?"
		if len(got) == 0 {
			// two senders have an empty payload each; any of them
			for g := 0; g < senders; g++ {
				if want[fmt.Sprintf("%d:6:0", g)] > 0 {
					key = fmt.Sprintf("%d:6:0", g)
					break
				}
			}
		} else {
			g, i := int(got[0]-0x40)/16, int(got[0]-0x40)%16
			key = fmt.Sprintf("%d:%d:%d", g, i, len(got))
			for _, b := range got {
				if b != got[0] {
					key = "mixed"
					break
				}
			}
		}
		if want[key] == 0 {
			c.Fail("nbt.NBTTransport.Send", "concurrent-senders:fabricated-frame", fmt.Sprintf("message #%d received by the peer (%d bytes, first bytes %x) is not a payload one of the %d concurrent senders sent", k+1, len(got), got[:min(len(got), 8)], senders), smp)
			return
		}
		want[key]--
	}
}
