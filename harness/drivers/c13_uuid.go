package drivers

// C13: UUID / GUID text and binary forms, bound to spec/GUID.tla (MS-DTYP 2.3.4), spec/UUID.tla (RFC 4122, DCE),
// spec/C13Cases.tla and spec/TraceUUID.tla.
//
//   c13.cases   model -> code: every case TLC enumerated (128-bit patterns, field assignments) is executed on
//               windows/guid and crypto/uuid{,_v1,_v2,_v8}; binary layout, fields, every text format in every
//               letter case, every cross-format pair and every round trip are compared with the specification's values.
//   c13.record  code -> model: full-range random 128-bit values and texts are pushed through the real functions,
//               one ndjson line per call (input + what the code returned); TLC (TraceUUID.tla) recomputes each.
//
// P = implied by the property statement (Fail), D = model detail (Drift).

import (
	"bytes"
	"encoding/json"
	"fmt"
	"math/rand"
	"strconv"
	"strings"

	"github.com/TheManticoreProject/Manticore/crypto/uuid"
	"github.com/TheManticoreProject/Manticore/crypto/uuid/uuid_v1"
	"github.com/TheManticoreProject/Manticore/crypto/uuid/uuid_v2"
	"github.com/TheManticoreProject/Manticore/crypto/uuid/uuid_v8"
	"github.com/TheManticoreProject/Manticore/windows/guid"
	"github.com/TheManticoreProject/Manticore/windows/ms_dtyp/common/data_structures"
	"verif/harness/h"
)

func init() {
	h.Register("c13.cases", c13Cases)
	h.Register("c13.record", c13Record)
}

type c13Text struct {
	Fmt  string `json:"fmt"`
	Mode int    `json:"mode"`
	T    []int  `json:"t"`
}

type c13Case struct {
	K       string           `json:"k"`
	W       h.Bytes          `json:"w"`
	F       map[string][]int `json:"f"`
	TV      []c13Text        `json:"tv"`
	B       h.Bytes          `json:"b"`
	T       []int            `json:"t"`
	Ver     int              `json:"ver"`
	Varn    int              `json:"varn"`
	Data    h.Bytes          `json:"data"`
	Variant string           `json:"variant"`
	TS      []int            `json:"ts"`
	CS      int              `json:"cs"`
	Node    h.Bytes          `json:"node"`
	Lid     []int            `json:"lid"`
	Thm     []int            `json:"thm"`
	Clk     int              `json:"clk"`
	Dom     int              `json:"dom"`
}

func c13Str(codes []int) string {
	b := make([]byte, len(codes))
	for i, x := range codes {
		b[i] = byte(x)
	}
	return string(b)
}

func c13Codes(s string) []int {
	out := make([]int, len(s))
	for i := 0; i < len(s); i++ {
		out[i] = int(s[i])
	}
	return out
}

// nibble sequence -> lower-case hex digits
func c13Hex(ns []int) string {
	const d = "0123456789abcdef"
	b := make([]byte, len(ns))
	for i, x := range ns {
		b[i] = d[x&15]
	}
	return string(b)
}

func c13Nibs(hexs string) []int {
	out := make([]int, len(hexs))
	for i := 0; i < len(hexs); i++ {
		v, _ := strconv.ParseUint(hexs[i:i+1], 16, 8)
		out[i] = int(v)
	}
	return out
}

func c13U64(ns []int) uint64 {
	var v uint64
	for _, x := range ns {
		v = v<<4 | uint64(x&15)
	}
	return v
}

var c13Formats = []string{"N", "D", "B", "P", "X"}

func c13Format(g *guid.GUID, f string) string {
	switch f {
	case "N":
		return g.ToFormatN()
	case "D":
		return g.ToFormatD()
	case "B":
		return g.ToFormatB()
	case "P":
		return g.ToFormatP()
	}
	return g.ToFormatX()
}

// c13NearMisses: one-edit corruptions of a valid GUID text (a non-hex letter in the first, a middle and the last hex position,
// a sign, an embedded blank, a missing and an extra trailing digit).
func c13NearMisses(txt string) []string {
	var hexAt []int
	for i := 0; i < len(txt); i++ {
		ch := txt[i]
		if (ch >= '0' && ch <= '9') || (ch >= 'a' && ch <= 'f') || (ch >= 'A' && ch <= 'F') {
			if !(ch == '0' && i+1 < len(txt) && (txt[i+1] == 'x' || txt[i+1] == 'X')) {
				hexAt = append(hexAt, i)
			}
		}
	}
	if len(hexAt) < 8 {
		return nil
	}
	rep := func(i int, b byte) string { return txt[:i] + string(b) + txt[i+1:] }
	first, mid, last := hexAt[0], hexAt[len(hexAt)/2], hexAt[len(hexAt)-1]
	return []string{rep(last, 'g'), rep(mid, 'G'), rep(first, 'z'), rep(first, '-'), rep(mid, ' '), txt[:last] + txt[last+1:], txt[:last+1] + "0" + txt[last+1:]}
}

func c13Parse(f, s string) (*guid.GUID, error) {
	switch f {
	case "N":
		return guid.FromFormatN(s)
	case "D":
		return guid.FromFormatD(s)
	case "B":
		return guid.FromFormatB(s)
	case "P":
		return guid.FromFormatP(s)
	}
	return guid.FromFormatX(s)
}

// the five fields of a guid.GUID as lower-case hex of the declared widths
var c13ReusedGUID data_structures.GUID

func c13GuidFields(g *guid.GUID) map[string]string {
	return map[string]string{"a": fmt.Sprintf("%08x", g.A), "b": fmt.Sprintf("%04x", g.B), "c": fmt.Sprintf("%04x", g.C),
		"d": fmt.Sprintf("%04x", g.D), "e": fmt.Sprintf("%012x", g.E)}
}

var c13FieldNames = []string{"a", "b", "c", "d", "e"}

// region of the MS-DTYP packet a byte index belongs to
func c13WireRegion(a, b []byte) string {
	if len(a) != len(b) {
		return "length"
	}
	for i := range a {
		if a[i] != b[i] {
			switch {
			case i < 4:
				return "A"
			case i < 6:
				return "B"
			case i < 8:
				return "C"
			case i < 10:
				return "D"
			default:
				return "E"
			}
		}
	}
	return ""
}

func c13GuidCase(c *h.Ctx, k *c13Case) {
	want := map[string]string{}
	for _, n := range c13FieldNames {
		want[n] = c13Hex(k.F[n])
	}
	canon := want["a"] + want["b"] + want["c"] + want["d"] + want["e"]
	c.Case("guid:" + canon)
	smp := map[string]interface{}{"guid": canon, "wire_hex": h.Hex(k.W)}
	lower := map[string]string{}
	for _, tv := range k.TV {
		lower[tv.Fmt] = strings.ToLower(c13Str(tv.T))
	}
	// (1) MS-DTYP packet -> fields
	g := &data_structures.GUID{} // = guid.GUID (alias declared in windows/ms_dtyp)
	if p := h.Guard(func() { g.FromRawBytes(k.W) }); p != "" {
		c.Fail("guid.GUID.FromRawBytes", "panic", p, smp)
	} else {
		got := c13GuidFields(g)
		for _, n := range c13FieldNames {
			if got[n] != want[n] {
				c.Fail("guid.GUID.FromRawBytes", "layout:"+strings.ToUpper(n), fmt.Sprintf("wire %x: spec %s=%s code %s", []byte(k.W), n, want[n], got[n]), smp)
			}
		}
		if back := g.ToBytes(); !bytes.Equal(back, k.W) {
			c.Fail("guid.GUID.ToBytes", "roundtrip:bytes", fmt.Sprintf("FromRawBytes(%x).ToBytes() = %x", []byte(k.W), back), smp)
		}
		// the same packet parsed into a receiver that already holds the previous case's value: every field is assigned
		// the 16 octets of a GUID seldom arrive alone: a GUID at the head of a longer buffer (`g.FromRawBytes(buf[off:])`, a TLV
		// value followed by the next entry) is the same GUID -- or is refused; it is never another value
		for _, extra := range [][]byte{{0xAA}, {0xAA, 0xBB, 0xCC}, {0, 0, 0, 0, 0, 0, 0, 1}} {
			var gl guid.GUID
			long := append(append([]byte(nil), k.W...), extra...)
			if p := h.Guard(func() { gl.FromRawBytes(long) }); p != "" {
				c.Fail("guid.GUID.FromRawBytes", "panic", p, smp)
				break
			}
			c.Exec(1)
			if lf := c13GuidFields(&gl); fmt.Sprint(lf) != fmt.Sprint(got) && fmt.Sprint(lf) != fmt.Sprint(c13GuidFields(&guid.GUID{})) {
				c.Fail("guid.GUID.FromRawBytes", "trailing-bytes-change-the-value", fmt.Sprintf("wire %x followed by %x parses to %v; the 16 octets alone to %v", []byte(k.W), extra, lf, got), smp)
				break
			}
		}
		h.Guard(func() { c13ReusedGUID.FromRawBytes(k.W) })
		if rg := c13GuidFields(&c13ReusedGUID); fmt.Sprint(rg) != fmt.Sprint(got) {
			c.Fail("guid.GUID.FromRawBytes", "reused-receiver", fmt.Sprintf("wire %x parsed into a GUID that held another value: %v, into a fresh one: %v", []byte(k.W), rg, got), smp)
		}
		c.ReusedInput("guid.GUID.FromRawBytes", k.W, func(b []byte) string {
			x := &data_structures.GUID{}
			h.Guard(func() { x.FromRawBytes(b) })
			return fmt.Sprint(c13GuidFields(x))
		}, h.Hex(k.W))
	}
	c.Exec(2)
	// (2) fields -> packet, fields -> every text
	gf := &guid.GUID{A: uint32(c13U64(k.F["a"])), B: uint16(c13U64(k.F["b"])), C: uint16(c13U64(k.F["c"])), D: uint16(c13U64(k.F["d"])), E: c13U64(k.F["e"])}
	wOut := gf.ToBytes()
	c.Retain("guid.GUID.ToBytes", wOut, smp)
	if w := wOut; !bytes.Equal(w, k.W) {
		c.Fail("guid.GUID.ToBytes", "layout:"+c13WireRegion(w, k.W), fmt.Sprintf("%s: spec %x code %x", canon, []byte(k.W), w), smp)
	}
	c.Exec(1)
	for _, f := range c13Formats {
		if lower[f] == "" {
			continue
		}
		out := c13Format(gf, f)
		c.Exec(1)
		if !strings.EqualFold(out, lower[f]) {
			c.Fail("guid.GUID.ToFormat"+f, "text", fmt.Sprintf("spec %q code %q", lower[f], out), smp)
		}
	}
	// (3) every text (format x letter case) -> fields; then every cross-format pair
	for _, tv := range k.TV {
		txt := c13Str(tv.T)
		tsmp := map[string]interface{}{"guid": canon, "format": tv.Fmt, "text": txt}
		// near misses of this text: "for every value a parser accepts, formatting it again reproduces the input" -- a
		// malformed text is either refused or, if the parser takes it, comes back unchanged (case-insensitively)
		for _, bad := range c13NearMisses(txt) {
			for _, via := range []string{"FromFormat" + tv.Fmt, "FromString"} {
				var pg *guid.GUID
				var err error
				if p := h.Guard(func() {
					if via == "FromString" {
						pg, err = guid.FromString(bad)
					} else {
						pg, err = c13Parse(tv.Fmt, bad)
					}
				}); p != "" || err != nil || pg == nil {
					continue // refused (a panic is C07's business)
				}
				c.Exec(1)
				back := ""
				for _, f2 := range c13Formats {
					if out := c13Format(pg, f2); strings.EqualFold(out, bad) {
						back = out
					}
				}
				if back == "" {
					c.Fail("guid."+via, "accepts-malformed-text", fmt.Sprintf("%q is accepted without error but no format of the parsed value reproduces it (format %s gives %q)", bad, tv.Fmt, c13Format(pg, tv.Fmt)),
						map[string]interface{}{"guid": canon, "format": tv.Fmt, "malformed_text": bad})
				}
			}
		}
		for _, via := range []string{"FromFormat" + tv.Fmt, "FromString"} {
			site, pre := "guid."+via, ""
			if via == "FromString" {
				pre = "format-" + tv.Fmt + ":"
			}
			var pg *guid.GUID
			var err error
			if p := h.Guard(func() {
				if via == "FromString" {
					pg, err = guid.FromString(txt)
				} else {
					pg, err = c13Parse(tv.Fmt, txt)
				}
			}); p != "" {
				c.Fail(site, pre+"panic", p, tsmp)
				continue
			}
			c.Exec(1)
			if err != nil || pg == nil {
				c.Fail(site, pre+"rejects-valid", fmt.Sprintf("%q: %v", txt, err), tsmp)
				continue
			}
			got := c13GuidFields(pg)
			okAll := true
			for _, n := range c13FieldNames {
				if got[n] != want[n] {
					okAll = false
					c.Fail(site, pre+"fields:"+strings.ToUpper(n), fmt.Sprintf("%q: spec %s=%s code %s", txt, n, want[n], got[n]), tsmp)
				}
			}
			if !okAll {
				continue
			}
			for _, f2 := range c13Formats {
				if lower[f2] == "" {
					continue
				}
				out := c13Format(pg, f2)
				c.Exec(1)
				if !strings.EqualFold(out, lower[f2]) {
					c.Fail("guid.GUID.ToFormat"+f2, "reformat:from-"+tv.Fmt, fmt.Sprintf("%s(%q) then ToFormat%s: spec %q code %q", via, txt, f2, lower[f2], out), tsmp)
				}
			}
			if w := pg.ToBytes(); !bytes.Equal(w, k.W) {
				c.Fail("guid.GUID.ToBytes", "layout-after-parse:"+c13WireRegion(w, k.W), fmt.Sprintf("%s(%q).ToBytes(): spec %x code %x", via, txt, []byte(k.W), w), tsmp)
			}
		}
	}
	c.Sample(map[string]interface{}{"kind": "guid", "wire_hex": h.Hex(k.W), "B": lower["B"], "X": lower["X"]})
}

// what the four UUID types have in common
type c13UUID interface {
	Marshal() ([]byte, error)
	Unmarshal([]byte) (int, error)
	FromString(string) error
	String() string
}

func c13New(kind string) c13UUID {
	switch kind {
	case "v1":
		return &uuid_v1.UUIDv1{}
	case "v2":
		return &uuid_v2.UUIDv2{}
	case "v8":
		return &uuid_v8.UUIDv8{}
	}
	return &uuid.UUID{}
}

var c13Type = map[string]string{"uuid": "uuid.UUID", "v1": "uuid_v1.UUIDv1", "v2": "uuid_v2.UUIDv2", "v8": "uuid_v8.UUIDv8"}

// binary and text round trips common to all types; returns the unmarshalled object (nil if rejected)
func c13Common(c *h.Ctx, k *c13Case, smp map[string]interface{}) c13UUID {
	typ := c13Type[k.K]
	u := c13New(k.K)
	var n int
	var err error
	if p := h.Guard(func() { n, err = u.Unmarshal(k.B) }); p != "" {
		c.Fail(typ+".Unmarshal", "panic", p, smp)
		return nil
	}
	c.Exec(1)
	if err == nil {
		c.ReusedInput(typ+".Unmarshal", k.B, func(b []byte) (r string) {
			x := c13New(k.K)
			h.Guard(func() {
				if _, e := x.Unmarshal(b); e != nil {
					r = "error"
					return
				}
				r = x.String()
			})
			return r
		}, smp)
	}
	if err != nil {
		// "for every 128-bit value a parser accepts": a rejection puts the value outside the domain
		c.Drift(typ+".Unmarshal", "rejects-own-version", fmt.Sprintf("%x: %v", []byte(k.B), err), smp)
		return nil
	}
	if n != 16 {
		c.Drift(typ+".Unmarshal", "consumed", fmt.Sprintf("returned %d", n), smp)
	}
	m, err := u.Marshal()
	c.Exec(1)
	c.Retain(typ+".Marshal", m, smp)
	if err != nil || !bytes.Equal(m, k.B) {
		c.Fail(typ+".Marshal", "roundtrip:bytes", fmt.Sprintf("Unmarshal(%x) then Marshal = %x (%v)", []byte(k.B), m, err), smp)
	}
	var lower string
	for _, tv := range k.TV {
		lower = strings.ToLower(c13Str(tv.T))
	}
	if s := u.String(); !strings.EqualFold(s, lower) {
		c.Fail(typ+".String", "text", fmt.Sprintf("%x: spec %q code %q", []byte(k.B), lower, s), smp)
	}
	c.Exec(1)
	for _, tv := range k.TV {
		txt := c13Str(tv.T)
		u2 := c13New(k.K)
		var err error
		if p := h.Guard(func() { err = u2.FromString(txt) }); p != "" {
			c.Fail(typ+".FromString", "panic", p, smp)
			continue
		}
		c.Exec(1)
		if err != nil {
			c.Fail(typ+".FromString", "rejects-valid", fmt.Sprintf("%q: %v", txt, err), smp)
			continue
		}
		m2, _ := u2.Marshal()
		if !bytes.Equal(m2, k.B) {
			c.Fail(typ+".FromString", "roundtrip:text->bytes", fmt.Sprintf("FromString(%q).Marshal() = %x, spec %x", txt, m2, []byte(k.B)), smp)
		}
		if s := u2.String(); !strings.EqualFold(s, txt) {
			c.Fail(typ+".FromString", "roundtrip:text", fmt.Sprintf("FromString(%q).String() = %q", txt, s), smp)
		}
		c.Exec(2)
	}
	// P (history): one decoder object per type is REUSED from case to case (alternately through Unmarshal and
	// FromString, with String()/Marshal() read after each): what it reports must be what a fresh object reports
	r := c13Reused[k.K]
	if r == nil {
		r = c13New(k.K)
		c13Reused[k.K] = r
	}
	c13ReuseN[k.K]++
	var rerr error
	how := "Unmarshal"
	if c13ReuseN[k.K]%2 == 0 && lower != "" {
		how = "FromString"
		if p := h.Guard(func() { rerr = r.FromString(lower) }); p != "" {
			rerr = fmt.Errorf("panic: %s", p)
		}
	} else if p := h.Guard(func() { _, rerr = r.Unmarshal(k.B) }); p != "" {
		rerr = fmt.Errorf("panic: %s", p)
	}
	if rerr != nil {
		c.Fail(typ+"."+how, "reused-object:error", fmt.Sprintf("a reused object rejects what a fresh one accepts: %v", rerr), smp)
		c13Reused[k.K] = c13New(k.K)
	} else {
		rs := r.String()
		rm, _ := r.Marshal()
		c.Exec(3)
		if !strings.EqualFold(rs, lower) {
			c.Fail(typ+".String", "reused-object:text", fmt.Sprintf("after %s on a reused object: String() = %q, a fresh object gives %q", how, rs, lower), smp)
		}
		if !bytes.Equal(rm, k.B) {
			c.Fail(typ+".Marshal", "reused-object:bytes", fmt.Sprintf("after %s on a reused object: Marshal() = %x, spec %x", how, rm, []byte(k.B)), smp)
		}
	}
	return u
}

var c13Reused = map[string]c13UUID{}
var c13ReuseN = map[string]int{}

// aspect for a clock-sequence mismatch: the known shape (only the bits above `kept` are lost) is named separately
func c13ClockAspect(prefix string, got, want, kept int, hi string) string {
	if got != want && got == want&((1<<kept)-1) {
		return prefix + ":" + hi
	}
	return prefix
}

func c13Region16(a, b []byte) string {
	if len(a) != len(b) {
		return "length"
	}
	for i := range a {
		if a[i] != b[i] {
			switch {
			case i < 6:
				return "octets0-5"
			case i < 8:
				return "time_hi_and_version"
			case i < 10:
				return "clock_seq"
			default:
				return "node"
			}
		}
	}
	return ""
}

func c13Cases(c *h.Ctx) error {
	kinds := map[string]int{}
	err := c.Lines(func(raw []byte) error {
		var k c13Case
		if err := json.Unmarshal(raw, &k); err != nil {
			return err
		}
		kinds[k.K]++
		switch k.K {
		case "guid":
			c13GuidCase(c, &k)
		case "uuid":
			c.Case("uuid:" + h.Hex(k.B))
			smp := map[string]interface{}{"uuid_hex": h.Hex(k.B)}
			if u := c13Common(c, &k, smp); u != nil {
				b := u.(*uuid.UUID)
				if int(b.Version) != k.Ver {
					c.Fail("uuid.UUID.Unmarshal", "rfc4122:version", fmt.Sprintf("%x: spec %d code %d", []byte(k.B), k.Ver, b.Version), smp)
				}
				if int(b.Variant) != k.Varn {
					c.Drift("uuid.UUID.Unmarshal", "layout:Variant", fmt.Sprintf("%x: spec %d code %d", []byte(k.B), k.Varn, b.Variant), smp)
				}
				if !bytes.Equal(b.Data[:], k.Data) {
					c.Drift("uuid.UUID.Unmarshal", "layout:Data", fmt.Sprintf("%x: spec %x code %x", []byte(k.B), []byte(k.Data), b.Data), smp)
				}
			}
			// the versioned parsers must not take a value of another version for their own (model detail)
			for kind, ver := range map[string]int{"v1": 1, "v2": 2, "v8": 8} {
				if k.Ver != ver {
					o := c13New(kind)
					if _, err := o.Unmarshal(k.B); err == nil {
						c.Drift(c13Type[kind]+".Unmarshal", "accepts-other-version", fmt.Sprintf("%x has version %d", []byte(k.B), k.Ver), smp)
					}
					c.Exec(1)
				}
			}
		case "v1":
			c.Case("v1:" + h.Hex(k.B))
			smp := map[string]interface{}{"uuid_hex": h.Hex(k.B), "variant": k.Variant}
			if u := c13Common(c, &k, smp); u != nil {
				v := u.(*uuid_v1.UUIDv1)
				site := "uuid_v1.UUIDv1.Unmarshal"
				fail := c.Fail
				if k.Variant != "rfc4122" { // RFC 4122 4.1.2 defines the field layout for variant 10x only
					fail = c.Drift
				}
				if got, want := fmt.Sprintf("%015x", v.Time), c13Hex(k.TS); got != want {
					fail(site, "rfc4122:timestamp", fmt.Sprintf("%x: spec %s code %s", []byte(k.B), want, got), smp)
				}
				if !bytes.Equal(v.GetNodeID(), k.Node) {
					fail(site, "rfc4122:node", fmt.Sprintf("%x: spec %x code %x", []byte(k.B), []byte(k.Node), v.GetNodeID()), smp)
				}
				if got := int(v.GetClockSequence()); got != k.CS {
					detail := fmt.Sprintf("%x: spec clock_seq %#x code %#x", []byte(k.B), k.CS, got)
					if k.Variant == "rfc4122" { // RFC 4122 4.1.2 defines the layout for variant 10x only
						c.Fail(site, c13ClockAspect("rfc4122:clock_seq", got, k.CS, 12, "bits12-13"), detail, smp)
					}
				}
				v2 := &uuid_v1.UUIDv1{}
				if err := v2.FromBytes(k.B); err != nil || v2.Time != v.Time || v2.ClockSeq != v.ClockSeq || v2.NodeID != v.NodeID {
					c.Fail("uuid_v1.UUIDv1.FromBytes", "differs-from-Unmarshal", fmt.Sprintf("%x: %v", []byte(k.B), err), smp)
				}
				c.Exec(2)
				// the timestamp of an INSTANT does not depend on the Location the time.Time carries (UTC, fixed offsets,
				// daylight-saving zones): SetTime(GetTime().In(zone)) gives the timestamp SetTime(GetTime().UTC()) gives
				if inst := v.GetTime(); !inst.IsZero() {
					ref := &uuid_v1.UUIDv1{}
					ref.SetTime(inst.UTC())
					for _, z := range h.Zones(inst) {
						x := &uuid_v1.UUIDv1{}
						x.SetTime(z)
						c.Exec(1)
						if x.Time != ref.Time {
							c.Fail("uuid_v1.UUIDv1.SetTime", "depends-on-time-zone", fmt.Sprintf("the instant %s gives timestamp %d in location %s and %d in UTC", inst.UTC(), x.Time, z.Location(), ref.Time), smp)
							break
						}
					}
				}
			}
		case "v1f":
			key := fmt.Sprintf("v1f:%s/%x/%x", c13Hex(k.TS), k.CS, []byte(k.Node))
			c.Case(key)
			smp := map[string]interface{}{"timestamp": c13Hex(k.TS), "clock_seq": k.CS, "node": h.Hex(k.Node), "rfc4122_uuid": h.Hex(k.B)}
			u := &uuid_v1.UUIDv1{}
			u.UUID.Variant = 0x8 // RFC 4122 variant (10x)
			u.Time = c13U64(k.TS)
			u.SetClockSequence(uint16(k.CS))
			if err := u.SetNodeID(k.Node); err != nil {
				c.Fail("uuid_v1.UUIDv1.SetNodeID", "rejects-valid", err.Error(), smp)
			}
			// the text form asked for FIRST, on an object built by the same setters and never marshalled: String() and
			// Marshal() are two routes to the same 128 bits, whichever is called first
			{
				w := &uuid_v1.UUIDv1{}
				w.UUID.Variant = 0x8
				w.Time = c13U64(k.TS)
				w.SetClockSequence(uint16(k.CS))
				w.SetNodeID(k.Node)
				first := w.String()
				wm, werr := w.Marshal()
				c.Exec(2)
				if werr == nil && bytes.Equal(wm, k.B) && !strings.EqualFold(first, c13Str(k.T)) {
					c.Fail("uuid_v1.UUIDv1.String", "text-before-marshal", fmt.Sprintf("String() on a freshly assigned object gives %q; its Marshal() gives %x, i.e. %q", first, wm, c13Str(k.T)), smp)
				}
			}
			m, err := u.Marshal()
			c.Exec(1)
			if err != nil {
				c.Fail("uuid_v1.UUIDv1.Marshal", "error", err.Error(), smp)
				break
			}
			if !bytes.Equal(m, k.B) {
				asp := "rfc4122:layout:" + c13Region16(m, k.B)
				if len(m) == 16 && c13Region16(m, k.B) == "clock_seq" && m[9] == k.B[9] && m[8] == k.B[8]&0xCF {
					asp += ":bits12-13"
				}
				c.Fail("uuid_v1.UUIDv1.Marshal", asp, fmt.Sprintf("spec %x code %x", []byte(k.B), m), smp)
			}
			if s := u.String(); !strings.EqualFold(s, c13Str(k.T)) && bytes.Equal(m, k.B) {
				c.Fail("uuid_v1.UUIDv1.String", "text", fmt.Sprintf("spec %q code %q", c13Str(k.T), s), smp)
			}
			r := &uuid_v1.UUIDv1{}
			if _, err := r.Unmarshal(m); err != nil {
				c.Fail("uuid_v1.UUIDv1.Unmarshal", "rejects-own-output", err.Error(), smp)
				break
			}
			c.Exec(2)
			if r.Time != u.Time {
				c.Fail("uuid_v1.UUIDv1.Marshal", "fields-roundtrip:Time", fmt.Sprintf("set %#x got %#x", u.Time, r.Time), smp)
			}
			if int(r.ClockSeq) != k.CS {
				c.Fail("uuid_v1.UUIDv1.Marshal", c13ClockAspect("fields-roundtrip:ClockSeq", int(r.ClockSeq), k.CS, 12, "bits12-13"),
					fmt.Sprintf("set %#x got %#x", k.CS, r.ClockSeq), smp)
			}
			if !bytes.Equal(r.NodeID[:], k.Node) {
				c.Fail("uuid_v1.UUIDv1.Marshal", "fields-roundtrip:NodeID", fmt.Sprintf("set %x got %x", []byte(k.Node), r.NodeID), smp)
			}
			c.Sample(map[string]interface{}{"kind": "v1 fields", "timestamp": c13Hex(k.TS), "clock_seq": k.CS, "uuid": c13Str(k.T)})
		case "v2":
			c.Case("v2:" + h.Hex(k.B))
			smp := map[string]interface{}{"uuid_hex": h.Hex(k.B), "variant": k.Variant}
			if u := c13Common(c, &k, smp); u != nil {
				v := u.(*uuid_v2.UUIDv2)
				site := "uuid_v2.UUIDv2.Unmarshal"
				fail := c.Fail
				if k.Variant != "rfc4122" { // the DCE layout is defined for variant 10x only
					fail = c.Drift
				}
				if got, want := fmt.Sprintf("%08x", v.GetLocalDomainNumber()), c13Hex(k.Lid); got != want {
					fail(site, "dce:local_id", fmt.Sprintf("%x: spec %s code %s", []byte(k.B), want, got), smp)
				}
				if got, want := fmt.Sprintf("%07x", v.Time>>32), c13Hex(k.Thm); got != want || v.Time&0xFFFFFFFF != 0 {
					fail(site, "dce:time_hi_mid", fmt.Sprintf("%x: spec %s<<32 code %#x", []byte(k.B), want, v.Time), smp)
				}
				if int(v.GetLocalDomain()) != k.Dom {
					fail(site, "dce:local_domain", fmt.Sprintf("%x: spec %d code %d", []byte(k.B), k.Dom, v.GetLocalDomain()), smp)
				}
				if !bytes.Equal(v.GetNodeID(), k.Node) {
					fail(site, "dce:node", fmt.Sprintf("%x: spec %x code %x", []byte(k.B), []byte(k.Node), v.GetNodeID()), smp)
				}
				if got := int(v.GetClock()); got != k.Clk {
					detail := fmt.Sprintf("%x: spec clock %#x code %#x", []byte(k.B), k.Clk, got)
					if k.Variant == "rfc4122" {
						c.Fail(site, c13ClockAspect("dce:clock_seq", got, k.Clk, 4, "bits4-5"), detail, smp)
					}
				}
				v2 := &uuid_v2.UUIDv2{}
				if err := v2.FromBytes(k.B); err != nil || v2.Time != v.Time || v2.Clock != v.Clock || v2.NodeID != v.NodeID || v2.LocalDomain != v.LocalDomain || v2.LocalDomainNumber != v.LocalDomainNumber {
					c.Fail("uuid_v2.UUIDv2.FromBytes", "differs-from-Unmarshal", fmt.Sprintf("%x: %v", []byte(k.B), err), smp)
				}
				c.Exec(2)
			}
		case "v2f":
			key := fmt.Sprintf("v2f:%s/%s/%x/%x/%x", c13Hex(k.Lid), c13Hex(k.Thm), k.Clk, k.Dom, []byte(k.Node))
			c.Case(key)
			smp := map[string]interface{}{"local_id": c13Hex(k.Lid), "time_hi_mid": c13Hex(k.Thm), "clock": k.Clk, "domain": k.Dom, "node": h.Hex(k.Node), "dce_uuid": h.Hex(k.B)}
			u := &uuid_v2.UUIDv2{}
			u.UUID.Variant = 0x8
			u.SetLocalDomainNumber(uint32(c13U64(k.Lid)))
			u.Time = c13U64(k.Thm) << 32
			u.SetClock(uint8(k.Clk))
			u.SetLocalDomain(uint8(k.Dom))
			if err := u.SetNodeID(k.Node); err != nil {
				c.Fail("uuid_v2.UUIDv2.SetNodeID", "rejects-valid", err.Error(), smp)
			}
			m, err := u.Marshal()
			c.Exec(1)
			if err != nil {
				c.Fail("uuid_v2.UUIDv2.Marshal", "error", err.Error(), smp)
				break
			}
			if !bytes.Equal(m, k.B) {
				asp := "dce:layout:" + c13Region16(m, k.B)
				if len(m) == 16 && c13Region16(m, k.B) == "clock_seq" && m[9] == k.B[9] && m[8] == k.B[8]&0xCF {
					asp += ":bits4-5"
				}
				c.Fail("uuid_v2.UUIDv2.Marshal", asp, fmt.Sprintf("spec %x code %x", []byte(k.B), m), smp)
			}
			if s := u.String(); !strings.EqualFold(s, c13Str(k.T)) && bytes.Equal(m, k.B) {
				c.Fail("uuid_v2.UUIDv2.String", "text", fmt.Sprintf("spec %q code %q", c13Str(k.T), s), smp)
			}
			r := &uuid_v2.UUIDv2{}
			if _, err := r.Unmarshal(m); err != nil {
				c.Fail("uuid_v2.UUIDv2.Unmarshal", "rejects-own-output", err.Error(), smp)
				break
			}
			c.Exec(2)
			if r.LocalDomainNumber != u.LocalDomainNumber {
				c.Fail("uuid_v2.UUIDv2.Marshal", "fields-roundtrip:LocalDomainNumber", fmt.Sprintf("set %#x got %#x", u.LocalDomainNumber, r.LocalDomainNumber), smp)
			}
			if r.Time != u.Time {
				c.Fail("uuid_v2.UUIDv2.Marshal", "fields-roundtrip:Time", fmt.Sprintf("set %#x got %#x", u.Time, r.Time), smp)
			}
			if int(r.Clock) != k.Clk {
				c.Fail("uuid_v2.UUIDv2.Marshal", c13ClockAspect("fields-roundtrip:Clock", int(r.Clock), k.Clk, 4, "bits4-5"), fmt.Sprintf("set %#x got %#x", k.Clk, r.Clock), smp)
			}
			if int(r.LocalDomain) != k.Dom {
				c.Fail("uuid_v2.UUIDv2.Marshal", "fields-roundtrip:LocalDomain", fmt.Sprintf("set %d got %d", k.Dom, r.LocalDomain), smp)
			}
			if !bytes.Equal(r.NodeID[:], k.Node) {
				c.Fail("uuid_v2.UUIDv2.Marshal", "fields-roundtrip:NodeID", fmt.Sprintf("set %x got %x", []byte(k.Node), r.NodeID), smp)
			}
		case "v8":
			c.Case("v8:" + h.Hex(k.B))
			smp := map[string]interface{}{"uuid_hex": h.Hex(k.B)}
			if u := c13Common(c, &k, smp); u != nil {
				v := u.(*uuid_v8.UUIDv8)
				if !bytes.Equal(v.GetData(), k.Data) {
					c.Drift("uuid_v8.UUIDv8.Unmarshal", "layout:Data", fmt.Sprintf("%x: spec %x code %x", []byte(k.B), []byte(k.Data), v.GetData()), smp)
				}
				v2 := &uuid_v8.UUIDv8{}
				if err := v2.FromBytes(k.B); err != nil || v2.Data != v.Data {
					c.Fail("uuid_v8.UUIDv8.FromBytes", "differs-from-Unmarshal", fmt.Sprintf("%x: %v", []byte(k.B), err), smp)
				}
				c.Exec(1)
			}
		case "basef":
			c.Case(fmt.Sprintf("basef:%x/%x/%x", k.Ver, k.Varn, []byte(k.Data)))
			smp := map[string]interface{}{"version": k.Ver, "variant_nibble": k.Varn, "data": h.Hex(k.Data), "uuid": h.Hex(k.B)}
			u := &uuid.UUID{Version: uint8(k.Ver), Variant: uint8(k.Varn)}
			copy(u.Data[:], k.Data)
			m, _ := u.Marshal()
			c.Exec(1)
			if len(m) != 16 {
				c.Fail("uuid.UUID.Marshal", "length", fmt.Sprintf("%d bytes", len(m)), smp)
				break
			}
			if int(m[6]>>4) != k.Ver {
				c.Fail("uuid.UUID.Marshal", "rfc4122:version", fmt.Sprintf("version %d marshalled as %x", k.Ver, m), smp)
			} else if !bytes.Equal(m, k.B) {
				c.Drift("uuid.UUID.Marshal", "layout", fmt.Sprintf("spec %x code %x", []byte(k.B), m), smp)
			}
			r := &uuid.UUID{}
			r.Unmarshal(m)
			c.Exec(1)
			if int(r.Version) != k.Ver || int(r.Variant) != k.Varn || !bytes.Equal(r.Data[:], k.Data) {
				c.Fail("uuid.UUID.Marshal", "fields-roundtrip", fmt.Sprintf("set %d/%d/%x got %d/%d/%x", k.Ver, k.Varn, []byte(k.Data), r.Version, r.Variant, r.Data), smp)
			}
			if s := u.String(); !strings.EqualFold(s, c13Str(k.T)) && bytes.Equal(m, k.B) {
				c.Fail("uuid.UUID.String", "text", fmt.Sprintf("spec %q code %q", c13Str(k.T), s), smp)
			}
			if k.Ver == 8 { // the same assignment through UUIDv8.SetData
				v := &uuid_v8.UUIDv8{}
				v.UUID.Variant = uint8(k.Varn)
				v.SetData(k.Data)
				m8, _ := v.Marshal()
				r8 := &uuid_v8.UUIDv8{}
				_, err := r8.Unmarshal(m8)
				c.Exec(2)
				if err != nil || !bytes.Equal(r8.GetData(), k.Data) {
					c.Fail("uuid_v8.UUIDv8.Marshal", "fields-roundtrip:Data", fmt.Sprintf("set %x got %x (%v)", []byte(k.Data), r8.GetData(), err), smp)
				}
				if !bytes.Equal(m8, k.B) {
					c.Drift("uuid_v8.UUIDv8.Marshal", "layout", fmt.Sprintf("spec %x code %x", []byte(k.B), m8), smp)
				}
			}
		default:
			return fmt.Errorf("unknown case kind %q", k.K)
		}
		return nil
	})
	c.Set("cases_by_kind", kinds)
	return err
}

// ---------------------------------------------------------------------------------------------------------
// code -> model

func c13CaseMix(rng *rand.Rand, s string) string {
	b := []byte(s)
	mode := rng.Intn(4)
	for i := range b {
		up := mode == 1 || (mode == 2 && rng.Intn(2) == 0)
		if up && b[i] >= 'a' && b[i] <= 'z' {
			b[i] -= 32
		}
	}
	return string(b)
}

// the harness's own rendering of the five formats (input generator only; TLC judges with GUID.tla)
func c13Render(f string, cn string) string {
	d := cn[0:8] + "-" + cn[8:12] + "-" + cn[12:16] + "-" + cn[16:20] + "-" + cn[20:32]
	switch f {
	case "N":
		return cn
	case "D":
		return d
	case "B":
		return "{" + d + "}"
	case "P":
		return "(" + d + ")"
	}
	s := "{0x" + cn[0:8] + ",0x" + cn[8:12] + ",0x" + cn[12:16] + ",{"
	for i := 0; i < 8; i++ {
		if i > 0 {
			s += ","
		}
		s += "0x" + cn[16+2*i:18+2*i]
	}
	return s + "}}"
}

func c13Rand16(rng *rand.Rand) []byte {
	b := make([]byte, 16)
	switch rng.Intn(6) {
	case 0: // sparse
		b[rng.Intn(16)] = byte(1 << uint(rng.Intn(8)))
		b[rng.Intn(16)] |= byte(rng.Intn(256))
	case 1: // dense
		for i := range b {
			b[i] = 0xFF
		}
		b[rng.Intn(16)] &^= byte(1 << uint(rng.Intn(8)))
	default:
		rng.Read(b)
	}
	return b
}

func c13FieldsJSON(g *guid.GUID) map[string][]int {
	out := map[string][]int{}
	for n, v := range c13GuidFields(g) {
		out[n] = c13Nibs(v)
	}
	return out
}

func c13Record(c *h.Ctx) error {
	events := c.OptInt("events", 4000)
	rng := rand.New(rand.NewSource(int64(c.OptInt("seed", 1))*7919 + 13))
	emit := func(m map[string]interface{}) {
		b, err := json.Marshal(m)
		if err != nil {
			panic(err)
		}
		c.Emit(b)
		c.Exec(1)
	}
	n := 0
	ops := map[string]int{}
	for n < events {
		raw := c13Rand16(rng)
		cn := h.Hex(raw)
		c.Case("rec:" + cn)
		op := rng.Intn(12)
		switch op {
		case 0: // MS-DTYP packet -> fields
			g := &guid.GUID{}
			g.FromRawBytes(raw)
			emit(map[string]interface{}{"op": "guid.frombytes", "w": h.Bytes(raw), "f": c13FieldsJSON(g)})
			ops["guid.frombytes"]++
		case 1: // fields -> packet
			g := &guid.GUID{}
			g.FromRawBytes(raw)
			f := c13FieldsJSON(g)
			emit(map[string]interface{}{"op": "guid.tobytes", "f": f, "w": h.Bytes(g.ToBytes())})
			ops["guid.tobytes"]++
		case 2, 3: // fields -> text
			f := c13Formats[rng.Intn(5)]
			g := &guid.GUID{A: rng.Uint32(), B: uint16(rng.Uint32()), C: uint16(rng.Uint32()), D: uint16(rng.Uint32()), E: rng.Uint64() & 0xFFFFFFFFFFFF}
			emit(map[string]interface{}{"op": "guid.format", "fmt": f, "f": c13FieldsJSON(g), "t": c13Codes(c13Format(g, f))})
			ops["guid.format"]++
		case 4, 5, 6: // text -> fields, by the format-specific parser or by FromString
			f := c13Formats[rng.Intn(5)]
			txt := c13CaseMix(rng, c13Render(f, cn))
			mutated := false
			if rng.Intn(12) == 0 { // a text that is NOT of the format (rejection is model detail)
				mutated = true
				switch rng.Intn(3) {
				case 0:
					txt = txt[:len(txt)-1]
				case 1:
					i := rng.Intn(len(txt))
					txt = txt[:i] + "g" + txt[i+1:]
				case 2:
					txt = txt + "0"
				}
			}
			var g *guid.GUID
			var err error
			name := "guid.parse"
			if rng.Intn(2) == 0 {
				name = "guid.fromstring"
			}
			p := h.Guard(func() {
				if name == "guid.fromstring" {
					g, err = guid.FromString(txt)
				} else {
					g, err = c13Parse(f, txt)
				}
			})
			ev := map[string]interface{}{"op": name, "fmt": f, "t": c13Codes(txt), "ok": p == "" && err == nil && g != nil, "mut": mutated}
			if p == "" && err == nil && g != nil {
				ev["f"] = c13FieldsJSON(g)
			} else {
				ev["f"] = map[string][]int{"a": {}, "b": {}, "c": {}, "d": {}, "e": {}}
			}
			emit(ev)
			ops[name]++
		case 7: // base UUID: bytes -> parts -> bytes, text
			u := &uuid.UUID{}
			u.Unmarshal(raw)
			m, _ := u.Marshal()
			emit(map[string]interface{}{"op": "uuid.unmarshal", "b": h.Bytes(raw), "ver": int(u.Version), "varn": int(u.Variant), "data": h.Bytes(u.Data[:]),
				"m": h.Bytes(m), "t": c13Codes(u.String())})
			ops["uuid.unmarshal"]++
		case 8: // text -> UUID
			d := c13CaseMix(rng, c13Render("D", cn))
			u := &uuid.UUID{}
			err := u.FromString(d)
			m, _ := u.Marshal()
			emit(map[string]interface{}{"op": "uuid.fromstring", "t": c13Codes(d), "ok": err == nil, "m": h.Bytes(m)})
			ops["uuid.fromstring"]++
		case 9: // v1 parse
			raw[6] = 0x10 | raw[6]&0x0F
			if rng.Intn(3) > 0 {
				raw[8] = 0x80 | raw[8]&0x3F
			}
			u := &uuid_v1.UUIDv1{}
			_, err := u.Unmarshal(raw)
			m, _ := u.Marshal()
			emit(map[string]interface{}{"op": "v1.unmarshal", "b": h.Bytes(raw), "ok": err == nil, "ts": c13Nibs(fmt.Sprintf("%015x", u.Time)),
				"cs": int(u.GetClockSequence()), "node": h.Bytes(u.GetNodeID()), "m": h.Bytes(m), "t": c13Codes(u.String())})
			ops["v1.unmarshal"]++
		case 10: // v1 fields -> bytes
			u := &uuid_v1.UUIDv1{}
			u.UUID.Variant = 0x8
			u.Time = rng.Uint64() & 0x0FFFFFFFFFFFFFFF
			cs := rng.Intn(1 << 14)
			u.SetClockSequence(uint16(cs))
			u.SetNodeID(raw[10:16])
			m, _ := u.Marshal()
			emit(map[string]interface{}{"op": "v1.marshal", "ts": c13Nibs(fmt.Sprintf("%015x", u.Time)), "cs": cs, "node": h.Bytes(raw[10:16]), "m": h.Bytes(m)})
			ops["v1.marshal"]++
		case 11: // v2 parse
			raw[6] = 0x20 | raw[6]&0x0F
			if rng.Intn(3) > 0 {
				raw[8] = 0x80 | raw[8]&0x3F
			}
			u := &uuid_v2.UUIDv2{}
			_, err := u.Unmarshal(raw)
			m, _ := u.Marshal()
			emit(map[string]interface{}{"op": "v2.unmarshal", "b": h.Bytes(raw), "ok": err == nil, "lid": c13Nibs(fmt.Sprintf("%08x", u.LocalDomainNumber)),
				"thm": c13Nibs(fmt.Sprintf("%07x", u.Time>>32)), "clk": int(u.GetClock()), "dom": int(u.GetLocalDomain()), "node": h.Bytes(u.GetNodeID()), "m": h.Bytes(m)})
			ops["v2.unmarshal"]++
		}
		n++
	}
	c.Set("events", n)
	c.Set("ops", ops)
	return nil
}
