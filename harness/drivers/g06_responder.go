package drivers

// Growth G06: what an LLMNR responder built on llmnr.Server does with one datagram (spec/LLMNRResponder.tla).
// Not one of the listed properties: every mismatch is DRIFT.
//
//   g06.responder  model -> code: for every (datagram, handler chain) case TLC emits, a real llmnr.Server is given that chain of
//                  handlers and a loopback socket; the datagram is sent, then a marker query (so that "nothing happens" is observed
//                  without guessing a timeout: the serve loop is sequential); the handlers that ran (in order), the replies the
//                  client received (ID, QR, question section) and the header-bit constants are compared with the model.

import (
	"encoding/binary"
	"encoding/json"
	"fmt"
	"net"
	"sync"
	"time"

	"github.com/TheManticoreProject/Manticore/network/llmnr"
	"verif/harness/h"
)

func init() { h.Register("g06.responder", g06Responder) }

type g06Handler struct {
	Cont bool `json:"cont"`
	Ans  bool `json:"ans"`
}

type g06Case struct {
	Kind       string       `json:"kind"`
	Flags      int          `json:"flags"`
	Name       string       `json:"name"`
	Chain      []g06Handler `json:"chain"`
	Dispatched bool         `json:"dispatched"`
	Run        []int        `json:"run"`
	Replies    []int        `json:"replies"`
}

const g06Marker = 0xFFEE

func g06Responder(c *h.Ctx) error {
	const site = "llmnr.Server"
	// header-bit constants against RFC 4795 2.1.1
	for _, k := range []struct {
		name string
		got  int
		want int
	}{{"FlagQR", llmnr.FlagQR, 0x8000}, {"FlagC", llmnr.FlagC, 0x0400}, {"FlagTC", llmnr.FlagTC, 0x0200}, {"FlagT", llmnr.FlagT, 0x0100}} {
		c.Exec(1)
		if k.got != k.want {
			c.Drift("llmnr."+k.name, "rfc4795-bit", fmt.Sprintf("declared %#04x, RFC 4795 2.1.1 places it at %#04x", k.got, k.want), nil)
		}
	}
	return c.Lines(func(raw []byte) error {
		var cs g06Case
		if err := json.Unmarshal(raw, &cs); err != nil {
			return err
		}
		if cs.Run == nil {
			cs.Run = []int{}
		}
		if cs.Replies == nil {
			cs.Replies = []int{}
		}
		c.Case(fmt.Sprintf("%s/%d", cs.Name, len(cs.Chain)))
		c.Exec(1)
		sample := map[string]interface{}{"datagram": cs.Name, "flags": fmt.Sprintf("%#04x", cs.Flags), "chain": cs.Chain}
		var mu sync.Mutex
		var ran []int
		markerSeen := make(chan struct{}, 1)
		done := make(chan int, 16)
		var handlers []llmnr.Handler
		for i, hd := range cs.Chain {
			i, hd := i+1, hd
			handlers = append(handlers, llmnr.HandlerFunc(func(s *llmnr.Server, ra net.Addr, w llmnr.ResponseWriter, m *llmnr.Message) bool {
				if m.ID == g06Marker {
					if i == 1 {
						markerSeen <- struct{}{}
					}
					return false
				}
				mu.Lock()
				ran = append(ran, i)
				mu.Unlock()
				if hd.Ans {
					resp := llmnr.CreateResponseFromMessage(m)
					for _, q := range m.Questions {
						resp.AddAnswerClassINTypeA(q.Name, fmt.Sprintf("10.0.0.%d", i))
					}
					w.WriteMessage(resp)
				}
				done <- i
				return hd.Cont
			}))
		}
		// a chain-independent marker handler at the end would change the chain under test; when the chain is empty, or for the
		// marker itself, the first handler position is used; with an empty chain there is nothing to observe but "no reply"
		srv, err := llmnr.NewServer("udp4", handlers)
		if err != nil {
			return err
		}
		conn, err := net.ListenUDP("udp4", &net.UDPAddr{IP: net.IPv4(127, 0, 0, 1)})
		if err != nil {
			return err
		}
		srv.Conn = conn
		srv.Address = conn.LocalAddr().(*net.UDPAddr)
		served := make(chan struct{})
		go func() { srv.Serve(); close(served) }()
		cl, err := net.DialUDP("udp4", nil, conn.LocalAddr().(*net.UDPAddr))
		if err != nil {
			return err
		}
		defer func() {
			cl.Close()
			cd := make(chan struct{})
			go func() { srv.Close(); close(cd) }()
			select {
			case <-cd:
			case <-time.After(3 * time.Second):
			}
		}()
		var pkt []byte
		if cs.Kind == "garbage" {
			pkt = []byte{0x12, 0x34, 0x00}
		} else {
			q := llmnr.NewMessage()
			q.ID = 0x1234
			q.Flags = uint16(cs.Flags)
			q.AddQuestion("host-g06", 1, llmnr.ClassIN)
			if pkt, err = q.Encode(); err != nil {
				return err
			}
		}
		cl.Write(pkt)
		// wait for the handlers the model expects, then for the marker
		for range cs.Run {
			select {
			case <-done:
			case <-time.After(2 * time.Second):
			}
		}
		if len(cs.Chain) > 0 {
			mq := llmnr.NewMessage()
			mq.ID = g06Marker
			mq.AddQuestion("marker", 1, llmnr.ClassIN)
			mb, _ := mq.Encode()
			cl.Write(mb)
			select {
			case <-markerSeen:
			case <-time.After(2 * time.Second):
				c.Drift(site+".Serve", "marker-lost", "the serve loop did not dispatch a plain query sent after the case datagram", sample)
			}
			time.Sleep(5 * time.Millisecond) // a handler started for the case datagram although the model says none: give it time to record itself
		}
		mu.Lock()
		got := append([]int{}, ran...)
		mu.Unlock()
		if fmt.Sprint(got) != fmt.Sprint(cs.Run) {
			asp := "chain-order"
			if !cs.Dispatched && len(got) > 0 {
				asp = "dispatched:" + cs.Name
			} else if cs.Dispatched && len(got) == 0 && len(cs.Run) > 0 {
				asp = "not-dispatched:" + cs.Name
			}
			c.Drift(site+".processHandlers", asp, fmt.Sprintf("handlers run: spec %v, code %v", cs.Run, got), sample)
		}
		// replies
		var replies []int
		for {
			cl.SetReadDeadline(time.Now().Add(40 * time.Millisecond))
			buf := make([]byte, 1500)
			n, err := cl.Read(buf)
			if err != nil {
				break
			}
			if n < 4 {
				c.Drift("llmnr.responseWriter.WriteMessage", "reply-short", fmt.Sprintf("%d bytes", n), sample)
				continue
			}
			m, err := llmnr.DecodeMessage(buf[:n])
			if err != nil || len(m.Answers) != 1 || len(m.Answers[0].RData) != 4 {
				c.Drift("llmnr.responseWriter.WriteMessage", "reply-undecodable", fmt.Sprintf("%x", buf[:n]), sample)
				continue
			}
			replies = append(replies, int(m.Answers[0].RData[3]))
			if id := binary.BigEndian.Uint16(buf[:2]); id != 0x1234 {
				c.Drift("llmnr.CreateResponseFromMessage", "reply-id", fmt.Sprintf("id %#04x", id), sample)
			}
			if binary.BigEndian.Uint16(buf[2:4])&0x8000 == 0 {
				c.Drift("llmnr.responseWriter.WriteMessage", "reply-qr", "QR not set in the reply", sample)
			}
			if len(m.Questions) != 1 || m.Questions[0].Name != "host-g06" {
				c.Drift("llmnr.CreateResponseFromMessage", "reply-question-section", fmt.Sprintf("the reply carries %d questions; RFC 4795 2.1.1: the response repeats the question", len(m.Questions)), sample)
			}
		}
		if len(replies) != len(cs.Replies) {
			c.Drift(site+".processHandlers", "reply-count", fmt.Sprintf("spec %v, code %v", cs.Replies, replies), sample)
		} else {
			seen := map[int]int{}
			for _, r := range replies {
				seen[r]++
			}
			for _, r := range cs.Replies {
				seen[r]--
			}
			for r, n := range seen {
				if n != 0 {
					c.Drift(site+".processHandlers", "reply-set", fmt.Sprintf("handler %d: spec %v, code %v", r, cs.Replies, replies), sample)
					break
				}
			}
		}
		return nil
	})
}
