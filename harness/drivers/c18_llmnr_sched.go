package drivers

// C18 (LLMNR server): schedules chosen by TLC on spec/LLMNRServer.tla executed on a real llmnr.Server whose Conn is a
// loopback socket and whose single handler is a harness function acting as a gate: it blocks until the schedule lets
// it answer, or is told to call server.Close() itself. Close (from outside or from a handler) is called at every
// point of every schedule; Serve and Close must return within 3 s WITHOUT any blocked handler being released.

import (
	"encoding/binary"
	"encoding/json"
	"fmt"
	"math/rand"
	"net"
	"sync"
	"time"

	"github.com/TheManticoreProject/Manticore/network/llmnr"
	"verif/harness/h"
)

func init() { h.Register("c18.llmnr", c18LLMNR) }

type llEdge struct {
	Act   string          `json:"act"`
	R     int             `json:"r"`
	Reply bool            `json:"reply"`
	F     json.RawMessage `json:"f"`
	T     json.RawMessage `json:"t"`
	fi    int
	ti    int
}

// coverPaths returns paths (edge index lists) from init that together cover every edge: shortest path to the edge's
// source, the edge, then a seeded random continuation to a state without successors.
func coverPaths(n int, from, to []int, rng *rand.Rand, extra int) [][]int {
	out := make([][]int, n)
	indeg := make([]int, n)
	for i := range from {
		out[from[i]] = append(out[from[i]], i)
		indeg[to[i]]++
	}
	init := 0
	for s := 0; s < n; s++ {
		if indeg[s] == 0 {
			init = s
		}
	}
	parent := make([]int, n)
	for i := range parent {
		parent[i] = -2
	}
	parent[init] = -1
	q := []int{init}
	for len(q) > 0 {
		s := q[0]
		q = q[1:]
		for _, ei := range out[s] {
			if t := to[ei]; parent[t] == -2 {
				parent[t] = ei
				q = append(q, t)
			}
		}
	}
	var paths [][]int
	for ei := range from {
		var p []int
		for s := from[ei]; s != init; s = from[parent[s]] {
			p = append(p, parent[s])
		}
		for i, j := 0, len(p)-1; i < j; i, j = i+1, j-1 {
			p[i], p[j] = p[j], p[i]
		}
		p = append(p, ei)
		for s, steps := to[ei], 0; len(out[s]) > 0 && steps < 200; steps++ {
			nx := out[s][rng.Intn(len(out[s]))]
			p = append(p, nx)
			s = to[nx]
		}
		paths = append(paths, p)
	}
	rng.Shuffle(len(paths), func(i, j int) { paths[i], paths[j] = paths[j], paths[i] })
	covered := map[int]bool{}
	var chosen [][]int
	for _, p := range paths {
		novel := false
		for _, ei := range p {
			if !covered[ei] {
				novel = true
			}
		}
		if novel || len(chosen) < extra {
			chosen = append(chosen, p)
			for _, ei := range p {
				covered[ei] = true
			}
		}
	}
	return chosen
}

type llGate struct {
	id    int
	cmd   chan string // "answer" | "close"
	ended chan struct{}
}

func c18LLMNR(c *h.Ctx) error {
	seed := int64(c.OptInt("seed", 1))
	nClients := c.OptInt("clients", 2)
	shard, shards := c.OptInt("shard", 0), c.OptInt("shards", 1)
	ids := map[string]int{}
	id := func(raw json.RawMessage) int {
		k := string(raw)
		if i, ok := ids[k]; ok {
			return i
		}
		ids[k] = len(ids)
		return len(ids) - 1
	}
	var edges []*llEdge
	seen := map[string]bool{}
	if err := c.Lines(func(raw []byte) error {
		e := &llEdge{}
		if err := json.Unmarshal(raw, e); err != nil {
			return err
		}
		e.fi, e.ti = id(e.F), id(e.T)
		k := fmt.Sprintf("%d|%s|%d|%d", e.fi, e.Act, e.R, e.ti)
		if !seen[k] {
			seen[k] = true
			edges = append(edges, e)
		}
		return nil
	}); err != nil {
		return err
	}
	from, to := make([]int, len(edges)), make([]int, len(edges))
	for i, e := range edges {
		from[i], to[i] = e.fi, e.ti
	}
	paths := coverPaths(len(ids), from, to, rand.New(rand.NewSource(seed)), c.OptInt("max", 100))
	const T = 3 * time.Second
	steps, runs := 0, 0
	timeouts := 0
	for pi, p := range paths {
		if pi%shards != shard {
			continue
		}
		if timeouts >= 3 {
			break // the defect is established; further schedules would only wait for more 3 s timeouts
		}
		runs++
		var history []string
		sample := func() map[string]interface{} {
			return map[string]interface{}{"schedule": append([]string(nil), history...)}
		}
		var gmu sync.Mutex
		gates := map[int]*llGate{}
		entered := make(chan *llGate, 16)
		var srv *llmnr.Server
		handler := llmnr.HandlerFunc(func(s *llmnr.Server, ra net.Addr, w llmnr.ResponseWriter, m *llmnr.Message) bool {
			g := &llGate{id: int(m.ID), cmd: make(chan string, 1), ended: make(chan struct{})}
			gmu.Lock()
			gates[g.id] = g
			gmu.Unlock()
			entered <- g
			defer close(g.ended)
			switch <-g.cmd {
			case "answer":
				// the answer is taken from the REQUEST's own bytes as the handler sees them now, i.e. after other datagrams
				// have arrived in the server's receive buffer: the additional record carries the request number
				resp := llmnr.CreateResponseFromMessage(m)
				last := byte(g.id)
				if len(m.Additional) == 1 && len(m.Additional[0].RData) == 4 {
					last = m.Additional[0].RData[3]
				}
				for _, q := range m.Questions {
					resp.AddAnswerClassINTypeA(q.Name, fmt.Sprintf("10.0.0.%d", last))
				}
				w.WriteMessage(resp)
			case "close":
				s.Close()
			}
			return false
		})
		srv, err := llmnr.NewServer("udp4", []llmnr.Handler{handler})
		if err != nil {
			return err
		}
		conn, err := net.ListenUDP("udp4", &net.UDPAddr{IP: net.IPv4(127, 0, 0, 1)})
		if err != nil {
			return err
		}
		srv.Conn = conn
		srv.Address = conn.LocalAddr().(*net.UDPAddr)
		served := make(chan struct{})
		go func() { srv.Serve(); close(served) }()
		clients := map[int]*net.UDPConn{}
		for cl := 1; cl <= nClients; cl++ {
			cn, err := net.DialUDP("udp4", nil, conn.LocalAddr().(*net.UDPAddr))
			if err != nil {
				return err
			}
			clients[cl] = cn
		}
		var closeDone chan struct{}
		closerGate := 0
		ok := true
		for _, ei := range p {
			if !ok {
				break
			}
			e := edges[ei]
			history = append(history, fmt.Sprintf("%s(%d)", e.Act, e.R))
			steps++
			switch e.Act {
			case "query":
				q := llmnr.NewMessage()
				q.SetQuery()
				q.ID = uint16(e.R)
				q.AddQuestion(fmt.Sprintf("host%d", e.R), 1, llmnr.ClassIN)
				q.Additional = append(q.Additional, llmnr.ResourceRecord{Name: fmt.Sprintf("host%d", e.R), Type: 1, Class: llmnr.ClassIN, RDLength: 4, RData: []byte{10, 0, 0, byte(e.R)}})
				q.ARCount = 1
				b, err := q.Encode()
				if err != nil {
					return err
				}
				clients[(e.R-1)%nClients+1].Write(b)
				select {
				case g := <-entered:
					if g.id != e.R {
						c.Fail("llmnr.Server.Serve", "handler-got-other-request", fmt.Sprintf("handler entered with message id %d after query %d", g.id, e.R), sample())
						ok = false
					}
				case <-time.After(T):
					c.Fail("llmnr.Server.Serve", "query-not-dispatched", fmt.Sprintf("no handler was started for query %d", e.R), sample())
					ok = false
				}
			case "answer":
				gmu.Lock()
				g := gates[e.R]
				gmu.Unlock()
				g.cmd <- "answer"
				select {
				case <-g.ended:
				case <-time.After(T):
					c.Fail("llmnr.responseWriter.WriteMessage", "handler-stuck", "handler did not return after answering", sample())
					ok = false
				}
				if e.Reply && ok {
					cn := clients[(e.R-1)%nClients+1]
					cn.SetReadDeadline(time.Now().Add(T))
					buf := make([]byte, 1500)
					n, err := cn.Read(buf)
					if err != nil {
						c.Fail("llmnr.Server.processHandlers", "reply-missing", fmt.Sprintf("client got no reply for query %d: %v", e.R, err), sample())
						ok = false
					} else if n < 2 || int(binary.BigEndian.Uint16(buf[:2])) != e.R {
						c.Fail("llmnr.Server.processHandlers", "reply-id", fmt.Sprintf("reply to query %d carries id %d", e.R, binary.BigEndian.Uint16(buf[:2])), sample())
					} else if m, err := llmnr.DecodeMessage(buf[:n]); err != nil || len(m.Answers) != 1 || len(m.Answers[0].RData) != 4 || int(m.Answers[0].RData[3]) != e.R ||
						m.Answers[0].Name != fmt.Sprintf("host%d", e.R) {
						c.Fail("llmnr.Server.processHandlers", "reply-answer", fmt.Sprintf("reply to query %d does not carry its answer", e.R), sample())
					}
				}
			case "close":
				closeDone = make(chan struct{})
				go func() { srv.Close(); close(closeDone) }()
				time.Sleep(15 * time.Millisecond)
			case "hclose":
				gmu.Lock()
				g := gates[e.R]
				gmu.Unlock()
				closerGate = e.R
				closeDone = g.ended // Close returns exactly when this handler can end
				g.cmd <- "close"
				time.Sleep(15 * time.Millisecond)
			case "closeret":
				select {
				case <-closeDone:
				case <-time.After(T):
					who := "its caller"
					if closerGate != 0 {
						who = fmt.Sprintf("the handler of query %d that called it", closerGate)
					}
					c.Fail("llmnr.Server.Close", "close-blocks", "Close did not return to "+who+" within 3 s while other handlers were still running or blocked", sample())
					ok = false
					timeouts++
				}
			case "exit":
				select {
				case <-served:
				case <-time.After(T):
					c.Fail("llmnr.Server.Serve", "serve-does-not-return", "Serve did not return within 3 s of Close (no handler was released meanwhile)", sample())
					ok = false
					timeouts++
				}
			}
		}
		// release everything and tear down
		gmu.Lock()
		for _, g := range gates {
			select {
			case g.cmd <- "answer":
			default:
			}
		}
		gmu.Unlock()
		tdone := make(chan struct{})
		go func() { srv.Close(); close(tdone) }()
		select {
		case <-tdone:
		case <-time.After(T):
			if ok {
				c.Fail("llmnr.Server.Close", "close-blocks", "Close did not return within 3 s after every handler had been released", sample())
			}
		}
		conn.Close()
		for _, cn := range clients {
			cn.Close()
		}
		select {
		case <-served:
		case <-time.After(T):
			c.Fail("llmnr.Server.Serve", "serve-does-not-return", "Serve still running 3 s after Close and release of every handler", sample())
		}
		c.Case(fmt.Sprintf("llmnr:%d", pi))
		if runs == 1 {
			c.Sample(sample())
		}
	}
	c.Exec(steps)
	c.Set("schedules", runs)
	c.Set("graph_edges", len(edges))
	c.Set("graph_states", len(ids))
	return nil
}
