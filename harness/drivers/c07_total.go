package drivers

// C07: every decoder is total. Bound to spec/Hostile.tla.
//
//   c07.bases   writes bases.json: for every decoding entry point, valid encodings produced with the library's own
//               encoders (or literals for text parsers). TLC reads it and enumerates the corruptions.
//   c07.replay  model -> code: every corrupted input TLC generated is fed to its entry point inside recover(), under
//               a watchdog and an allocation budget; the only acceptable outcome is "returned" (value or error).
//               Known-finding identity: (entry point, function that panicked + panic class).

import (
	"context"
	"encoding/json"
	"fmt"
	"net"
	"os"
	"reflect"
	"regexp"
	"runtime"
	"runtime/debug"
	"sort"
	"strings"
	"time"

	"github.com/TheManticoreProject/Manticore/crypto/gppp"
	"github.com/TheManticoreProject/Manticore/crypto/pkcs7"
	"github.com/TheManticoreProject/Manticore/crypto/uuid"
	"github.com/TheManticoreProject/Manticore/crypto/uuid/uuid_v1"
	"github.com/TheManticoreProject/Manticore/crypto/uuid/uuid_v2"
	"github.com/TheManticoreProject/Manticore/crypto/uuid/uuid_v8"
	"github.com/TheManticoreProject/Manticore/network/ip"
	"github.com/TheManticoreProject/Manticore/network/ldap"
	"github.com/TheManticoreProject/Manticore/network/llmnr"
	"github.com/TheManticoreProject/Manticore/network/netbios/nbt"
	"github.com/TheManticoreProject/Manticore/network/netbios/nbtns"
	"github.com/TheManticoreProject/Manticore/network/smb/smb_v10/dialects"
	il "github.com/TheManticoreProject/Manticore/network/smb/smb_v10/informationlevels"
	"github.com/TheManticoreProject/Manticore/network/smb/smb_v10/message"
	"github.com/TheManticoreProject/Manticore/network/smb/smb_v10/message/commands"
	"github.com/TheManticoreProject/Manticore/network/smb/smb_v10/message/commands/andx"
	"github.com/TheManticoreProject/Manticore/network/smb/smb_v10/message/commands/codes"
	"github.com/TheManticoreProject/Manticore/network/smb/smb_v10/message/data"
	"github.com/TheManticoreProject/Manticore/network/smb/smb_v10/message/header"
	"github.com/TheManticoreProject/Manticore/network/smb/smb_v10/message/header/flags"
	"github.com/TheManticoreProject/Manticore/network/smb/smb_v10/message/parameters"
	"github.com/TheManticoreProject/Manticore/network/smb/smb_v10/message/securityfeatures"
	"github.com/TheManticoreProject/Manticore/network/smb/smb_v10/spnego"
	"github.com/TheManticoreProject/Manticore/network/smb/smb_v10/spnego/ntlm"
	"github.com/TheManticoreProject/Manticore/network/smb/smb_v10/spnego/ntlm/version"
	"github.com/TheManticoreProject/Manticore/network/smb/smb_v10/types"
	"github.com/TheManticoreProject/Manticore/utils/encoding/utf16"
	"github.com/TheManticoreProject/Manticore/windows/credentials"
	"github.com/TheManticoreProject/Manticore/windows/guid"
	keycredential "github.com/TheManticoreProject/Manticore/windows/keycredential"
	kccrypto "github.com/TheManticoreProject/Manticore/windows/keycredential/crypto"
	"github.com/TheManticoreProject/Manticore/windows/keycredential/key"
	"github.com/TheManticoreProject/Manticore/windows/ms_dtyp/common/data_structures"
	"verif/harness/h"
)

func init() {
	h.Register("c07.bases", c07Bases)
	h.Register("c07.replay", c07Replay)
}

type entry struct {
	name  string
	text  bool
	run   func(in []byte)
	bases func() [][]byte
}

type marshaler interface{ Marshal() ([]byte, error) }
type unmarshaler interface {
	Unmarshal([]byte) (int, error)
}

func pat(n int) []byte {
	b := make([]byte, n)
	for i := range b {
		b[i] = byte(i*7 + 3)
	}
	return b
}

func mOf(m marshaler) []byte {
	var out []byte
	h.Guard(func() {
		b, err := m.Marshal()
		if err == nil {
			out = b
		}
	})
	return out
}

func nonEmpty(bs ...[]byte) [][]byte {
	var out [][]byte
	for _, b := range bs {
		if len(b) > 0 {
			out = append(out, b)
		}
	}
	return out
}

// um builds an entry for a type with Unmarshal (and usually Marshal): bases are the encoding of a zero value
// and a pattern buffer.
func um(name string, mk func() unmarshaler, extra ...[]byte) entry {
	return entry{name: name, run: func(in []byte) { mk().Unmarshal(in) }, bases: func() [][]byte {
		var z []byte
		if m, ok := mk().(marshaler); ok {
			z = mOf(m)
		}
		return nonEmpty(append([][]byte{z, pat(48)}, extra...)...)
	}}
}

func txt(name string, run func(s string), lits ...string) entry {
	return entry{name: name, text: true, run: func(in []byte) { run(string(in)) }, bases: func() [][]byte {
		var out [][]byte
		for _, l := range lits {
			out = append(out, []byte(l))
		}
		return out
	}}
}

func smbMessageBases() [][]byte {
	var out [][]byte
	for code := 0; code < 256; code++ {
		for _, reply := range []bool{false, true} {
			var b []byte
			h.Guard(func() {
				var cmd interface {
					Init()
				}
				var err error
				m := message.NewMessage()
				if reply {
					c, e := commands.CreateResponseCommand(codes.CommandCode(code))
					err = e
					if e == nil {
						c.Init()
						m.AddCommand(c)
						m.Header.Flags |= flags.FLAGS_REPLY
					}
					cmd = c
				} else {
					c, e := commands.CreateRequestCommand(codes.CommandCode(code))
					err = e
					if e == nil {
						c.Init()
						m.AddCommand(c)
					}
					cmd = c
				}
				if err != nil || cmd == nil {
					return
				}
				if enc, e := m.Marshal(); e == nil {
					b = enc
				}
			})
			if len(b) > 0 {
				out = append(out, b)
			}
		}
	}
	return out
}

func llmnrBase() []byte {
	m := llmnr.NewMessage()
	m.ID = 0x1234
	m.SetResponse()
	m.AddQuestion("host.example", 1, llmnr.ClassIN)
	m.AddAnswerClassINTypeA("host.example", "10.1.2.3")
	b, _ := m.Encode()
	return b
}

func llmnrCompressed() []byte {
	// header, question "ab.c", answer whose name is a pointer to offset 12
	b := []byte{0x12, 0x34, 0x80, 0, 0, 1, 0, 1, 0, 0, 0, 0, 2, 'a', 'b', 1, 'c', 0, 0, 1, 0, 1}
	b = append(b, 0xC0, 12, 0, 1, 0, 1, 0, 0, 0, 30, 0, 4, 10, 0, 0, 1)
	return b
}

func nbnsBase() []byte {
	p := &nbtns.NBTNSPacket{Header: nbtns.NBTNSHeader{TransactionID: 7, Questions: 1, Answers: 1},
		Questions: []nbtns.NBTNSQuestion{{Name: &nbtns.NetBIOSName{Name: "HOST", ScopeID: "corp.example"}, Type: 0x20, Class: 1}},
		Answers:   []nbtns.NBTNSResourceRecord{{Name: &nbtns.NetBIOSName{Name: "HOST"}, Type: 0x20, Class: 1, TTL: 300, RDLength: 6, RData: []byte{0, 0, 10, 0, 0, 1}}}}
	b, _ := p.Marshal()
	return b
}

func challengeBase() []byte {
	// MS-NLMP 4.2.4.3 style CHALLENGE: signature, type 2, target name, flags, challenge, reserved, target info, version
	name := utf16.EncodeUTF16LE("Server")
	info := append([]byte{2, 0, 12, 0}, utf16.EncodeUTF16LE("Domain")...)
	info = append(info, 1, 0, 12, 0)
	info = append(info, utf16.EncodeUTF16LE("Server")...)
	info = append(info, 0, 0, 0, 0)
	b := []byte("NTLMSSP\x00")
	b = append(b, 2, 0, 0, 0)
	b = append(b, byte(len(name)), 0, byte(len(name)), 0, 56, 0, 0, 0)
	b = append(b, 0x33, 0x82, 0x8a, 0xe2)
	b = append(b, 1, 2, 3, 4, 5, 6, 7, 8)
	b = append(b, make([]byte, 8)...)
	off := 56 + len(name)
	b = append(b, byte(len(info)), 0, byte(len(info)), 0, byte(off), 0, 0, 0)
	b = append(b, 6, 0, 0x70, 0x17, 0, 0, 0, 15)
	b = append(b, name...)
	b = append(b, info...)
	return b
}

var nbtFrame = []byte{0, 0, 0, 5, 'h', 'e', 'l', 'l', 'o'}

func entries() []entry {
	es := []entry{
		// --- SMB1
		{name: "message.Message.Unmarshal", run: func(in []byte) { message.NewMessage().Unmarshal(in) }, bases: smbMessageBases},
		um("header.Header.Unmarshal", func() unmarshaler { return header.NewHeader() }),
		um("parameters.Parameters.Unmarshal", func() unmarshaler { return parameters.NewParameters() }, []byte{2, 1, 2, 3, 4}),
		um("data.Data.Unmarshal", func() unmarshaler { return data.NewData() }, []byte{3, 0, 9, 8, 7}),
		um("andx.AndX.Unmarshal", func() unmarshaler { return andx.NewAndX() }),
		um("dialects.Dialects.Unmarshal", func() unmarshaler { return dialects.NewDialects() }, func() []byte {
			d := dialects.NewDialects()
			d.AddDialect("NT LM 0.12")
			d.AddDialect("LANMAN1.0")
			return mOf(d)
		}()),
		um("securityfeatures.SecurityFeaturesConnectionlessTransport.Unmarshal", func() unmarshaler { return securityfeatures.NewSecurityFeaturesConnectionlessTransport() }),
		um("securityfeatures.SecurityFeaturesReserved.Unmarshal", func() unmarshaler { return securityfeatures.NewSecurityFeaturesReserved() }),
		um("securityfeatures.SecurityFeaturesSecuritySignature.Unmarshal", func() unmarshaler { return securityfeatures.NewSecurityFeaturesSecuritySignature() }),
		um("types.SMB_DATE.Unmarshal", func() unmarshaler { return types.NewSMB_DATE() }),
		um("types.SMB_DIRECTORY_INFORMATION.Unmarshal", func() unmarshaler { return types.NewSMB_DIRECTORY_INFORMATION() }),
		um("types.LOCKING_ANDX_RANGE32.Unmarshal", func() unmarshaler { return &types.LOCKING_ANDX_RANGE32{} }),
		um("types.LOCKING_ANDX_RANGE64.Unmarshal", func() unmarshaler { return &types.LOCKING_ANDX_RANGE64{} }),
		um("types.SMB_NMPIPE_STATUS.Unmarshal", func() unmarshaler { return &types.SMB_NMPIPE_STATUS{} }, []byte{0x34, 0x12}),
		um("types.SMB_RESUME_KEY.Unmarshal", func() unmarshaler { return types.NewSMB_RESUME_KEY() }),
		um("types.OEM_STRING.Unmarshal", func() unmarshaler { return types.NewOEM_STRING() }, mOf(types.NewOEM_STRINGFromString("hello"))),
		um("types.SMB_FILE_ATTRIBUTES.Unmarshal", func() unmarshaler { var a types.SMB_FILE_ATTRIBUTES; return &a }, []byte{0x21, 0}),
		um("types.SMB_STRING.Unmarshal", func() unmarshaler { return types.NewSMB_STRING(nil) },
			[]byte{1, 3, 0, 'a', 'b', 'c'}, []byte{2, 'N', 'T', 0}, []byte{3, 'p', 'a', 't', 'h', 0}, []byte{4, 'x', 0}, []byte{5, 2, 0, 'h', 'i'}),
		um("version.Version.Unmarshal", func() unmarshaler { v := version.NewVersion(6, 1, 7601, 15); return &v }),
		um("data_structures.FILETIME.Unmarshal", func() unmarshaler { return data_structures.NewFILETIMEFromTime(time.Unix(1700000000, 0)) }),
		// --- SPNEGO / NTLMSSP
		{name: "spnego.ExtractNTLMToken", run: func(in []byte) { spnego.ExtractNTLMToken(in) }, bases: func() [][]byte {
			a, _ := spnego.CreateNegTokenInit([]byte("NTLMSSP\x00\x01\x00\x00\x00abcdefgh"))
			b, _ := spnego.CreateNegTokenInit(pat(300))
			return nonEmpty(a, b)
		}},
		{name: "spnego.ParseNegTokenResp", run: func(in []byte) { spnego.ParseNegTokenResp(in) }, bases: func() [][]byte {
			a, _ := spnego.CreateNegTokenResp(1, []int{1, 3, 6, 1, 4, 1, 311, 2, 2, 10}, []byte("NTLMSSP\x00\x02\x00\x00\x00abcdefgh"))
			b, _ := spnego.CreateNegTokenResp(0, []int{1, 3, 6, 1, 4, 1, 311, 2, 2, 10}, pat(200))
			return nonEmpty(a, b)
		}},
		{name: "spnego.AuthContext.ProcessChallengeToken", run: func(in []byte) {
			ctx := spnego.NewAuthContext(0, "DOM", "user", "pw", "WS", true)
			ctx.ProcessChallengeToken(in)
		}, bases: func() [][]byte {
			a, _ := spnego.CreateNegTokenResp(1, []int{1, 3, 6, 1, 4, 1, 311, 2, 2, 10}, challengeBase())
			return nonEmpty(a)
		}},
		{name: "ntlm.ParseChallengeMessage", run: func(in []byte) { ntlm.ParseChallengeMessage(in) }, bases: func() [][]byte { return [][]byte{challengeBase()} }},
		{name: "ntlm.ParseTargetInfo", run: func(in []byte) { ntlm.ParseTargetInfo(in) }, bases: func() [][]byte {
			return [][]byte{{2, 0, 4, 0, 'D', 0, 'O', 0, 1, 0, 2, 0, 'S', 0, 7, 0, 8, 0, 1, 2, 3, 4, 5, 6, 7, 8, 0, 0, 0, 0}}
		}},
		// --- LLMNR / NBNS / NBT
		{name: "llmnr.DecodeMessage", run: func(in []byte) { llmnr.DecodeMessage(in) }, bases: func() [][]byte { return [][]byte{llmnrBase(), llmnrCompressed()} }},
		{name: "llmnr.DecodeDomainName", run: func(in []byte) {
			for _, off := range []int{0, 1, 12, len(in) - 1, len(in)} {
				if off >= 0 && off <= len(in) { // the offset is the caller's: only positions inside the message
					llmnr.DecodeDomainName(in, off)
				}
			}
		}, bases: func() [][]byte {
			return [][]byte{{3, 'w', 'w', 'w', 7, 'e', 'x', 'a', 'm', 'p', 'l', 'e', 0xC0, 0, 0}, llmnrCompressed()}
		}},
		{name: "llmnr.DecodeQuestion", run: func(in []byte) {
			llmnr.DecodeQuestion(in, 0)
			if len(in) >= 12 {
				llmnr.DecodeQuestion(in, 12)
			}
		}, bases: func() [][]byte {
			return [][]byte{{1, 'a', 0, 0, 1, 0, 1}, llmnrBase()}
		}},
		{name: "llmnr.DecodeResourceRecord", run: func(in []byte) {
			llmnr.DecodeResourceRecord(in, 0)
			if len(in) >= 22 {
				llmnr.DecodeResourceRecord(in, 22)
			}
		}, bases: func() [][]byte {
			return [][]byte{{1, 'a', 0, 0, 1, 0, 1, 0, 0, 0, 30, 0, 4, 10, 0, 0, 1}, llmnrCompressed()}
		}},
		{name: "nbtns.NBTNSPacket.Unmarshal", run: func(in []byte) { (&nbtns.NBTNSPacket{}).Unmarshal(in) }, bases: func() [][]byte { return nonEmpty(nbnsBase()) }},
		txt("nbtns.FirstLevelDecode", func(s string) { nbtns.FirstLevelDecode(s) }, "EIEPFDFECACACACACACACACACACACACA", "EIEPFDFECACACACACACACACACACACACA.corp.example"),
		{name: "nbt.NBTTransport.Receive", run: func(in []byte) {
			nbtReceiveAll(in)
			// the adversary owns the stream: whatever length the (corrupted) header announces, it can also deliver that many
			// octets -- the same bytes once more, followed by filler up to the announced 17-bit length
			if len(in) >= 4 {
				if l := int(in[1]&1)<<16 | int(in[2])<<8 | int(in[3]); 4+l > len(in) {
					full := make([]byte, 4+l)
					copy(full, in)
					for i := len(in); i < len(full); i++ {
						full[i] = byte(i)
					}
					nbtReceiveAll(full)
				}
			}
		}, bases: func() [][]byte { return [][]byte{nbtFrame, append(append([]byte{}, nbtFrame...), nbtFrame...)} }},
		// --- key credentials, SID, GPP, PKCS#7, UTF-16
		{name: "keycredential.KeyCredential.FromBytes", run: func(in []byte) { (&keycredential.KeyCredential{}).FromBytes(in) }, bases: keyCredBases},
		{name: "keycredential.DNWithBinary.Parse", text: true, run: func(in []byte) { (&keycredential.DNWithBinary{}).Parse(in) }, bases: func() [][]byte {
			return [][]byte{[]byte("B:8:0A0B0C0D:CN=user,DC=corp,DC=example"), []byte("B:0::CN=x")}
		}},
		{name: "kccrypto.RSAKeyMaterial.FromBytes", run: func(in []byte) { (&kccrypto.RSAKeyMaterial{}).FromBytes(in) }, bases: rsaBases},
		{name: "key.CustomKeyInformation.FromBytes", run: func(in []byte) {
			for v := 0; v < 3; v++ {
				var kv key.KeyCredentialVersion
				kv.FromBytes([]byte{0, byte(v), 0, 0})
				(&key.CustomKeyInformation{}).FromBytes(in, kv)
			}
		}, bases: func() [][]byte { return [][]byte{{1, 0}, {1, 2, 0, 0, 0, 0, 0, 0, 0, 0, 0, 0}, pat(16)} }},
		{name: "key.KeyCredentialVersion.FromBytes", run: func(in []byte) { var v key.KeyCredentialVersion; v.FromBytes(in) }, bases: func() [][]byte { return [][]byte{{0, 2, 0, 0}} }},
		{name: "key.KeyStrength.FromBytes", run: func(in []byte) { var v key.KeyStrength; v.FromBytes(in) }, bases: func() [][]byte { return [][]byte{{1, 0, 0, 0}} }},
		{name: "key.KeySource.FromBytes", run: func(in []byte) { var v key.KeySource; v.FromBytes(in) }, bases: func() [][]byte { return [][]byte{{0}} }},
		{name: "kccrypto.SecretEncryptionType.FromBytes", run: func(in []byte) { var v kccrypto.SecretEncryptionType; v.FromBytes(in) }, bases: func() [][]byte { return [][]byte{{1}} }},
		{name: "ldap.ParseSIDFromBytes", run: func(in []byte) { ldap.ParseSIDFromBytes(in) }, bases: func() [][]byte {
			return [][]byte{{1, 5, 0, 0, 0, 0, 0, 5, 21, 0, 0, 0, 1, 2, 3, 4, 5, 6, 7, 8, 9, 10, 11, 12, 0xF4, 1, 0, 0}, {1, 1, 0, 0, 0, 0, 0, 5, 18, 0, 0, 0}, {1, 0, 0, 0, 0, 0, 0, 5}}
		}},
		{name: "gppp.GPPPDecryptBytes", run: func(in []byte) { gppp.GPPPDecryptBytes(in) }, bases: func() [][]byte { return [][]byte{pat(16), pat(32)} }},
		txt("gppp.GPPPDecryptBase64", func(s string) { gppp.GPPPDecryptBase64(s) }, "j1Uyj3Vx8TY9LtLZil2uAuZkFQA/4latT76ZwgdHdhw", "AAAAAAAAAAAAAAAAAAAAAA=="),
		{name: "pkcs7.Unpad", run: func(in []byte) { pkcs7.Unpad(in) }, bases: func() [][]byte {
			return [][]byte{{1, 2, 3, 4, 4, 4, 4, 4}, {16, 16, 16, 16, 16, 16, 16, 16, 16, 16, 16, 16, 16, 16, 16, 16}, {9, 1}}
		}},
		{name: "utf16.DecodeUTF16LE", run: func(in []byte) { utf16.DecodeUTF16LE(in) }, bases: func() [][]byte {
			return [][]byte{utf16.EncodeUTF16LE("héllo😀"), {0x3d, 0xd8, 0x00, 0xde, 'a', 0}}
		}},
		// --- UUID / GUID / addresses / credentials (text and binary)
		um("uuid.UUID.Unmarshal", func() unmarshaler { return &uuid.UUID{} }, pat(16)),
		um("uuid_v1.UUIDv1.Unmarshal", func() unmarshaler { return &uuid_v1.UUIDv1{} }, []byte{0x6b, 0xa7, 0xb8, 0x10, 0x9d, 0xad, 0x11, 0xd1, 0x80, 0xb4, 0x00, 0xc0, 0x4f, 0xd4, 0x30, 0xc8}),
		um("uuid_v2.UUIDv2.Unmarshal", func() unmarshaler { return &uuid_v2.UUIDv2{} }, []byte{0, 0, 4, 0xd2, 0x9d, 0xad, 0x21, 0xd1, 0x80, 1, 0x00, 0xc0, 0x4f, 0xd4, 0x30, 0xc8}),
		um("uuid_v8.UUIDv8.Unmarshal", func() unmarshaler { return &uuid_v8.UUIDv8{} }, []byte{1, 2, 3, 4, 5, 6, 0x87, 8, 0x89, 10, 11, 12, 13, 14, 15, 16}),
		{name: "uuid_v1.UUIDv1.FromBytes", run: func(in []byte) { (&uuid_v1.UUIDv1{}).FromBytes(in) }, bases: func() [][]byte {
			return [][]byte{{0x6b, 0xa7, 0xb8, 0x10, 0x9d, 0xad, 0x11, 0xd1, 0x80, 0xb4, 0x00, 0xc0, 0x4f, 0xd4, 0x30, 0xc8}}
		}},
		{name: "uuid_v2.UUIDv2.FromBytes", run: func(in []byte) { (&uuid_v2.UUIDv2{}).FromBytes(in) }, bases: func() [][]byte {
			return [][]byte{{0, 0, 4, 0xd2, 0x9d, 0xad, 0x21, 0xd1, 0x80, 1, 0x00, 0xc0, 0x4f, 0xd4, 0x30, 0xc8}}
		}},
		{name: "uuid_v8.UUIDv8.FromBytes", run: func(in []byte) { (&uuid_v8.UUIDv8{}).FromBytes(in) }, bases: func() [][]byte { return [][]byte{{1, 2, 3, 4, 5, 6, 0x87, 8, 0x89, 10, 11, 12, 13, 14, 15, 16}} }},
		txt("uuid.UUID.FromString", func(s string) { (&uuid.UUID{}).FromString(s) }, "6ba7b810-9dad-11d1-80b4-00c04fd430c8"),
		txt("uuid_v1.UUIDv1.FromString", func(s string) { (&uuid_v1.UUIDv1{}).FromString(s) }, "6ba7b810-9dad-11d1-80b4-00c04fd430c8"),
		txt("uuid_v2.UUIDv2.FromString", func(s string) { (&uuid_v2.UUIDv2{}).FromString(s) }, "000004d2-9dad-21d1-8001-00c04fd430c8"),
		txt("uuid_v8.UUIDv8.FromString", func(s string) { (&uuid_v8.UUIDv8{}).FromString(s) }, "01020304-0506-8708-890a-0b0c0d0e0f10"),
		{name: "guid.GUID.FromRawBytes", run: func(in []byte) { (&guid.GUID{}).FromRawBytes(in) }, bases: func() [][]byte { return [][]byte{pat(16)} }},
		txt("guid.FromString", func(s string) { guid.FromString(s) }, "00112233445566778899aabbccddeeff", "00112233-4455-6677-8899-aabbccddeeff",
			"{00112233-4455-6677-8899-aabbccddeeff}", "(00112233-4455-6677-8899-aabbccddeeff)", "{0x00112233,0x4455,0x6677,{0x88,0x99,0xaa,0xbb,0xcc,0xdd,0xee,0xff}}"),
		txt("guid.FromFormatN", func(s string) { guid.FromFormatN(s) }, "00112233445566778899aabbccddeeff"),
		txt("guid.FromFormatD", func(s string) { guid.FromFormatD(s) }, "00112233-4455-6677-8899-aabbccddeeff"),
		txt("guid.FromFormatB", func(s string) { guid.FromFormatB(s) }, "{00112233-4455-6677-8899-aabbccddeeff}"),
		txt("guid.FromFormatP", func(s string) { guid.FromFormatP(s) }, "(00112233-4455-6677-8899-aabbccddeeff)"),
		txt("guid.FromFormatX", func(s string) { guid.FromFormatX(s) }, "{0x00112233,0x4455,0x6677,{0x88,0x99,0xaa,0xbb,0xcc,0xdd,0xee,0xff}}"),
		txt("ip.NewIPv4FromString", func(s string) { ip.NewIPv4FromString(s) }, "192.168.1.10", "10.0.0.0/8", "1/2"),
		txt("ip.NewIPv6FromString", func(s string) { ip.NewIPv6FromString(s) }, "2001:0db8:0000:0000:0000:ff00:0042:8329", "::1", "fe80::1/64"),
		txt("ip.NewTCPPortRangeFromString", func(s string) { ip.NewTCPPortRangeFromString(s) }, "1-1024", "80", " 20 - 25 "),
		txt("credentials.ParseLMNTHashes", func(s string) { credentials.ParseLMNTHashes(s) }, "aad3b435b51404eeaad3b435b51404ee:31d6cfe0d16ae931b73c59d7e0c089c0", ":31d6cfe0d16ae931b73c59d7e0c089c0", "31d6cfe0d16ae931b73c59d7e0c089c0"),
	}
	// the 28 information-level structures
	ilTypes := []interface{}{&il.SMB_FIND_FILE_BOTH_DIRECTORY_INFO{}, &il.SMB_FIND_FILE_DIRECTORY_INFO{}, &il.SMB_FIND_FILE_FULL_DIRECTORY_INFO{}, &il.SMB_FIND_FILE_NAMES_INFO{},
		&il.SMB_INFO_ALLOCATION{}, &il.SMB_INFO_IS_NAME_VALID{}, &il.SMB_INFO_QUERY_ALL_EAS{}, &il.SMB_INFO_QUERY_EAS_FROM_LIST{}, &il.SMB_INFO_QUERY_EA_SIZE{}, &il.SMB_INFO_SET_EAS{},
		&il.SMB_INFO_STANDARD{}, &il.SMB_INFO_VOLUME{}, &il.SMB_QUERY_FILE_ALL_INFO{}, &il.SMB_QUERY_FILE_ALT_NAME_INFO{}, &il.SMB_QUERY_FILE_BASIC_INFO{}, &il.SMB_QUERY_FILE_COMRESSION_INFO{},
		&il.SMB_QUERY_FILE_EA_INFO{}, &il.SMB_QUERY_FILE_NAME_INFO{}, &il.SMB_QUERY_FILE_STANDARD_INFO{}, &il.SMB_QUERY_FILE_STREAM_INFO{}, &il.SMB_QUERY_FS_ATTRIBUTE_INFO{},
		&il.SMB_QUERY_FS_DEVICE_INFO{}, &il.SMB_QUERY_FS_SIZE_INFO{}, &il.SMB_QUERY_FS_VOLUME_INFO{}, &il.SMB_SET_FILE_ALLOCATION_INFO{}, &il.SMB_SET_FILE_BASIC_INFO{},
		&il.SMB_SET_FILE_DISPOSITION_INFO{}, &il.SMB_SET_FILE_END_OF_FILE_INFO{}}
	for _, v := range ilTypes {
		t := reflect.TypeOf(v).Elem()
		if _, ok := v.(unmarshaler); !ok {
			continue
		}
		tt := t
		es = append(es, um("informationlevels."+t.Name()+".Unmarshal", func() unmarshaler { return reflect.New(tt).Interface().(unmarshaler) }, pat(96)))
	}
	sort.SliceStable(es, func(i, j int) bool { return es[i].name < es[j].name })
	return es
}

func rsaBases() [][]byte {
	mod := pat(64)
	b := []byte("RSA1")
	le := func(n int) []byte { return []byte{byte(n), byte(n >> 8), byte(n >> 16), byte(n >> 24)} }
	b = append(b, le(512)...)
	b = append(b, le(3)...)
	b = append(b, le(64)...)
	b = append(b, le(0)...)
	b = append(b, le(0)...)
	b = append(b, 1, 0, 1)
	b = append(b, mod...)
	return [][]byte{b}
}

func keyCredBases() [][]byte {
	// version 2 blob with entries: KeyID(1) KeyHash(2) KeyMaterial(3) KeyUsage(4) KeySource(5) DeviceId(6) CustomKeyInformation(7) times (8, 9)
	ent := func(t byte, v []byte) []byte { return append([]byte{byte(len(v)), byte(len(v) >> 8), t}, v...) }
	b := []byte{0, 2, 0, 0}
	b = append(b, ent(1, pat(32))...)
	b = append(b, ent(2, pat(32))...)
	b = append(b, ent(3, rsaBases()[0])...)
	b = append(b, ent(4, []byte{1})...)
	b = append(b, ent(5, []byte{0})...)
	b = append(b, ent(6, pat(16))...)
	b = append(b, ent(7, []byte{1, 0})...)
	b = append(b, ent(8, pat(8))...)
	b = append(b, ent(9, pat(8))...)
	return [][]byte{b, {0, 2, 0, 0}}
}

type baseRec struct {
	E string  `json:"e"`
	T string  `json:"t"`
	B h.Bytes `json:"b"`
}

func allBases() []baseRec {
	var out []baseRec
	for _, e := range entries() {
		t := "b"
		if e.text {
			t = "t"
		}
		var bs [][]byte
		h.Guard(func() { bs = e.bases() })
		for _, b := range bs {
			if len(b) > 400 {
				b = b[:400]
			}
			out = append(out, baseRec{E: e.name, T: t, B: b})
		}
	}
	return out
}

func c07Bases(c *h.Ctx) error {
	bs := allBases()
	maxBases := c.OptInt("maxsmb", 0)
	if maxBases > 0 { // quick tier: a seeded subset of the SMB message bases
		seed := c.OptInt("seed", 1)
		var kept []baseRec
		k := 0
		for _, b := range bs {
			if b.E == "message.Message.Unmarshal" {
				k++
				if (k+seed)%((150/maxBases)+1) != 0 {
					continue
				}
			}
			kept = append(kept, b)
		}
		bs = kept
	}
	f, err := os.Create(c.Opt("out", "bases.json"))
	if err != nil {
		return err
	}
	defer f.Close()
	if err := json.NewEncoder(f).Encode(bs); err != nil {
		return err
	}
	names := map[string]bool{}
	for _, b := range bs {
		names[b.E] = true
	}
	c.Set("bases", len(bs))
	c.Set("entry_points", len(names))
	return nil
}

type mutRec struct {
	K string          `json:"k"`
	P int             `json:"p"`
	W int             `json:"w"`
	V json.RawMessage `json:"v"`
}

type hostileCase struct {
	I int      `json:"i"`
	M []mutRec `json:"m"`
	X h.Bytes  `json:"x"`
	C bool     `json:"c"`
}

func applyMut(s []byte, m mutRec) []byte {
	out := append([]byte(nil), s...)
	switch m.K {
	case "trunc":
		return out[:m.P]
	case "set":
		var v int
		json.Unmarshal(m.V, &v)
		out[m.P-1] = byte(v)
	case "run":
		var v []int
		json.Unmarshal(m.V, &v)
		for i := 0; i < m.W; i++ {
			out[m.P-1+i] = byte(v[i])
		}
	case "app":
		var v int
		json.Unmarshal(m.V, &v)
		for i := 0; i < m.P; i++ {
			out = append(out, byte(v))
		}
	case "del":
		return append(out[:m.P-1], out[m.P:]...)
	case "dup":
		return append(out[:m.P], append([]byte{out[m.P-1]}, out[m.P:]...)...)
	}
	return out
}

var repoFrame = regexp.MustCompile(`github\.com/TheManticoreProject/Manticore/([^\s(]+(?:\([^)]*\))?[^\s(]*)\(`)

// panicSite names the innermost library function on the panicking stack.
func panicSite(stack string) string {
	for _, ln := range strings.Split(stack, "\n") {
		if m := repoFrame.FindStringSubmatch(ln); m != nil {
			f := m[1]
			if i := strings.LastIndex(f, "/"); i >= 0 {
				f = f[i+1:]
			}
			return f
		}
	}
	return "unknown"
}

func panicClass(msg string) string {
	switch {
	case strings.Contains(msg, "index out of range"):
		return "index"
	case strings.Contains(msg, "slice bounds out of range"):
		return "slice-bounds"
	case strings.Contains(msg, "nil pointer"):
		return "nil-deref"
	case strings.Contains(msg, "makeslice"):
		return "makeslice"
	case strings.Contains(msg, "Repeat"):
		return "repeat-count"
	case strings.Contains(msg, "interface conversion"):
		return "type-assert"
	case strings.Contains(msg, "divide"):
		return "divide"
	}
	return "other"
}

func c07Replay(c *h.Ctx) error {
	raw, err := os.ReadFile(c.Opt("bases", "bases.json"))
	if err != nil {
		return err
	}
	var bs []baseRec
	if err := json.Unmarshal(raw, &bs); err != nil {
		return err
	}
	byName := map[string]entry{}
	for _, e := range entries() {
		byName[e.name] = e
	}
	perEntry := map[string]int{}
	applyChecked := 0
	// A runaway recursion ends in "fatal error: stack overflow", which recover() cannot catch: the process dies. The
	// orchestrator then bisects with to=<k> (execute only the first k cases) and reports the culprit with describe=<k>.
	debug.SetMaxStack(64 << 20)
	limit := c.OptInt("to", -1)
	describe := c.OptInt("describe", -1)
	lineNo := -1
	var ms runtime.MemStats
	hung := 0
	err = c.Lines(func(line []byte) error {
		var hc hostileCase
		if err := json.Unmarshal(line, &hc); err != nil {
			return err
		}
		if hc.I < 1 || hc.I > len(bs) {
			return fmt.Errorf("base index %d out of range", hc.I)
		}
		lineNo++
		if limit >= 0 && lineNo >= limit {
			return nil
		}
		b := bs[hc.I-1]
		e, ok := byName[b.E]
		if !ok {
			return fmt.Errorf("unknown entry %s", b.E)
		}
		in := []byte(b.B)
		for _, m := range hc.M {
			in = applyMut(in, m)
		}
		if describe >= 0 {
			if lineNo == describe {
				c.Fail(b.E, c.Opt("aspect", "process-killed"), fmt.Sprintf("the process died while decoding this %d-byte input (base %d, corruptions %s): %s", len(in), hc.I, mutString(hc.M), c.Opt("why", "")),
					map[string]interface{}{"input_hex": h.Hex(in), "entry": b.E})
			}
			return nil
		}
		if hc.C {
			applyChecked++
			if string(in) != string(hc.X) {
				return fmt.Errorf("Apply mismatch between the specification and the harness for base %d mutations %+v", hc.I, hc.M)
			}
		}
		key := ""
		if len(hc.M) > 0 {
			key = fmt.Sprintf("%d:%x", hc.I, in)
			if len(key) > 80 {
				key = key[:80]
			}
		}
		c.Case(key)
		perEntry[b.E]++
		if hung > 0 {
			// a call that did not return is still running in its goroutine (possibly allocating): every later
			// measurement in this process would be polluted, so this shard stops executing here (the hang is reported)
			return nil
		}
		runtime.ReadMemStats(&ms)
		before := ms.TotalAlloc
		type outcome struct{ pan, stack string }
		done := make(chan outcome, 1)
		input := append([]byte(nil), in...)
		go func() {
			var o outcome
			defer func() {
				if r := recover(); r != nil {
					o.pan = fmt.Sprint(r)
					buf := make([]byte, 16384)
					o.stack = string(buf[:runtime.Stack(buf, false)])
				}
				done <- o
			}()
			e.run(input)
		}()
		ctx, cancel := context.WithTimeout(context.Background(), 2*time.Second)
		select {
		case o := <-done:
			cancel()
			c.Exec(1)
			if o.pan != "" {
				// skip frames of the runtime/panic machinery and of the harness: first library frame below the panic
				st := o.stack
				if i := strings.Index(st, "panic("); i >= 0 {
					st = st[i:]
				}
				site := panicSite(st)
				c.Fail(b.E, "panic:"+site+":"+panicClass(o.pan), fmt.Sprintf("%s on %d-byte input (base %d, corruptions %s)", o.pan, len(in), hc.I, mutString(hc.M)),
					map[string]interface{}{"input_hex": h.Hex(in), "entry": b.E})
			}
		case <-ctx.Done():
			cancel()
			hung++
			c.Fail(b.E, "no-return", fmt.Sprintf("did not return within 2 s on %d-byte input (base %d, corruptions %s)", len(in), hc.I, mutString(hc.M)),
				map[string]interface{}{"input_hex": h.Hex(in), "entry": b.E})
		}
		runtime.ReadMemStats(&ms)
		if d := ms.TotalAlloc - before; d > uint64(64*len(in)+(1<<20)) {
			c.Fail(b.E, "allocation", fmt.Sprintf("allocated %d bytes for a %d-byte input (budget 64*len + 1 MiB) (base %d, corruptions %s)", d, len(in), hc.I, mutString(hc.M)),
				map[string]interface{}{"input_hex": h.Hex(in), "entry": b.E})
		}
		return nil
	})
	if err != nil {
		return err
	}
	c.Set("entry_points_exercised", len(perEntry))
	c.Set("apply_cross_checks", applyChecked)
	c.Set("hung", hung)
	c.Sample(map[string]interface{}{"entry": bs[0].E, "base_hex": h.Hex(bs[0].B)})
	_ = net.IP{}
	return nil
}

func mutString(ms []mutRec) string {
	var out []string
	for _, m := range ms {
		out = append(out, fmt.Sprintf("%s(p=%d,w=%d,v=%s)", m.K, m.P, m.W, string(m.V)))
	}
	return strings.Join(out, ";")
}

// nbtReceiveAll feeds the stream `in` (everything granted at once, then end of stream) to a fresh transport and receives until an error.
func nbtReceiveAll(in []byte) {
	t := nbt.NewNBTTransport()
	f := &feedConn{req: make(chan int, 4), grants: make(chan grant, 4), data: in}
	done := make(chan struct{})
	go func() { // grant everything, then EOF
		for range f.req {
			f.mu.Lock()
			left := len(f.data) - f.pos
			f.mu.Unlock()
			if left == 0 {
				f.grants <- grant{eof: true}
			} else {
				f.grants <- grant{n: left}
			}
		}
		close(done)
	}()
	t.VerifSetConn(f)
	for i := 0; i < 4; i++ {
		if _, err := t.Receive(); err != nil {
			break
		}
	}
	close(f.req)
	<-done
}
