package drivers

// C09: the LLMNR codec (network/llmnr) bound to spec/DNSName.tla, LLMNRMsg.tla, C09Cases.tla, TraceLLMNR.tla.
//
//   c09.cases   model -> code: every case TLC enumerated (section shapes, large RDATA, single names, pointer arenas)
//               is executed on the real code and compared with what the specification computed:
//                 DecodeMessage(m.Encode()) == m                      (round trip, abstract content)
//                 DecodeMessage(spec plain / spec compressed) == m    (library reads the independent codec's output)
//                 DecodeDomainName / DecodeMessage on every arena     (expected name, expected rejection of
//                                                                      non-backward pointers, termination)
//               and every byte string the library produced is written to the trace file, where TLC parses it with
//               the specification's decoder (independent codec reads the library's output).
//   c09.record  code -> model: seeded random messages (all 256 label octets, random section sizes, TTLs, RDATA),
//               their library encodings, hand-compressed and mutated wire images and what the library decoded
//               from them; TLC judges every line (TraceLLMNR.tla).
//
// Names travel as label sequences; the dotted text the library's API wants is made here ("" for the root).

import (
	"bytes"
	"encoding/hex"
	"encoding/json"
	"fmt"
	"math/rand"
	"os"
	"runtime/debug"
	"strconv"
	"strings"
	"time"

	"github.com/TheManticoreProject/Manticore/network/llmnr"
	"verif/harness/h"
)

func init() {
	h.Register("c09.cases", c09Cases)
	h.Register("c09.record", c09Record)
	h.Register("c09.decode1", c09Decode1)
}

// c09Decode1 decodes ONE wire image (hex=<hex> starts=<o1,o2,..>) in a process of its own: the orchestrator uses it
// to confirm that a driver process died of a stack overflow inside the library on exactly this input.
func c09Decode1(c *h.Ctx) error {
	debug.SetMaxStack(256 << 20)
	data, err := hex.DecodeString(c.Opt("hex", ""))
	if err != nil {
		return err
	}
	for _, f := range strings.Split(c.Opt("starts", ""), ",") {
		if off, err := strconv.Atoi(f); err == nil {
			h.Guard(func() { llmnr.DecodeDomainName(data, off) })
			c.Exec(1)
		}
	}
	h.Guard(func() { llmnr.DecodeMessage(data) })
	c.Exec(1)
	return nil
}

type c09Q struct {
	N []h.Bytes `json:"n"`
	T int       `json:"t"`
	C int       `json:"c"`
}

type c09RR struct {
	N   []h.Bytes `json:"n"`
	T   int       `json:"t"`
	C   int       `json:"c"`
	TTL [2]int    `json:"ttl"`
	RD  h.Bytes   `json:"rd"`
}

type c09Msg struct {
	ID    int     `json:"id"`
	Flags int     `json:"flags"`
	QD    []c09Q  `json:"qd"`
	AN    []c09RR `json:"an"`
	NS    []c09RR `json:"ns"`
	AR    []c09RR `json:"ar"`
}

type c09NameRes struct {
	OK      bool      `json:"ok"`
	Why     string    `json:"why"`
	Name    []h.Bytes `json:"name"`
	End     int       `json:"end"`
	Ptrs    []int     `json:"ptrs"`
	Canon   bool      `json:"canon"`
	RootPtr bool      `json:"rootptr"`
}

type c09Case struct {
	K      string          `json:"k"`
	Shape  []int           `json:"shape"`
	M      c09Msg          `json:"m"`
	Plain  h.Bytes         `json:"plain"`
	Packed h.Bytes         `json:"packed"`
	N      []h.Bytes       `json:"n"`
	Enc    h.Bytes         `json:"enc"`
	Fam    string          `json:"fam"`
	Es     json.RawMessage `json:"es"`
	Data   h.Bytes         `json:"data"`
	Starts []int           `json:"starts"`
	Names  []c09NameRes    `json:"names"`
	Msg    struct {
		OK    bool   `json:"ok"`
		At    string `json:"at"`
		Why   string `json:"why"`
		QD    []c09Q `json:"qd"`
		Canon bool   `json:"canon"`
	} `json:"msg"`
}

func c09Text(n []h.Bytes, root string) string {
	if len(n) == 0 {
		return root
	}
	parts := make([]string, len(n))
	for i, l := range n {
		parts[i] = string(l)
	}
	return strings.Join(parts, ".")
}

// c09Labels reads the library's dotted text back into labels; "" and "." both denote the root.
func c09Labels(text string) []h.Bytes {
	if text == "" || text == "." {
		return []h.Bytes{}
	}
	parts := strings.Split(text, ".")
	out := make([]h.Bytes, len(parts))
	for i, p := range parts {
		out[i] = h.Bytes(p)
	}
	return out
}

func c09SameName(a, b []h.Bytes) bool {
	if len(a) != len(b) {
		return false
	}
	for i := range a {
		if !bytes.Equal(a[i], b[i]) {
			return false
		}
	}
	return true
}

func c09LibRR(r c09RR, root string) llmnr.ResourceRecord {
	return llmnr.ResourceRecord{Name: c09Text(r.N, root), Type: uint16(r.T), Class: uint16(r.C),
		TTL: uint32(r.TTL[0])<<16 | uint32(r.TTL[1]), RDLength: uint16(len(r.RD)), RData: append([]byte{}, r.RD...)}
}

// c09Build makes the library's message through its public API (AddQuestion / AddAnswer) where one exists.
func c09Build(m c09Msg, root string) (*llmnr.Message, error) {
	lm := llmnr.NewMessage()
	lm.ID, lm.Flags = uint16(m.ID), uint16(m.Flags)
	for _, q := range m.QD {
		if err := lm.AddQuestion(c09Text(q.N, root), uint16(q.T), uint16(q.C)); err != nil {
			return nil, fmt.Errorf("AddQuestion: %v", err)
		}
	}
	for _, r := range m.AN {
		if err := lm.AddAnswer(c09LibRR(r, root)); err != nil {
			return nil, fmt.Errorf("AddAnswer: %v", err)
		}
	}
	for _, r := range m.NS {
		lm.Authority = append(lm.Authority, c09LibRR(r, root))
	}
	for _, r := range m.AR {
		lm.Additional = append(lm.Additional, c09LibRR(r, root))
	}
	lm.NSCount, lm.ARCount = uint16(len(lm.Authority)), uint16(len(lm.Additional))
	return lm, nil
}

func c09AbsRRs(rrs []llmnr.ResourceRecord) []c09RR {
	out := make([]c09RR, 0, len(rrs))
	for _, r := range rrs {
		out = append(out, c09RR{N: c09Labels(r.Name), T: int(r.Type), C: int(r.Class),
			TTL: [2]int{int(r.TTL >> 16), int(r.TTL & 0xFFFF)}, RD: append(h.Bytes{}, r.RData...)})
	}
	return out
}

func c09Abs(lm *llmnr.Message) c09Msg {
	m := c09Msg{ID: int(lm.ID), Flags: int(lm.Flags), QD: make([]c09Q, 0, len(lm.Questions))}
	for _, q := range lm.Questions {
		m.QD = append(m.QD, c09Q{N: c09Labels(q.Name), T: int(q.Type), C: int(q.Class)})
	}
	m.AN, m.NS, m.AR = c09AbsRRs(lm.Answers), c09AbsRRs(lm.Authority), c09AbsRRs(lm.Additional)
	return m
}

func c09SameQs(a, b []c09Q) bool {
	if len(a) != len(b) {
		return false
	}
	for i := range a {
		if !c09SameName(a[i].N, b[i].N) || a[i].T != b[i].T || a[i].C != b[i].C {
			return false
		}
	}
	return true
}

func c09SameRRs(a, b []c09RR) bool {
	if len(a) != len(b) {
		return false
	}
	for i := range a {
		if !c09SameName(a[i].N, b[i].N) || a[i].T != b[i].T || a[i].C != b[i].C || a[i].TTL != b[i].TTL || !bytes.Equal(a[i].RD, b[i].RD) {
			return false
		}
	}
	return true
}

// c09Diff names the parts in which a decoded library message differs from the expected abstract message.
func c09Diff(want c09Msg, lm *llmnr.Message) []string {
	got := c09Abs(lm)
	var d []string
	if got.ID != want.ID {
		d = append(d, "Header.ID")
	}
	if got.Flags != want.Flags {
		d = append(d, "Header.Flags")
	}
	for _, x := range []struct {
		name string
		got  uint16
		want int
	}{{"Header.QDCount", lm.QDCount, len(want.QD)}, {"Header.ANCount", lm.ANCount, len(want.AN)},
		{"Header.NSCount", lm.NSCount, len(want.NS)}, {"Header.ARCount", lm.ARCount, len(want.AR)}} {
		if int(x.got) != x.want {
			d = append(d, x.name)
		}
	}
	if !c09SameQs(got.QD, want.QD) {
		d = append(d, "Questions")
	}
	if !c09SameRRs(got.AN, want.AN) {
		d = append(d, "Answers")
	}
	if !c09SameRRs(got.NS, want.NS) {
		d = append(d, "Authority")
	}
	if !c09SameRRs(got.AR, want.AR) {
		d = append(d, "Additional")
	}
	for _, sec := range [][]llmnr.ResourceRecord{lm.Answers, lm.Authority, lm.Additional} {
		for _, r := range sec {
			if int(r.RDLength) != len(r.RData) {
				d = append(d, "RDLength")
			}
		}
	}
	return d
}

// c09Run executes fn on the real code with a panic guard and a watchdog: decoding has to terminate.
func c09Run(fn func()) (panicked string, hung bool) {
	done := make(chan string, 1)
	go func() { done <- h.Guard(fn) }()
	select {
	case p := <-done:
		return p, false
	case <-time.After(5 * time.Second):
		return "", true
	}
}

func c09Short(b []byte) interface{} {
	if len(b) > 96 {
		return map[string]interface{}{"len": len(b), "head_hex": h.Hex(b[:96])}
	}
	return h.Hex(b)
}

type c09Cur struct{ f *os.File }

// note writes the case about to run to <out>.cur, so that a fatal stack overflow inside the library
// (which no recover() can catch) can still be attributed to its input by the orchestrator.
func (c *c09Cur) note(v interface{}) {
	if c.f == nil {
		return
	}
	b, _ := json.Marshal(v)
	c.f.Truncate(0)
	c.f.WriteAt(b, 0)
}

func c09Cases(c *h.Ctx) error {
	debug.SetMaxStack(256 << 20)
	cur := &c09Cur{}
	if p := c.Opt("cur", ""); p != "" {
		f, err := os.Create(p)
		if err != nil {
			return err
		}
		defer f.Close()
		cur.f = f
	}
	stats := map[string]int{}
	err := c.Lines(func(raw []byte) error {
		var k c09Case
		if err := json.Unmarshal(raw, &k); err != nil {
			return err
		}
		stats[k.K]++
		switch k.K {
		case "msg", "big", "rootdot":
			c09MsgCase(c, &k, stats)
		case "name":
			c09NameCase(c, &k)
		case "badname":
			text := c09Text(k.N, "")
			c.Case("badname:" + h.Hex([]byte(text)))
			_, err := llmnr.EncodeDomainName(text)
			c.Exec(1)
			if err == nil {
				c.Drift("llmnr.EncodeDomainName", "accepts-name-outside-domain", fmt.Sprintf("%d labels, text length %d encoded without error", len(k.N), len(text)), nil)
			}
		case "arena":
			c09ArenaCase(c, &k, cur, stats)
		default:
			return fmt.Errorf("unknown case kind %q", k.K)
		}
		return nil
	})
	for k, v := range stats {
		c.Set("n_"+k, v)
	}
	return err
}

func c09EmitEnc(c *h.Ctx, kind string, m interface{}, out []byte, failed bool) {
	b, _ := json.Marshal(map[string]interface{}{"op": "enc", "k": kind, "m": m, "out": h.Bytes(out), "err": failed})
	c.Emit(b)
}

func c09MsgCase(c *h.Ctx, k *c09Case, stats map[string]int) {
	root, pre := "", ""
	if k.K == "rootdot" {
		// write the root name exactly as the library's own decoder prints it ("." on the pinned tree)
		var derr error
		if p := h.Guard(func() { root, _, derr = llmnr.DecodeDomainName([]byte{0}, 0) }); p != "" || derr != nil {
			c.Drift("llmnr.DecodeDomainName", "root-name-not-decoded", fmt.Sprint(p, derr), nil)
			return
		}
		pre = "root-as-dot:"
	}
	c.Case(fmt.Sprintf("%s:%v", k.K, k.Shape))
	smp := map[string]interface{}{"kind": k.K, "shape_q_an_ns_ar_variant": k.Shape, "spec_plain": c09Short(k.Plain)}
	c.Sample(smp)
	lm, err := c09Build(k.M, root)
	if err != nil {
		c.Fail("llmnr.Message.AddQuestion", pre+"rejects-valid-name", err.Error(), smp)
		return
	}
	if verr := lm.Validate(); verr != nil {
		c.Drift("llmnr.Message.Validate", pre+"rejects-valid-message", verr.Error(), smp)
	}
	// an Encode that FAILS part-way (second question with a 64-byte label) immediately before the valid one: a rejected
	// call leaves nothing behind, in the message or in the package
	h.Guard(func() {
		bad := llmnr.NewMessage()
		bad.ID = 0xBAD0
		bad.Questions = []llmnr.Question{{Name: "ok", Type: 1, Class: 1}, {Name: strings.Repeat("x", 64) + ".local", Type: 1, Class: 1}}
		bad.QDCount = 2
		bad.Encode()
	})
	var out []byte
	var eerr error
	if p, hung := c09Run(func() { out, eerr = lm.Encode() }); p != "" || hung {
		c.Fail("llmnr.Message.Encode", pre+"panic", p, smp)
		return
	}
	c.Exec(1)
	c.Retain("llmnr.Message.Encode", out, smp)
	c09EmitEnc(c, k.K, k.M, out, eerr != nil) // TLC parses the library's bytes with the specification's decoder
	if eerr != nil {
		return
	}
	if bytes.Equal(out, k.Plain) {
		stats["lib_bytes_equal_spec_plain"]++
	}
	// (1) round trip through the library
	judge := func(what string, data []byte, aspect string) {
		var dm *llmnr.Message
		var derr error
		p, hung := c09Run(func() { dm, derr = llmnr.DecodeMessage(data) })
		c.Exec(1)
		s2 := map[string]interface{}{"kind": k.K, "shape_q_an_ns_ar_variant": k.Shape, "input": what, "wire": c09Short(data)}
		switch {
		case hung:
			c.Fail("llmnr.DecodeMessage", pre+"non-termination", "no result after 5 s on "+what, s2)
			c.StopAfterHang()
		case p != "":
			c.Fail("llmnr.DecodeMessage", pre+aspect+":panic", p, s2)
		case derr != nil:
			if pre != "" {
				c.Fail("llmnr.DecodeMessage", pre+aspect, what+": "+derr.Error(), s2)
			} else {
				c.Fail("llmnr.DecodeMessage", aspect+":rejected", what+": "+derr.Error(), s2)
			}
		default:
			// the decoded message must not reference its input: the library's own Server.Serve and Client.readLoop decode
			// every datagram from ONE reused buffer and hand the message to another goroutine
			before := c09Diff(k.M, dm)
			scratch := append([]byte(nil), data...)
			if len(before) == 0 {
				var dm2 *llmnr.Message
				if p2, _ := c09Run(func() { dm2, _ = llmnr.DecodeMessage(scratch) }); p2 == "" && dm2 != nil {
					for i := range scratch {
						scratch[i] ^= 0x5A
					}
					if after := c09Diff(k.M, dm2); len(after) > 0 {
						c.Fail("llmnr.DecodeMessage", pre+"decoded-message-references-input", fmt.Sprintf("%s: after the input buffer was overwritten the decoded message differs in %v", what, after), s2)
					}
				}
			}
			d := before
			if pre != "" && len(d) > 0 {
				c.Fail("llmnr.DecodeMessage", pre+aspect, fmt.Sprintf("%s: differs in %v", what, d), s2)
				return
			}
			for _, part := range d {
				c.Fail("llmnr.DecodeMessage", aspect+":"+part, fmt.Sprintf("%s: decoded message differs from the encoded one in %s (all differing parts: %v)", what, part, d), s2)
			}
		}
	}
	judge("the library's own encoding", out, "roundtrip")
	// (2) the library reads the independent codec's output, uncompressed and compressed
	judge("RFC 1035 encoding without compression", k.Plain, "decode-rfc1035")
	if !bytes.Equal(k.Packed, k.Plain) {
		stats["compressed_differs"]++
		judge("RFC 1035 encoding with name compression", k.Packed, "decode-rfc1035")
	}
}

func c09NameCase(c *h.Ctx, k *c09Case) {
	text := c09Text(k.N, "")
	c.Case("name:" + h.Hex([]byte(text)))
	smp := map[string]interface{}{"labels": len(k.N), "text_hex": c09Short([]byte(text))}
	if err := llmnr.ValidateDomainName(text); err != nil {
		c.Drift("llmnr.ValidateDomainName", "rejects-valid-name", err.Error(), smp)
	}
	enc, err := llmnr.EncodeDomainName(text)
	c.Exec(1)
	c.Retain("llmnr.EncodeDomainName", enc, smp)
	b, _ := json.Marshal(map[string]interface{}{"op": "encname", "n": k.N, "out": h.Bytes(enc), "err": err != nil})
	c.Emit(b)
	if err != nil {
		return
	}
	for _, in := range []struct {
		what, aspect string
		data         []byte
	}{{"own encoding", "roundtrip", enc}, {"RFC 1035 encoding", "decode-rfc1035", k.Enc}} {
		if in.aspect != "roundtrip" && bytes.Equal(enc, k.Enc) {
			continue
		}
		var got string
		var off int
		var derr error
		p, hung := c09Run(func() { got, off, derr = llmnr.DecodeDomainName(in.data, 0) })
		c.Exec(1)
		switch {
		case hung || p != "":
			c.Fail("llmnr.DecodeDomainName", in.aspect+":panic-or-hang", p, smp)
			if hung {
				c.StopAfterHang()
			}
		case derr != nil:
			c.Fail("llmnr.DecodeDomainName", in.aspect+":rejected", in.what+": "+derr.Error(), smp)
		default:
			if !c09SameName(c09Labels(got), k.N) {
				c.Fail("llmnr.DecodeDomainName", in.aspect+":name", fmt.Sprintf("%s decodes to %q", in.what, got), smp)
			}
			if off != len(in.data) {
				c.Fail("llmnr.DecodeDomainName", in.aspect+":offset", fmt.Sprintf("%s: next offset %d, want %d", in.what, off, len(in.data)), smp)
			}
		}
	}
}

func c09ArenaCase(c *h.Ctx, k *c09Case, cur *c09Cur, stats map[string]int) {
	c.Case("arena:" + h.Hex(k.Data))
	cur.note(map[string]interface{}{"wire_hex": h.Hex(k.Data), "starts": k.Starts, "case": "arena " + k.Fam})
	anyRootPtr := false
	for i, s := range k.Starts {
		want := k.Names[i]
		anyRootPtr = anyRootPtr || want.RootPtr
		var got string
		var off int
		var derr error
		p, hung := c09Run(func() { got, off, derr = llmnr.DecodeDomainName(k.Data, s) })
		c.Exec(1)
		s2 := map[string]interface{}{"arena_hex": h.Hex(k.Data), "offset": s, "spec": map[string]interface{}{"ok": want.OK, "why": want.Why, "name": want.Name, "end": want.End, "pointers_followed": want.Ptrs}}
		site := "llmnr.DecodeDomainName"
		if hung {
			c.Fail(site, "non-termination", fmt.Sprintf("no result after 5 s at offset %d", s), s2)
			c.StopAfterHang()
			continue
		}
		switch {
		case want.OK:
			stats["arena_name_ok"]++
			report := c.Fail
			if !want.Canon { // a pointer into the header / the middle of a label / type-class octets: no encoder writes this
				report = c.Drift
			}
			aspect := "compressed-decode"
			if !want.Canon { // (h caps reports per (site, aspect): keep drift and P identities apart)
				aspect = "noncanonical-pointer-decode"
			}
			if want.RootPtr {
				aspect += ":pointer-to-root"
			}
			switch {
			case p != "":
				report(site, aspect+":panic", p, s2)
			case derr != nil:
				report(site, aspect+":rejected", derr.Error(), s2)
			case !c09SameName(c09Labels(got), want.Name):
				if want.RootPtr {
					report(site, aspect, fmt.Sprintf("decodes to %q", got), s2)
				} else {
					report(site, aspect+":name", fmt.Sprintf("decodes to %q", got), s2)
				}
			case off != want.End:
				report(site, aspect+":offset", fmt.Sprintf("next offset %d, want %d", off, want.End), s2)
			}
		case want.Why == "nonbackward":
			stats["arena_name_nonbackward"]++
			if p == "" && derr == nil {
				c.Fail(site, "nonbackward-pointer-accepted", fmt.Sprintf("decodes to %q", got), s2)
			} else if p != "" {
				c.Drift(site, "nonbackward-pointer:panic", p, s2)
			}
		default:
			stats["arena_name_other_reject"]++
			if p == "" && derr == nil {
				c.Drift(site, "lenient-accept:"+want.Why, fmt.Sprintf("decodes to %q", got), s2)
			}
		}
	}
	// the same arena as a whole message
	var dm *llmnr.Message
	var derr error
	p, hung := c09Run(func() { dm, derr = llmnr.DecodeMessage(k.Data) })
	c.Exec(1)
	site := "llmnr.DecodeMessage"
	s2 := map[string]interface{}{"arena_hex": h.Hex(k.Data), "spec": map[string]interface{}{"ok": k.Msg.OK, "fails_at": k.Msg.At, "why": k.Msg.Why}}
	if hung {
		c.Fail(site, "non-termination", "no result after 5 s", s2)
		c.StopAfterHang()
		return
	}
	switch {
	case k.Msg.OK:
		report := c.Fail
		if !k.Msg.Canon {
			report = c.Drift
		}
		aspect := "compressed-decode"
		if !k.Msg.Canon {
			aspect = "noncanonical-pointer-decode"
		}
		if anyRootPtr {
			aspect += ":pointer-to-root"
		}
		switch {
		case p != "":
			report(site, aspect+":panic", p, s2)
		case derr != nil:
			report(site, aspect+":rejected", derr.Error(), s2)
		case !c09SameQs(c09Abs(dm).QD, k.Msg.QD) || dm.ID != 0x0161 || dm.Flags != 0:
			if anyRootPtr {
				report(site, aspect, fmt.Sprintf("questions decode to %+v", dm.Questions), s2)
			} else {
				report(site, aspect+":Questions", fmt.Sprintf("questions decode to %+v", dm.Questions), s2)
			}
		}
	case k.Msg.Why == "nonbackward":
		if p == "" && derr == nil {
			c.Fail(site, "nonbackward-pointer-accepted", fmt.Sprintf("questions decode to %+v", dm.Questions), s2)
		}
	default:
		if p == "" && derr == nil {
			c.Drift(site, "lenient-accept:"+k.Msg.Why, fmt.Sprintf("questions decode to %+v", dm.Questions), s2)
		}
	}
}

// ---------------------------------------------------------------------------------------------------------
// code -> model

func c09RandLabel(rng *rand.Rand) h.Bytes {
	n := []int{1, 1, 2, 3, 5, 8, 16, 62, 63}[rng.Intn(9)]
	if rng.Intn(3) == 0 {
		n = 1 + rng.Intn(63)
	}
	l := make(h.Bytes, n)
	for i := range l {
		l[i] = byte(rng.Intn(256))
		if l[i] == '.' {
			l[i] = '-'
		}
	}
	return l
}

func c09RandName(rng *rand.Rand, pool [][]h.Bytes) []h.Bytes {
	if len(pool) > 0 && rng.Intn(2) == 0 { // share a suffix with an earlier name
		base := pool[rng.Intn(len(pool))]
		suf := base[rng.Intn(len(base)+1):]
		n := []h.Bytes{}
		for i := rng.Intn(3); i > 0; i-- {
			n = append(n, c09RandLabel(rng))
		}
		n = append(n, suf...)
		if c09WireLen(n) <= 255 {
			return n
		}
	}
	n := []h.Bytes{}
	for i := rng.Intn(5); i > 0; i-- {
		l := c09RandLabel(rng)
		if c09WireLen(n)+1+len(l) > 255 {
			break
		}
		n = append(n, l)
	}
	return n
}

func c09WireLen(n []h.Bytes) int {
	t := 1
	for _, l := range n {
		t += 1 + len(l)
	}
	return t
}

func c09RandRR(rng *rand.Rand, pool *[][]h.Bytes) c09RR {
	n := c09RandName(rng, *pool)
	*pool = append(*pool, n)
	rdl := []int{0, 1, 4, 16, 255, 256, rng.Intn(700)}[rng.Intn(7)]
	rd := make(h.Bytes, rdl)
	rng.Read(rd)
	return c09RR{N: n, T: rng.Intn(65536), C: rng.Intn(65536), TTL: [2]int{rng.Intn(65536), rng.Intn(65536)}, RD: rd}
}

// c09Pack writes m the way a compressing RFC 1035 encoder would (input generator only: TLC is the judge).
// wild > 0: that many pointers are redirected to arbitrary offsets (forward, self, anywhere).
func c09Pack(m c09Msg, rng *rand.Rand, wild int) []byte {
	buf := []byte{byte(m.ID >> 8), byte(m.ID), byte(m.Flags >> 8), byte(m.Flags), 0, byte(len(m.QD)), 0, byte(len(m.AN)), 0, byte(len(m.NS)), 0, byte(len(m.AR))}
	seen := map[string]int{}
	key := func(n []h.Bytes) string {
		var sb strings.Builder
		for _, l := range n {
			sb.WriteByte(byte(len(l)))
			sb.Write(l)
		}
		return sb.String()
	}
	name := func(n []h.Bytes) {
		for i := range n {
			if off, ok := seen[key(n[i:])]; ok && rng.Intn(4) != 0 {
				if wild > 0 && rng.Intn(2) == 0 {
					wild--
					off = []int{len(buf), len(buf) + 2, rng.Intn(len(buf) + 40), 0x3FFF}[rng.Intn(4)]
				}
				buf = append(buf, 0xC0|byte(off>>8), byte(off))
				return
			}
			if len(buf) < 0x4000 {
				if _, ok := seen[key(n[i:])]; !ok {
					seen[key(n[i:])] = len(buf)
				}
			}
			buf = append(buf, byte(len(n[i])))
			buf = append(buf, n[i]...)
		}
		buf = append(buf, 0)
	}
	for _, q := range m.QD {
		name(q.N)
		buf = append(buf, byte(q.T>>8), byte(q.T), byte(q.C>>8), byte(q.C))
	}
	for _, sec := range [][]c09RR{m.AN, m.NS, m.AR} {
		for _, r := range sec {
			name(r.N)
			buf = append(buf, byte(r.T>>8), byte(r.T), byte(r.C>>8), byte(r.C), byte(r.TTL[0]>>8), byte(r.TTL[0]), byte(r.TTL[1]>>8), byte(r.TTL[1]),
				byte(len(r.RD)>>8), byte(len(r.RD)))
			buf = append(buf, r.RD...)
		}
	}
	return buf
}

func c09Record(c *h.Ctx) error {
	debug.SetMaxStack(256 << 20)
	n := c.OptInt("messages", 200)
	rng := rand.New(rand.NewSource(int64(c.OptInt("seed", 1))*7919 + 9))
	cur := &c09Cur{}
	if p := c.Opt("cur", ""); p != "" {
		f, err := os.Create(p)
		if err != nil {
			return err
		}
		defer f.Close()
		cur.f = f
	}
	events := 0
	dec := func(cls string, data []byte) {
		cur.note(map[string]interface{}{"wire_hex": h.Hex(data), "starts": []int{}, "case": "recorded " + cls})
		var dm *llmnr.Message
		var derr error
		p, hung := c09Run(func() { dm, derr = llmnr.DecodeMessage(data) })
		c.Exec(1)
		events++
		ev := map[string]interface{}{"op": "dec", "cls": cls, "in": h.Bytes(data), "ok": false, "hung": hung, "panic": p != "", "m": c09Msg{QD: []c09Q{}, AN: []c09RR{}, NS: []c09RR{}, AR: []c09RR{}}}
		if p == "" && !hung && derr == nil {
			ev["ok"] = true
			ev["m"] = c09Abs(dm)
		}
		b, _ := json.Marshal(ev)
		c.Emit(b)
	}
	// fixed prelude: a pointer that is not strictly backwards (self, forward) as the first name of each section
	for sec := 0; sec < 4; sec++ {
		for _, target := range []byte{12, 14} {
			hdr := make([]byte, 12)
			hdr[5+2*sec] = 1
			tail := []byte{0xC0, target, 0, 1, 0, 1}
			if sec > 0 {
				tail = append(tail, 0, 0, 0, 30, 0, 0)
			}
			c.Case(fmt.Sprintf("hostile:%d:%d", sec, target))
			dec("mutated", append(hdr, tail...))
		}
	}
	// fixed prelude: names at the top of the legal length range (wire length 250..255) written as "labels + pointer into an
	// earlier name" -- the partially compressed shape, with the suffix starting at the first or at an inner label of the question name
	for _, total := range []int{250, 253, 254, 255} {
		for _, sufLabels := range []int{1, 2, 3} {
			for _, inner := range []int{0, 1} {
				// the question name: sufLabels+inner labels; the answer name: fresh labels + the last sufLabels labels of it
				q := []h.Bytes{}
				for j := 0; j < sufLabels+inner; j++ {
					q = append(q, bytes.Repeat([]byte{byte('a' + j)}, []int{5, 30, 63}[(j+sufLabels)%3]))
				}
				suf := q[inner:]
				left := total - c09WireLen(suf) // octets for the fresh labels (each 1 + len)
				if left < 2 {
					continue
				}
				pre := []h.Bytes{}
				for left > 0 {
					l := left - 1
					if l > 63 {
						l = 63
						if left-64 == 1 { // never leave a single octet: a label needs its length octet and one more
							l = 62
						}
					}
					pre = append(pre, bytes.Repeat([]byte{byte('p' + len(pre))}, l))
					left -= 1 + l
				}
				buf := []byte{0x12, 0x34, 0x80, 0, 0, 1, 0, 1, 0, 0, 0, 0}
				at := len(buf)
				for j, l := range q {
					if j < inner {
						at += 1 + len(l)
					}
					buf = append(buf, byte(len(l)))
					buf = append(buf, l...)
				}
				buf = append(buf, 0, 0, 1, 0, 1)
				for _, l := range pre {
					buf = append(buf, byte(len(l)))
					buf = append(buf, l...)
				}
				buf = append(buf, 0xC0|byte(at>>8), byte(at), 0, 1, 0, 1, 0, 0, 0, 30, 0, 4, 10, 0, 0, 1)
				c.Case(fmt.Sprintf("longname:%d:%d:%d", total, sufLabels, inner))
				dec("packed", buf)
			}
		}
	}
	for i := 0; i < n; i++ {
		var pool [][]h.Bytes
		m := c09Msg{ID: rng.Intn(65536), Flags: rng.Intn(65536), QD: []c09Q{}, AN: []c09RR{}, NS: []c09RR{}, AR: []c09RR{}}
		for j := rng.Intn(4); j > 0; j-- {
			nm := c09RandName(rng, pool)
			pool = append(pool, nm)
			m.QD = append(m.QD, c09Q{N: nm, T: rng.Intn(65536), C: rng.Intn(65536)})
		}
		for j := rng.Intn(4); j > 0; j-- {
			m.AN = append(m.AN, c09RandRR(rng, &pool))
		}
		if rng.Intn(3) == 0 {
			for j := rng.Intn(3); j > 0; j-- {
				m.NS = append(m.NS, c09RandRR(rng, &pool))
			}
			for j := rng.Intn(3); j > 0; j-- {
				m.AR = append(m.AR, c09RandRR(rng, &pool))
			}
		}
		c.Case(fmt.Sprintf("rec:%d", i))
		lm, err := c09Build(m, "")
		if err != nil {
			c.Fail("llmnr.Message.AddQuestion", "rejects-valid-name", err.Error(), nil)
			continue
		}
		var out []byte
		var eerr error
		if p, hung := c09Run(func() { out, eerr = lm.Encode() }); p != "" || hung {
			c.Fail("llmnr.Message.Encode", "panic", p, nil)
			continue
		}
		c.Exec(1)
		events++
		c09EmitEnc(c, "rec", m, out, eerr != nil)
		if eerr == nil {
			dec("lib", out)
		}
		packed := c09Pack(m, rng, 0)
		dec("packed", packed)
		// hostile variants: redirected pointers, flipped octets, truncation
		dec("mutated", c09Pack(m, rng, 1+rng.Intn(2)))
		mut := append([]byte{}, packed...)
		for f := 1 + rng.Intn(3); f > 0 && len(mut) > 12; f-- {
			pos := 12 + rng.Intn(len(mut)-12)
			mut[pos] = []byte{0xC0, 0xC0, 0xFF, 0x00, byte(rng.Intn(256)), byte(pos), 0x40, 0x80}[rng.Intn(8)]
			if mut[pos] == 0xC0 && pos+1 < len(mut) {
				mut[pos+1] = byte([]int{pos, pos - 1, pos + 2, 12, rng.Intn(len(mut))}[rng.Intn(5)])
			}
		}
		dec("mutated", mut)
		if len(packed) > 13 {
			dec("mutated", packed[:12+rng.Intn(len(packed)-12)])
		}
	}
	c.Set("events", events)
	return nil
}
