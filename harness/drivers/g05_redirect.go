package drivers

// Growth G05: nbtns.RedirectManager (spec/Redirect.tla). Not one of the listed properties: every mismatch is DRIFT.
//
//   g05.redirect  model -> code: the complete (state, call) graph TLC emits is replayed edge by edge (spanning path, then the edge)
//                 on a real RedirectManager; after every call the result, the whole map (read back with GetRedirect) and every
//                 response record produced earlier on the path are compared with the model.

import (
	"bytes"
	"encoding/json"
	"fmt"
	"net"
	"sort"

	"github.com/TheManticoreProject/Manticore/network/netbios/nbtns"
	"verif/harness/h"
)

func init() { h.Register("g05.redirect", g05Redirect) }

type g05Res struct {
	Ok   bool   `json:"ok"`
	Info string `json:"info"`
}

type g05Edge struct {
	F  map[string]string `json:"f"`
	Op string            `json:"op"`
	S  string            `json:"s"`
	I  json.RawMessage   `json:"i"`
	R  g05Res            `json:"r"`
	To map[string]string `json:"to"`
}

type g05Op struct {
	e        g05Edge
	from, to int
}

func g05Info(tag string) (net.IP, uint16) {
	if tag == "i1" {
		return net.IP{10, 9, 8, 7}, 137
	}
	return net.ParseIP("192.168.77.66"), 0xA1B2 // a 16-byte net.IP: spare capacity behind To4 is what an aliasing append would write into
}

func g05TagOf(ip net.IP, port uint16) string {
	for _, t := range []string{"i1", "i2"} {
		wi, wp := g05Info(t)
		if wi.Equal(ip) && wp == port {
			return t
		}
	}
	return fmt.Sprintf("?%v:%d", ip, port)
}

func g05Redirect(c *h.Ctx) error {
	ids := map[string]int{}
	var states []map[string]string
	sid := func(m map[string]string) int {
		kb, _ := json.Marshal(m)
		if id, ok := ids[string(kb)]; ok {
			return id
		}
		ids[string(kb)] = len(states)
		states = append(states, m)
		return len(states) - 1
	}
	var edges []g05Op
	if err := c.Lines(func(raw []byte) error {
		var e g05Edge
		if err := json.Unmarshal(raw, &e); err != nil {
			return err
		}
		edges = append(edges, g05Op{e: e, from: sid(e.F), to: sid(e.To)})
		return nil
	}); err != nil {
		return err
	}
	if len(edges) == 0 {
		return fmt.Errorf("no edges")
	}
	init := -1
	for i, s := range states {
		all := true
		for _, v := range s {
			all = all && v == "none"
		}
		if all {
			init = i
		}
	}
	if init < 0 {
		return fmt.Errorf("no initial state")
	}
	var scopes []string
	for s := range states[init] {
		scopes = append(scopes, s)
	}
	sort.Strings(scopes)
	parent := make([]int, len(states))
	for i := range parent {
		parent[i] = -2
	}
	parent[init] = -1
	for changed := true; changed; {
		changed = false
		for i, e := range edges {
			if parent[e.from] != -2 && parent[e.to] == -2 {
				parent[e.to] = i
				changed = true
			}
		}
	}
	pathTo := func(s int) []int {
		var p []int
		for s != init {
			p = append([]int{parent[s]}, p...)
			s = edges[parent[s]].from
		}
		return p
	}
	const site = "nbtns.RedirectManager"
	type issued struct {
		rr   nbtns.NBTNSResourceRecord
		want []byte
		at   int
	}
	for ei, e := range edges {
		if parent[e.from] == -2 {
			return fmt.Errorf("edge from unreachable state")
		}
		key := ""
		if e.from != e.to || e.e.Op != "handle" || e.e.R.Ok {
			key = fmt.Sprint(ei)
		}
		c.Case(key)
		// the edge itself, then (for a redirecting Handle) every map-changing call after it: the record must not change
		paths := [][]int{append(pathTo(e.from), ei)}
		if e.e.Op == "handle" && e.e.R.Ok {
			for e2, x := range edges {
				if x.from == e.to && (x.e.Op == "add" || x.e.Op == "remove") {
					paths = append(paths, append(append([]int(nil), paths[0]...), e2))
				}
			}
		}
		for _, path := range paths {
			rm := nbtns.NewRedirectManager()
			var given []issued
			for k, pi := range path {
				pe := edges[pi].e
				desc := func() map[string]interface{} {
					var hist []string
					for _, qi := range path[:k+1] {
						q := edges[qi].e
						hist = append(hist, fmt.Sprintf("%s(%q,%s)", q.Op, q.S, q.I))
					}
					return map[string]interface{}{"history": hist}
				}
				c.Exec(1)
				pan := h.Guard(func() {
					switch pe.Op {
					case "add":
						var tag string
						json.Unmarshal(pe.I, &tag)
						ip, port := g05Info(tag)
						rm.AddRedirect(pe.S, ip, port)
					case "remove":
						rm.RemoveRedirect(pe.S)
					case "get":
						info, ok := rm.GetRedirect(pe.S)
						got := "none"
						if ok {
							got = g05TagOf(info.ServerIP, info.ServerPort)
						}
						if ok != pe.R.Ok || got != pe.R.Info {
							c.Drift(site+".GetRedirect", "result", fmt.Sprintf("spec %+v, code ok=%v %s", pe.R, ok, got), desc())
						}
					case "handle":
						var a struct {
							Opcode int  `json:"opcode"`
							Resp   bool `json:"resp"`
							HasQ   bool `json:"hasq"`
						}
						json.Unmarshal(pe.I, &a)
						req := &nbtns.NBTNSPacket{Header: nbtns.NBTNSHeader{TransactionID: 9, Flags: uint16(a.Opcode) << 11}}
						if a.Resp {
							req.Header.Flags |= 0x8000
						}
						qn := &nbtns.NetBIOSName{Name: "HOST", ScopeID: pe.S}
						if a.HasQ {
							req.Questions = []nbtns.NBTNSQuestion{{Name: qn, Type: 0x20, Class: 1}}
							req.Header.Questions = 1
						}
						resp := &nbtns.NBTNSPacket{Header: nbtns.NBTNSHeader{TransactionID: 9, Flags: 0x8400}}
						ok := rm.HandleRedirect(req, resp)
						asp := fmt.Sprintf("opcode=%d", a.Opcode)
						if a.Opcode != 0 && ok != pe.R.Ok {
							c.Drift(site+".HandleRedirect", "redirected:"+asp, fmt.Sprintf("spec %v, code %v (resp bit %v, question %v)", pe.R.Ok, ok, a.Resp, a.HasQ), desc())
						} else if ok != pe.R.Ok {
							c.Drift(site+".HandleRedirect", "redirected", fmt.Sprintf("spec %v, code %v (resp bit %v, question %v)", pe.R.Ok, ok, a.Resp, a.HasQ), desc())
						}
						if ok && pe.R.Ok {
							ip, port := g05Info(pe.R.Info)
							if v4 := ip.To4(); v4 != nil && len(ip) == 4 {
								ip = v4
							}
							want := append(append([]byte(nil), ip...), byte(port>>8), byte(port))
							if len(resp.Additional) != 1 || resp.Header.Additional != 1 || !bytes.Equal(resp.Additional[0].RData, want) ||
								int(resp.Additional[0].RDLength) != len(want) || resp.Additional[0].Name == nil || resp.Additional[0].Name.Name != "HOST" {
								c.Drift(site+".HandleRedirect", "record", fmt.Sprintf("want one additional record for HOST with RDATA %x, got %+v", want, resp.Additional), desc())
							} else {
								given = append(given, issued{rr: resp.Additional[0], want: want, at: k})
							}
							if resp.Header.Flags&0x8000 == 0 {
								c.Drift(site+".HandleRedirect", "response-bit", fmt.Sprintf("flags %04x", resp.Header.Flags), desc())
							}
						}
						if !ok && (len(resp.Additional) != 0 || resp.Header.Flags != 0x8400) {
							c.Drift(site+".HandleRedirect", "untouched", fmt.Sprintf("not redirected but response changed: flags %04x, %d additional", resp.Header.Flags, len(resp.Additional)), desc())
						}
					}
				})
				if pan != "" {
					c.Drift(site+"."+pe.Op, "panic", pan, desc())
					break
				}
				// the whole map, read back
				for _, s := range scopes {
					info, ok := rm.GetRedirect(s)
					got := "none"
					if ok {
						got = g05TagOf(info.ServerIP, info.ServerPort)
					}
					if got != edges[pi].e.To[s] {
						c.Drift(site+"."+pe.Op, "state", fmt.Sprintf("scope %q: spec %s, code %s", s, edges[pi].e.To[s], got), desc())
					}
				}
				for _, g := range given {
					if !bytes.Equal(g.rr.RData, g.want) {
						c.Drift(site+".HandleRedirect", "record-changed-later", fmt.Sprintf("record issued at step %d now reads %x, was %x", g.at, g.rr.RData, g.want), desc())
					}
				}
			}
		}
	}
	c.Set("graph_states", len(states))
	c.Set("graph_edges", len(edges))
	c.Sample(map[string]interface{}{"edge": edges[len(edges)/3].e})
	return nil
}
