package drivers

// C15: Windows time and duration conversions, bound to spec/Digits.tla + spec/WinTime.tla (arbitrary precision),
// spec/C15Cases.tla and spec/TraceWinTime.tla.
//
//   c15.cases   model -> code: every boundary / random 64-bit value TLC enumerated is pushed through every conversion
//               function it is in the domain of (FILETIME, the four ldap converters, DateTime / binary key-credential
//               times, UUIDv1/v2 Get/SetTime) and through the inverse chains; results are compared with the values the
//               specification computed in arbitrary precision.
//   c15.record  code -> model: random 64-bit values (uniform, every bit length, near every boundary) through the same
//               functions, one ndjson line per call; TLC (TraceWinTime.tla) recomputes each result.
//
// Numbers travel as decimal text (arrays of character codes).  A Go time is compared by (Unix(), Nanosecond()).
// The aspect of a mismatch names the input region ("int64ns-window" = years 1677..2262, where Unix nanoseconds fit an
// int64), so that a failure inside the window is never hidden by a recorded overflow finding outside it.

import (
	"bytes"
	"encoding/binary"
	"encoding/json"
	"fmt"
	"math/big"
	"math/rand"
	"strconv"
	"time"

	"github.com/TheManticoreProject/Manticore/crypto/uuid/uuid_v1"
	"github.com/TheManticoreProject/Manticore/crypto/uuid/uuid_v2"
	"github.com/TheManticoreProject/Manticore/network/ldap"
	"github.com/TheManticoreProject/Manticore/windows/keycredential/key"
	kcutils "github.com/TheManticoreProject/Manticore/windows/keycredential/utils"
	"github.com/TheManticoreProject/Manticore/windows/ms_dtyp/common/data_structures"
	"verif/harness/h"
)

func init() {
	h.Register("c15.cases", c15Cases)
	h.Register("c15.record", c15Record)
}

type c15Txt string

func (t *c15Txt) UnmarshalJSON(data []byte) error {
	if len(data) > 0 && data[0] == '{' {
		*t = ""
		return nil
	}
	var xs []int
	if err := json.Unmarshal(data, &xs); err != nil {
		return err
	}
	b := make([]byte, len(xs))
	for i, x := range xs {
		b[i] = byte(x)
	}
	*t = c15Txt(b)
	return nil
}

type c15Case struct {
	K string `json:"k"`
	// tick
	X     c15Txt  `json:"x"`
	LE    h.Bytes `json:"le"`
	Hi    c15Txt  `json:"hi"`
	Lo    c15Txt  `json:"lo"`
	I64   c15Txt  `json:"i64"`
	S     c15Txt  `json:"s"`
	NS    int     `json:"ns"`
	Reg   string  `json:"reg"`
	V1    bool    `json:"v1"`
	V1S   c15Txt  `json:"v1s"`
	V1NS  int     `json:"v1ns"`
	V1Reg string  `json:"v1reg"`
	// int
	Z      c15Txt `json:"z"`
	Ldap   c15Txt `json:"ldap"`
	LdapX  c15Txt `json:"ldapx"`
	LReg   string `json:"lreg"`
	Back   c15Txt `json:"back"`
	DSec   c15Txt `json:"dsec"`
	IsMin  bool   `json:"isMin"`
	DurOk  bool   `json:"durOk"`
	Dur    c15Txt `json:"dur"`
	UlOk   bool   `json:"ulOk"`
	Ul     c15Txt `json:"ul"`
	UlBack c15Txt `json:"ulback"`
	UlReg  string `json:"ulreg"`
	// time
	Exact  bool   `json:"exact"`
	Win    bool   `json:"win"`
	FtOk   bool   `json:"ftOk"`
	FtP    bool   `json:"ftP"`
	Ft     c15Txt `json:"ft"`
	V1Ok   bool   `json:"v1Ok"`
	V1T    c15Txt `json:"-"`
	LdapOk bool   `json:"ldapOk"`
	// text
	T   c15Txt `json:"t"`
	Num bool   `json:"num"`
}

// the "v1" key is a bool in tick cases and a number text in time cases
type c15TimeExtra struct {
	V1 c15Txt `json:"v1"`
}

func c15RegAspect(reg string) string {
	switch reg {
	case "int64ns-window":
		return "value:int64ns-window"
	case "before-1970":
		return "value:before-1970"
	case "outside-int64ns-window":
		return "overflow:outside-int64ns-window"
	}
	return "overflow:" + reg // ticks>=2^63
}

func c15WinAspect(win bool) string {
	if win {
		return "value:int64ns-window"
	}
	return "overflow:outside-int64ns-window"
}

func c15I64(t c15Txt) int64 {
	v, err := strconv.ParseInt(string(t), 10, 64)
	if err != nil {
		panic(fmt.Sprintf("harness: %q is not an int64", string(t)))
	}
	return v
}

func c15U64(t c15Txt) uint64 {
	v, err := strconv.ParseUint(string(t), 10, 64)
	if err != nil {
		panic(fmt.Sprintf("harness: %q is not a uint64", string(t)))
	}
	return v
}

func c15TimeIs(t time.Time, s int64, ns int) bool { return t.Unix() == s && t.Nanosecond() == ns }
func c15TimeStr(t time.Time) string              { return fmt.Sprintf("(%d s, %d ns)", t.Unix(), t.Nanosecond()) }

var c15Versions = []uint32{key.KeyCredentialVersion_0, key.KeyCredentialVersion_1, key.KeyCredentialVersion_2, 0x300}
var c15Sources = []key.KeySource{key.KeySource_AD, key.KeySource_AzureAD}

func c15TickCase(c *h.Ctx, k *c15Case) {
	x := c15U64(k.X)
	s := c15I64(k.S)
	c.Case("tick:" + string(k.X))
	smp := map[string]interface{}{"ticks": string(k.X), "spec_unix_s": string(k.S), "spec_ns": k.NS, "region": k.Reg}
	want := fmt.Sprintf("(%d s, %d ns)", s, k.NS)
	// ---- FILETIME
	ft := &data_structures.FILETIME{}
	if _, err := ft.Unmarshal(k.LE); err != nil {
		c.Fail("data_structures.FILETIME.Unmarshal", "rejects-valid", err.Error(), smp)
		return
	}
	if uint64(ft.DwLowDateTime) != c15U64(k.Lo) || uint64(ft.DwHighDateTime) != c15U64(k.Hi) {
		c.Fail("data_structures.FILETIME.Unmarshal", "halves", fmt.Sprintf("%x: spec hi %s lo %s code hi %d lo %d", []byte(k.LE), k.Hi, k.Lo, ft.DwHighDateTime, ft.DwLowDateTime), smp)
		ft = &data_structures.FILETIME{DwLowDateTime: uint32(x), DwHighDateTime: uint32(x >> 32)}
	}
	if m, _ := ft.Marshal(); !bytes.Equal(m, k.LE) {
		c.Fail("data_structures.FILETIME.Marshal", "roundtrip", fmt.Sprintf("spec %x code %x", []byte(k.LE), m), smp)
	}
	if got := ft.ToInt64(); got != c15I64(k.I64) {
		if x < 1<<63 {
			c.Fail("data_structures.FILETIME.ToInt64", "value", fmt.Sprintf("ticks %d: code %d", x, got), smp)
		} else {
			c.Drift("data_structures.FILETIME.ToInt64", "twos-complement", fmt.Sprintf("ticks %d: code %d", x, got), smp)
		}
	}
	if got := ft.GetTime(); !c15TimeIs(got, s, k.NS) {
		c.Fail("data_structures.FILETIME.GetTime", c15RegAspect(k.Reg), fmt.Sprintf("ticks %d: spec %s code %s", x, want, c15TimeStr(got)), smp)
	}
	if got := ft.GetUnixTimestamp(); got != s {
		c.Fail("data_structures.FILETIME.GetUnixTimestamp", c15RegAspect(k.Reg), fmt.Sprintf("ticks %d: spec %d code %d", x, s, got), smp)
	}
	c.Exec(5)
	// ---- key-credential DateTime (ticks == 0 means "now" by contract: not a conversion)
	if x != 0 {
		dt := kcutils.NewDateTime(x)
		if !c15TimeIs(dt.Time, s, k.NS) {
			c.Fail("utils.NewDateTime", "Time:"+c15RegAspect(k.Reg), fmt.Sprintf("ticks %d: spec %s code %s", x, want, c15TimeStr(dt.Time)), smp)
		}
		if dt.ToTicks() != x {
			c.Fail("utils.NewDateTime", "Ticks", fmt.Sprintf("ticks %d: ToTicks %d", x, dt.ToTicks()), smp)
		}
		c.Retain("utils.DateTime.ToBytes", dt.ToBytes(), smp)
		if !bytes.Equal(dt.ToBytes(), k.LE) {
			c.Fail("utils.DateTime.ToBytes", "value", fmt.Sprintf("ticks %d: spec %x code %x", x, []byte(k.LE), dt.ToBytes()), smp)
		}
		if u := dt.ToUniversalTime(); !u.Equal(dt.Time) {
			c.Fail("utils.DateTime.ToUniversalTime", "instant", fmt.Sprintf("%v vs %v", u, dt.Time), smp)
		}
		c.Exec(4)
		for _, ver := range c15Versions {
			for _, src := range c15Sources {
				d2 := kcutils.ConvertFromBinaryTime(k.LE, src, key.KeyCredentialVersion{Value: ver})
				c.Exec(1)
				if !c15TimeIs(d2.Time, s, k.NS) {
					c.Fail("utils.ConvertFromBinaryTime", "Time:"+c15RegAspect(k.Reg), fmt.Sprintf("%x (version %#x): spec %s code %s", []byte(k.LE), ver, want, c15TimeStr(d2.Time)), smp)
				}
				if d2.ToTicks() != x {
					c.Fail("utils.ConvertFromBinaryTime", "Ticks", fmt.Sprintf("%x: ToTicks %d", []byte(k.LE), d2.ToTicks()), smp)
				}
			}
		}
	}
	// ---- UUID timestamps (60 bits, epoch 1582-10-15)
	if k.V1 {
		vs := c15I64(k.V1S)
		wantv := fmt.Sprintf("(%d s, %d ns)", vs, k.V1NS)
		u1 := &uuid_v1.UUIDv1{}
		u1.Time = x
		if got := u1.GetTime(); !c15TimeIs(got, vs, k.V1NS) {
			c.Fail("uuid_v1.UUIDv1.GetTime", c15RegAspect(k.V1Reg), fmt.Sprintf("timestamp %d: spec %s code %s", x, wantv, c15TimeStr(got)), smp)
		}
		u2 := &uuid_v2.UUIDv2{}
		u2.Time = x
		if got := u2.GetTime(); !c15TimeIs(got, vs, k.V1NS) {
			c.Fail("uuid_v2.UUIDv2.GetTime", c15RegAspect(k.V1Reg), fmt.Sprintf("timestamp %d: spec %s code %s", x, wantv, c15TimeStr(got)), smp)
		}
		c.Exec(2)
	}
	c.Sample(map[string]interface{}{"kind": "ticks", "ticks": string(k.X), "unix_s": string(k.S), "ns": k.NS})
}

func c15IntCase(c *h.Ctx, k *c15Case) {
	z := c15I64(k.Z)
	zs := string(k.Z)
	c.Case("int:" + zs)
	smp := map[string]interface{}{"value": zs}
	// LDAP timestamp -> Unix seconds (and back)
	const tsSite = "ldap.ConvertLDAPTimeStampToUnixTimeStamp"
	want := c15I64(k.Ldap)
	got := ldap.ConvertLDAPTimeStampToUnixTimeStamp(zs)
	c.Exec(1)
	if got != want && got == c15I64(k.LdapX) {
		// exact negative seconds before 1970 instead of the documented clamp to 0: an equally exact reading
	} else if got != want {
		c.Fail(tsSite, c15RegAspect(k.LReg), fmt.Sprintf("%s: spec %d code %d", zs, want, got), smp)
	} else {
		if b := ldap.ConvertUnixTimeStampToLDAPTimeStamp(time.Unix(got, 0)); b != c15I64(k.Back) {
			c.Fail("ldap.ConvertUnixTimeStampToLDAPTimeStamp", "inverse-chain", fmt.Sprintf("%s -> %d -> spec %s code %d", zs, got, k.Back, b), smp)
		}
		c.Exec(1)
	}
	// LDAP duration -> seconds
	wantd := c15I64(k.DSec)
	if gotd := ldap.ConvertLDAPDurationToSeconds(zs); gotd != wantd {
		asp := "value"
		if k.IsMin {
			asp = "abs:min-int64"
		}
		c.Fail("ldap.ConvertLDAPDurationToSeconds", asp, fmt.Sprintf("%s: spec %d code %d", zs, wantd, gotd), smp)
	}
	c.Exec(1)
	// seconds -> LDAP duration (domain: the tick count fits 64 bits)
	if k.DurOk {
		gs := ldap.ConvertSecondsToLDAPDuration(z)
		c.Exec(1)
		if gs != string(k.Dur) && gs != "-"+string(k.Dur) && "-"+gs != string(k.Dur) { // the sign convention is not in the statement; the magnitude is
			c.Fail("ldap.ConvertSecondsToLDAPDuration", "value", fmt.Sprintf("%d s: spec %s code %s", z, k.Dur, gs), smp)
		} else {
			abs := z
			if abs < 0 {
				abs = -abs
			}
			if r := ldap.ConvertLDAPDurationToSeconds(gs); r != abs {
				c.Fail("ldap.ConvertLDAPDurationToSeconds", "inverse-chain", fmt.Sprintf("%d s -> %s -> %d", z, gs, r), smp)
			}
			c.Exec(1)
		}
	}
	// Unix seconds -> LDAP timestamp (and back)
	if k.UlOk {
		wantu := c15I64(k.Ul)
		for _, nsec := range []int64{0, 999999999} {
			g := ldap.ConvertUnixTimeStampToLDAPTimeStamp(time.Unix(z, nsec))
			c.Exec(1)
			if nsec != 0 && g == wantu+nsec/100 {
				continue // keeping the sub-second ticks is exact too (the statement does not fix the resolution)
			}
			if g != wantu {
				c.Fail("ldap.ConvertUnixTimeStampToLDAPTimeStamp", "value", fmt.Sprintf("%d s (+%d ns): spec %d code %d", z, nsec, wantu, g), smp)
			} else if nsec == 0 {
				if r := ldap.ConvertLDAPTimeStampToUnixTimeStamp(strconv.FormatInt(g, 10)); r != c15I64(k.UlBack) {
					c.Fail(tsSite, "inverse-chain:"+c15RegAspect(k.UlReg), fmt.Sprintf("%d s -> %d -> spec %s code %d", z, g, k.UlBack, r), smp)
				}
				c.Exec(1)
			}
		}
	}
}

func c15TimeCase(c *h.Ctx, k *c15Case, v1txt c15Txt) {
	s := c15I64(k.S)
	t := time.Unix(s, int64(k.NS))
	c.Case(fmt.Sprintf("time:%d.%09d", s, k.NS))
	smp := map[string]interface{}{"unix_s": string(k.S), "ns": k.NS, "utc": t.UTC().String(), "in_int64ns_window": k.Win}
	zone := time.FixedZone("x", 5*3600+1800)
	if k.FtOk {
		want := c15U64(k.Ft)
		for i, tt := range []time.Time{t, t.In(zone), t.UTC()} {
			ft := data_structures.NewFILETIMEFromTime(tt)
			c.Exec(1)
			got := uint64(ft.DwHighDateTime)<<32 | uint64(ft.DwLowDateTime)
			if got == want {
				if i == 0 && k.Exact {
					if back := ft.GetTime(); k.Win && !c15TimeIs(back, s, k.NS) {
						c.Fail("data_structures.FILETIME.GetTime", "inverse-chain:int64ns-window", fmt.Sprintf("%s -> %d -> %s", c15TimeStr(t), got, c15TimeStr(back)), smp)
					}
				}
				continue
			}
			detail := fmt.Sprintf("%s: spec %d code %d", c15TimeStr(tt), want, got)
			switch {
			case !k.Exact && k.Win:
				c.Drift("data_structures.NewFILETIMEFromTime", "rounding:subtick", detail, smp)
			case !k.FtP:
				c.Drift("data_structures.NewFILETIMEFromTime", "beyond-year-30828", detail, smp)
			default:
				c.Fail("data_structures.NewFILETIMEFromTime", c15WinAspect(k.Win), detail, smp)
			}
			break
		}
		// key-credential binary time: the inverse of ConvertFromBinaryTime is the LE64 tick count
		if k.Exact && k.FtP {
			for _, ver := range c15Versions {
				for _, src := range c15Sources {
					b := kcutils.ConvertToBinaryTime(t, src, key.KeyCredentialVersion{Value: ver})
					c.Retain("utils.ConvertToBinaryTime", b, smp)
					c.Exec(1)
					if !bytes.Equal(b, k.LE) {
						asp := "value"
						if bytes.Equal(b, binary.LittleEndian.AppendUint64(nil, uint64(t.UnixNano()))) {
							asp = "unit:unix-nanoseconds-not-ticks"
						}
						c.Fail("utils.ConvertToBinaryTime", asp, fmt.Sprintf("%s (version %#x): spec %x (ticks %d) code %x", c15TimeStr(t), ver, []byte(k.LE), want, b), smp)
					}
				}
			}
		}
	}
	if k.V1Ok {
		want := c15U64(v1txt)
		u1 := &uuid_v1.UUIDv1{}
		u1.SetTime(t)
		u2 := &uuid_v2.UUIDv2{}
		u2.SetTime(t)
		c.Exec(2)
		for site, got := range map[string]uint64{"uuid_v1.UUIDv1.SetTime": u1.Time, "uuid_v2.UUIDv2.SetTime": u2.Time} {
			if got == want {
				continue
			}
			detail := fmt.Sprintf("%s: spec %d code %d", c15TimeStr(t), want, got)
			if !k.Exact && k.Win {
				c.Drift(site, "rounding:subtick", detail, smp)
			} else {
				c.Fail(site, c15WinAspect(k.Win), detail, smp)
			}
		}
		if k.Exact && k.Win && u1.Time == want {
			if back := u1.GetTime(); !c15TimeIs(back, s, k.NS) {
				c.Fail("uuid_v1.UUIDv1.GetTime", "inverse-chain:int64ns-window", fmt.Sprintf("%s -> %d -> %s", c15TimeStr(t), want, c15TimeStr(back)), smp)
			}
			c.Exec(1)
		}
	}
	c15ZoneIndependent(c, t, smp)
	if k.LdapOk {
		want := c15I64(k.Ldap)
		// whole-second resolution (as documented) or tick resolution: both are exact readings of "Unix timestamp"
		if got := ldap.ConvertUnixTimeStampToLDAPTimeStamp(t); got != want && got != want+int64(k.NS/100) {
			c.Fail("ldap.ConvertUnixTimeStampToLDAPTimeStamp", "value", fmt.Sprintf("%s: spec %d code %d", c15TimeStr(t), want, got), smp)
		}
		c.Exec(1)
	}
}

// c15ZoneIndependent: every conversion of an INSTANT gives the same result whatever Location the time.Time carries (as given,
// UTC, fixed offsets, daylight-saving zones): the value for the UTC form is the one judged against the specification above.
func c15ZoneIndependent(c *h.Ctx, t time.Time, smp interface{}) {
	conv := []struct {
		site string
		f    func(time.Time) string
	}{
		{"data_structures.NewFILETIMEFromTime", func(x time.Time) string {
			ft := data_structures.NewFILETIMEFromTime(x)
			return fmt.Sprintf("%d", uint64(ft.DwHighDateTime)<<32|uint64(ft.DwLowDateTime))
		}},
		{"utils.ConvertToBinaryTime", func(x time.Time) string {
			return fmt.Sprintf("%x", kcutils.ConvertToBinaryTime(x, c15Sources[0], key.KeyCredentialVersion{Value: c15Versions[len(c15Versions)-1]}))
		}},
		{"uuid_v1.UUIDv1.SetTime", func(x time.Time) string { u := &uuid_v1.UUIDv1{}; u.SetTime(x); return fmt.Sprintf("%d", u.Time) }},
		{"uuid_v2.UUIDv2.SetTime", func(x time.Time) string { u := &uuid_v2.UUIDv2{}; u.SetTime(x); return fmt.Sprintf("%d", u.Time) }},
		{"ldap.ConvertUnixTimeStampToLDAPTimeStamp", func(x time.Time) string { return fmt.Sprintf("%d", ldap.ConvertUnixTimeStampToLDAPTimeStamp(x)) }},
	}
	for _, cv := range conv {
		var ref string
		if p := h.Guard(func() { ref = cv.f(t.UTC()) }); p != "" {
			continue
		}
		for _, z := range h.Zones(t) {
			var got string
			p := h.Guard(func() { got = cv.f(z) })
			c.Exec(1)
			if p != "" || got != ref {
				c.Fail(cv.site, "depends-on-time-zone", fmt.Sprintf("the instant %s gives %s in location %s and %s in UTC %s", c15TimeStr(t), got, z.Location(), ref, p), smp)
				break
			}
		}
	}
}

// c15ZoneSweep: the days on which daylight-saving zones change their offset (hourly, a day around each change of 2021 and 2024)
func c15ZoneSweep(c *h.Ctx) {
	for _, day := range []time.Time{time.Date(2021, 3, 27, 0, 30, 0, 500, time.UTC), time.Date(2021, 10, 30, 0, 30, 0, 0, time.UTC),
		time.Date(2021, 3, 13, 0, 0, 0, 0, time.UTC), time.Date(2021, 11, 6, 0, 0, 0, 0, time.UTC),
		time.Date(2021, 4, 3, 0, 0, 0, 0, time.UTC), time.Date(2021, 10, 2, 0, 0, 0, 0, time.UTC),
		time.Date(2024, 3, 30, 0, 0, 0, 0, time.UTC), time.Date(2024, 10, 26, 0, 0, 0, 0, time.UTC), time.Date(2024, 2, 28, 12, 0, 0, 0, time.UTC)} {
		for hr := 0; hr < 72; hr++ {
			t := day.Add(time.Duration(hr) * time.Hour)
			c.Case(fmt.Sprintf("zone-sweep:%d", t.Unix()))
			c15ZoneIndependent(c, t, map[string]interface{}{"utc": t.String(), "sweep": "daylight-saving change-over days"})
		}
	}
}

func c15TextCase(c *h.Ctx, k *c15Case) {
	txt := string(k.T)
	c.Case("text:" + txt)
	smp := map[string]interface{}{"text": txt, "is_int64_numeral": k.Num}
	gl := ldap.ConvertLDAPTimeStampToUnixTimeStamp(txt)
	gd := ldap.ConvertLDAPDurationToSeconds(txt)
	c.Exec(2)
	if !k.Num {
		if gl != 0 {
			c.Drift("ldap.ConvertLDAPTimeStampToUnixTimeStamp", "non-numeral", fmt.Sprintf("%q -> %d (documented: 0)", txt, gl), smp)
		}
		if gd != 0 {
			c.Drift("ldap.ConvertLDAPDurationToSeconds", "non-numeral", fmt.Sprintf("%q -> %d (documented: 0)", txt, gd), smp)
		}
		return
	}
	if want := c15I64(k.Ldap); gl != want && gl != c15I64(k.LdapX) {
		c.Fail("ldap.ConvertLDAPTimeStampToUnixTimeStamp", c15RegAspect(k.LReg), fmt.Sprintf("%q: spec %d code %d", txt, want, gl), smp)
	}
	if want := c15I64(k.DSec); gd != want {
		asp := "value"
		if k.IsMin {
			asp = "abs:min-int64"
		}
		c.Fail("ldap.ConvertLDAPDurationToSeconds", asp, fmt.Sprintf("%q: spec %d code %d", txt, want, gd), smp)
	}
}

func c15Cases(c *h.Ctx) error {
	kinds := map[string]int{}
	err := c.Lines(func(raw []byte) error {
		var k c15Case
		// "v1" is a flag in tick cases and a number in time cases: decode it separately
		var probe struct {
			K string `json:"k"`
		}
		if err := json.Unmarshal(raw, &probe); err != nil {
			return err
		}
		var v1txt c15Txt
		if probe.K == "time" {
			var m map[string]json.RawMessage
			if err := json.Unmarshal(raw, &m); err != nil {
				return err
			}
			if err := json.Unmarshal(m["v1"], &v1txt); err != nil {
				return err
			}
			delete(m, "v1")
			raw, _ = json.Marshal(m)
		}
		if err := json.Unmarshal(raw, &k); err != nil {
			return err
		}
		kinds[k.K]++
		switch k.K {
		case "tick":
			c15TickCase(c, &k)
		case "int":
			c15IntCase(c, &k)
		case "time":
			c15TimeCase(c, &k, v1txt)
		case "text":
			c15TextCase(c, &k)
		default:
			return fmt.Errorf("unknown case kind %q", k.K)
		}
		return nil
	})
	c15ZoneSweep(c)
	c.Set("cases_by_kind", kinds)
	return err
}

// ---------------------------------------------------------------------------------------------------------
// code -> model

var c15Anchors = []string{"0", "116444736000000000", "208678456368547758", "24211015631452242", "122192928000000000", "214426648368547758",
	"29959207631452242", "184467440737095516", "92233720368547758", "1152921504606846976", "9223372036854775807", "9223372036854775808",
	"18446744073709551615", "2650467743999999999", "4294967296", "5748192000000000"}

// a random 64-bit value: uniform, of a random bit length, or near an anchor
func c15RandU64(rng *rand.Rand) uint64 {
	switch rng.Intn(4) {
	case 0:
		return rng.Uint64()
	case 1:
		return rng.Uint64() >> uint(rng.Intn(64))
	case 2:
		a, _ := strconv.ParseUint(c15Anchors[rng.Intn(len(c15Anchors))], 10, 64)
		return a + uint64(rng.Intn(2001)) - 1000
	default:
		a, _ := strconv.ParseUint(c15Anchors[rng.Intn(len(c15Anchors))], 10, 64)
		return a + (rng.Uint64() >> uint(20+rng.Intn(44))) - (rng.Uint64() >> uint(20+rng.Intn(44)))
	}
}

func c15CodesOf(s string) []int {
	out := make([]int, len(s))
	for i := 0; i < len(s); i++ {
		out[i] = int(s[i])
	}
	return out
}

// (seconds, nanoseconds) of a tick count relative to an epoch, by math/big (input generator only; TLC judges)
func c15TimeOfTicks(x uint64, epoch string, subtick int) time.Time {
	e, _ := new(big.Int).SetString(epoch, 10)
	d := new(big.Int).Sub(new(big.Int).SetUint64(x), e)
	q, r := new(big.Int).DivMod(d, big.NewInt(10000000), new(big.Int))
	return time.Unix(q.Int64(), r.Int64()*100+int64(subtick))
}

func c15Record(c *h.Ctx) error {
	events := c.OptInt("events", 4000)
	rng := rand.New(rand.NewSource(int64(c.OptInt("seed", 1))*104729 + 7))
	ops := map[string]int{}
	emit := func(op string, hint string, m map[string]interface{}) {
		m["op"] = op
		m["h"] = hint
		b, err := json.Marshal(m)
		if err != nil {
			panic(err)
		}
		c.Emit(b)
		c.Exec(1)
		ops[op]++
	}
	u := func(v uint64) []int { return c15CodesOf(strconv.FormatUint(v, 10)) }
	i := func(v int64) []int { return c15CodesOf(strconv.FormatInt(v, 10)) }
	for n := 0; n < events; n++ {
		x := c15RandU64(rng)
		c.Case(fmt.Sprintf("rec:%d", x))
		sub := 0
		if rng.Intn(8) == 0 {
			sub = 1 + rng.Intn(99)
		}
		switch rng.Intn(14) {
		case 0:
			ft := &data_structures.FILETIME{DwLowDateTime: uint32(x), DwHighDateTime: uint32(x >> 32)}
			t := ft.GetTime()
			emit("ft.gettime", fmt.Sprintf("ticks=%d -> %s", x, c15TimeStr(t)), map[string]interface{}{"x": u(x), "s": i(t.Unix()), "ns": t.Nanosecond()})
		case 1:
			ft := &data_structures.FILETIME{DwLowDateTime: uint32(x), DwHighDateTime: uint32(x >> 32)}
			r := ft.ToInt64()
			emit("ft.toint64", fmt.Sprintf("ticks=%d -> %d", x, r), map[string]interface{}{"x": u(x), "r": i(r)})
		case 2:
			t := c15TimeOfTicks(x>>1, "116444736000000000", sub)
			ft := data_structures.NewFILETIMEFromTime(t)
			v := uint64(ft.DwHighDateTime)<<32 | uint64(ft.DwLowDateTime)
			emit("ft.fromtime", fmt.Sprintf("%s -> ticks=%d", c15TimeStr(t), v), map[string]interface{}{"s": i(t.Unix()), "ns": t.Nanosecond(), "x": u(v)})
		case 3:
			z := int64(x)
			txt := strconv.FormatInt(z, 10)
			r := ldap.ConvertLDAPTimeStampToUnixTimeStamp(txt)
			emit("ldap.ts2unix", fmt.Sprintf("%s -> %d", txt, r), map[string]interface{}{"t": c15CodesOf(txt), "r": i(r)})
		case 4:
			t := c15TimeOfTicks(x>>1, "116444736000000000", sub)
			r := ldap.ConvertUnixTimeStampToLDAPTimeStamp(t)
			emit("ldap.unix2ts", fmt.Sprintf("%s -> %d", c15TimeStr(t), r), map[string]interface{}{"s": i(t.Unix()), "ns": t.Nanosecond(), "r": i(r)})
		case 5:
			z := int64(x)
			if rng.Intn(40) == 0 {
				z = -1 << 63
			}
			txt := strconv.FormatInt(z, 10)
			r := ldap.ConvertLDAPDurationToSeconds(txt)
			emit("ldap.dur2sec", fmt.Sprintf("%s -> %d", txt, r), map[string]interface{}{"t": c15CodesOf(txt), "r": i(r)})
		case 6:
			z := int64(x) >> uint(rng.Intn(40))
			r := ldap.ConvertSecondsToLDAPDuration(z)
			emit("ldap.sec2dur", fmt.Sprintf("%d -> %s", z, r), map[string]interface{}{"s": i(z), "t": c15CodesOf(r)})
		case 7:
			if x == 0 {
				x = 1
			}
			dt := kcutils.NewDateTime(x)
			emit("dt.new", fmt.Sprintf("ticks=%d -> %s", x, c15TimeStr(dt.Time)), map[string]interface{}{"x": u(x), "s": i(dt.Time.Unix()), "ns": dt.Time.Nanosecond(), "ticks": u(dt.ToTicks())})
		case 8:
			if x == 0 {
				x = 1
			}
			raw := binary.LittleEndian.AppendUint64(nil, x)
			dt := kcutils.ConvertFromBinaryTime(raw, c15Sources[rng.Intn(2)], key.KeyCredentialVersion{Value: c15Versions[rng.Intn(4)]})
			emit("kc.frombin", fmt.Sprintf("%x -> %s", raw, c15TimeStr(dt.Time)), map[string]interface{}{"b": h.Bytes(raw), "s": i(dt.Time.Unix()), "ns": dt.Time.Nanosecond(), "ticks": u(dt.ToTicks())})
		case 9:
			t := c15TimeOfTicks(x>>1, "116444736000000000", 0)
			raw := kcutils.ConvertToBinaryTime(t, c15Sources[rng.Intn(2)], key.KeyCredentialVersion{Value: c15Versions[rng.Intn(4)]})
			emit("kc.tobin", fmt.Sprintf("%s -> %x", c15TimeStr(t), raw), map[string]interface{}{"s": i(t.Unix()), "ns": t.Nanosecond(), "b": h.Bytes(raw),
				"nano": h.Bytes(binary.LittleEndian.AppendUint64(nil, uint64(t.UnixNano())))})
		case 10, 11:
			x &= 1<<60 - 1
			var t time.Time
			op := "v1.gettime"
			if rng.Intn(2) == 0 {
				v := &uuid_v1.UUIDv1{}
				v.Time = x
				t = v.GetTime()
			} else {
				op = "v2.gettime"
				v := &uuid_v2.UUIDv2{}
				v.Time = x
				t = v.GetTime()
			}
			emit(op, fmt.Sprintf("timestamp=%d -> %s", x, c15TimeStr(t)), map[string]interface{}{"x": u(x), "s": i(t.Unix()), "ns": t.Nanosecond()})
		default:
			t := c15TimeOfTicks(x&(1<<60-1), "122192928000000000", sub)
			var got uint64
			op := "v1.settime"
			if rng.Intn(2) == 0 {
				v := &uuid_v1.UUIDv1{}
				v.SetTime(t)
				got = v.Time
			} else {
				op = "v2.settime"
				v := &uuid_v2.UUIDv2{}
				v.SetTime(t)
				got = v.Time
			}
			emit(op, fmt.Sprintf("%s -> timestamp=%d", c15TimeStr(t), got), map[string]interface{}{"s": i(t.Unix()), "ns": t.Nanosecond(), "x": u(got)})
		}
	}
	c.Set("events", events)
	c.Set("ops", ops)
	return nil
}
