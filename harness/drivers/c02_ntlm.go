package drivers

// C02: NTLMv1 / NTLMv2 responses bound to spec/NTLM.tla, MD5.tla, DESKey.tla, C02Cases.tla, TraceNTLMv2.tla.
//
//   c02.cases   model -> code: parity expansion (exhaustive per 7-bit group), DESL key split, NTLMv1 NT/LM responses through
//               every entry point (Hash, String, NTResponse, LMResponse, ntlm.CreateAuthenticateMessage without extended
//               session security).  DES is the Prim term: every key and the challenge come from the specification.
//   c02.record  code -> model: NTLMv2 embeds time.Now() / a random client challenge, so the harness records inputs and the
//               bytes / text the real code produced (ResponseKeyNT, Hash, HashHex, ToHashcatString, AUTHENTICATE message
//               fields); TLC (TraceNTLMv2) is the independent verifier that knows the password.

import (
	"bytes"
	"encoding/binary"
	"encoding/hex"
	"encoding/json"
	"fmt"
	"math/rand"
	"strings"
	stdutf16 "unicode/utf16"

	"github.com/TheManticoreProject/Manticore/crypto/ntlmv1"
	"github.com/TheManticoreProject/Manticore/crypto/ntlmv2"
	"github.com/TheManticoreProject/Manticore/network/smb/smb_v10/spnego/ntlm"
	"verif/harness/h"
)

func init() {
	h.Register("c02.cases", c02Cases)
	h.Register("c02.record", c02Record)
}

type c02Case struct {
	K      string    `json:"k"`
	G      int       `json:"g"`
	V      int       `json:"v"`
	K7     h.Bytes   `json:"k7"`
	K8     h.Bytes   `json:"k8"`
	N      int       `json:"n"`
	Bit    int       `json:"bit"`
	Hash   h.Bytes   `json:"hash"`
	Chal   h.Bytes   `json:"chal"`
	Keys   []h.Bytes `json:"keys"`
	Pw     []int     `json:"pw"`
	NT     h.Bytes   `json:"nt"`
	NTKeys []h.Bytes `json:"ntkeys"`
	LM     bool      `json:"lm"`
	LMKeys []h.Bytes `json:"lmkeys"`
	Magic  h.Bytes   `json:"magic"`
	NTResp h.Bytes   `json:"ntresp"`
	LMResp h.Bytes   `json:"lmresp"`
}

// hExpand is the harness's own 56 -> 64 bit key spreading.  It is needed only for the SECOND stage of the LM response
// (the LM hash is itself the result of a Prim DES evaluation, so the specification cannot expand it) and is used only
// after it has been checked against every one of the specification's exhaustive parity cases.
func hExpand(k7 []byte) []byte {
	var x uint64
	for _, b := range k7 {
		x = x<<8 | uint64(b)
	}
	out := make([]byte, 8)
	for j := 0; j < 8; j++ {
		out[j] = byte((x>>(49-7*uint(j)))&0x7f) << 1
	}
	return out
}

func sameDESKey(a, b []byte) bool {
	if len(a) != 8 || len(b) != 8 {
		return false
	}
	for i := range a {
		if a[i]>>1 != b[i]>>1 {
			return false
		}
	}
	return true
}

// desl3 = DES(k1, c) || DES(k2, c) || DES(k3, c): the Prim evaluation, keys from the specification.
func desl3(keys []h.Bytes, chal []byte) ([]byte, error) {
	if len(keys) != 3 {
		return nil, fmt.Errorf("want 3 DES keys, got %d", len(keys))
	}
	var out []byte
	for _, k := range keys {
		out = append(out, desEnc(k, chal)...)
	}
	return out, nil
}

// authField extracts a (len, maxlen, offset) payload of an NTLMSSP message.
func authField(msg []byte, at int) ([]byte, error) {
	if len(msg) < at+8 {
		return nil, fmt.Errorf("message too short for the field descriptor at %d", at)
	}
	n := int(binary.LittleEndian.Uint16(msg[at:]))
	off := int(binary.LittleEndian.Uint32(msg[at+4:]))
	if off+n > len(msg) {
		return nil, fmt.Errorf("field at %d: offset %d + len %d beyond message of %d bytes", at, off, n, len(msg))
	}
	return msg[off : off+n], nil
}

func c02Cases(c *h.Ctx) error {
	var all []c02Case
	if err := c.Lines(func(raw []byte) error {
		var k c02Case
		if err := json.Unmarshal(raw, &k); err != nil {
			return err
		}
		all = append(all, k)
		return nil
	}); err != nil {
		return err
	}
	counts := map[string]int{}
	var reuseV1 *ntlmv1.NTLMv1
	var reuseBuf []byte
	// pass 1: the exhaustive parity table (also validates hExpand)
	for _, k := range all {
		if k.K != "parity" {
			continue
		}
		counts[k.K]++
		c.Case("parity:" + h.Hex(k.K7))
		if !sameDESKey(hExpand(k.K7), k.K8) {
			return fmt.Errorf("harness hExpand disagrees with DESKey!ParityExpand on %x: %x vs %x", []byte(k.K7), hExpand(k.K7), []byte(k.K8))
		}
		smp := map[string]interface{}{"key7_hex": h.Hex(k.K7), "group": k.G, "value": k.V}
		got, err := ntlmv1.ParityAdjust(append([]byte(nil), k.K7...))
		c.Exec(1)
		if err != nil {
			c.Fail("ntlmv1.ParityAdjust", "error", err.Error(), smp)
			continue
		}
		if !sameDESKey(got, k.K8) {
			c.Fail("ntlmv1.ParityAdjust", "key-bits", fmt.Sprintf("group %d value %d: spec %x code %x", k.G, k.V, []byte(k.K8), got), smp)
		} else if !bytes.Equal(got, k.K8) {
			c.Drift("ntlmv1.ParityAdjust", "parity-bit", fmt.Sprintf("group %d value %d: odd parity %x code %x", k.G, k.V, []byte(k.K8), got), smp)
		}
		if k.G == 3 && k.V == 85 {
			c.Sample(map[string]interface{}{"kind": "parity", "key7_hex": h.Hex(k.K7), "des_key": h.Hex(k.K8)})
		}
	}
	expandChecked := counts["parity"] >= 2048
	sampled := map[string]bool{}
	for _, k := range all {
		if k.K == "parity" {
			continue
		}
		counts[k.K]++
		switch k.K {
		case "paritybit":
			c.Case("")
			c.Exec(1)
			if got := ntlmv1.ParityBit(k.N); got != k.Bit {
				c.Drift("ntlmv1.ParityBit", "value", fmt.Sprintf("ParityBit(%d): spec %d code %d", k.N, k.Bit, got), nil)
			}
		case "desl":
			c.Case("desl:" + h.Hex(k.Hash) + ":" + h.Hex(k.Chal))
			want, err := desl3(k.Keys, k.Chal)
			if err != nil {
				return err
			}
			smp := map[string]interface{}{"hash16_hex": h.Hex(k.Hash), "challenge_hex": h.Hex(k.Chal)}
			c02V1(c, "ntlmv1.NewNTLMv1WithNTHash", func() (*ntlmv1.NTLMv1, error) {
				return ntlmv1.NewNTLMv1WithNTHash("DOM", "user", append(make([]byte, 0, 16), k.Hash...), append([]byte(nil), k.Chal...))
			}, want, smp)
			// history: ONE instance whose hash buffer is refilled in place (and whose challenge is replaced) from case to
			// case -- the response must always be DESL(current hash, current challenge), whichever entry point is asked
			if reuseV1 == nil {
				reuseBuf = make([]byte, 16)
				copy(reuseBuf, k.Hash)
				reuseV1, _ = ntlmv1.NewNTLMv1WithNTHash("DOM", "user", reuseBuf, append([]byte(nil), k.Chal...))
				if reuseV1 != nil {
					reuseV1.NTResponse()
				}
			} else {
				copy(reuseBuf, k.Hash)
				reuseV1.ServerChallenge = append([]byte(nil), k.Chal...)
				r1, _ := reuseV1.NTResponse()
				r2, _ := reuseV1.Hash()
				r3, _ := reuseV1.NTResponse()
				c.Exec(3)
				if !bytes.Equal(r1, want) || !bytes.Equal(r3, want) {
					c.Fail("ntlmv1.NTLMv1.NTResponse", "desl:instance-reused-hash-refilled-in-place", fmt.Sprintf("spec %x code %x / %x", want, r1, r3), smp)
				}
				if !bytes.Equal(r2, want) {
					c.Fail("ntlmv1.NTLMv1.Hash", "desl:instance-reused-hash-refilled-in-place", fmt.Sprintf("spec %x code %x", want, r2), smp)
				}
			}
			// the same hash handed over as a window of a larger array: result must not change; writing past it is D
			arr := append(append(make([]byte, 0, 40), k.Hash...), bytes.Repeat([]byte{0xEE}, 24)...)
			n, err := ntlmv1.NewNTLMv1WithNTHash("DOM", "user", arr[:16], append([]byte(nil), k.Chal...))
			if err == nil {
				g1, _ := n.NTResponse()
				g2, _ := n.Hash()
				g3, _ := n.NTResponse()
				c.Exec(3)
				if !bytes.Equal(g1, want) || !bytes.Equal(g2, want) || !bytes.Equal(g3, want) {
					c.Fail("ntlmv1.NTLMv1.Hash", "desl:hash-with-spare-capacity", fmt.Sprintf("spec %x code %x / %x / %x", want, g1, g2, g3), smp)
				}
				if !bytes.Equal(arr[16:40], bytes.Repeat([]byte{0xEE}, 24)) {
					c.Drift("ntlmv1.NTLMv1.Hash", "writes-past-nthash", "bytes after the caller's 16-byte hash were overwritten", smp)
				}
			}
			if !sampled["desl"] {
				sampled["desl"] = true
				c.Sample(map[string]interface{}{"kind": "desl", "hash16_hex": h.Hex(k.Hash), "challenge_hex": h.Hex(k.Chal), "expected_response": h.Hex(want)})
			}
		case "v1pw", "v1kat":
			pw := cps(k.Pw)
			c.Case("v1pw:" + pw + ":" + h.Hex(k.Chal))
			wantNT, err := desl3(k.NTKeys, k.Chal)
			if err != nil {
				return err
			}
			var wantLM []byte
			if k.LM {
				if !expandChecked {
					return fmt.Errorf("LM second stage needs hExpand, which was not validated (only %d parity cases)", counts["parity"])
				}
				if len(k.LMKeys) != 2 {
					return fmt.Errorf("want 2 LM keys")
				}
				lmHash := append(desEnc(k.LMKeys[0], k.Magic), desEnc(k.LMKeys[1], k.Magic)...)
				k3 := append(append([]byte(nil), lmHash[14:16]...), 0, 0, 0, 0, 0)
				wantLM, _ = desl3([]h.Bytes{hExpand(lmHash[0:7]), hExpand(lmHash[7:14]), hExpand(k3)}, k.Chal)
			}
			if k.K == "v1kat" {
				if !bytes.Equal(wantNT, k.NTResp) || !bytes.Equal(wantLM, k.LMResp) {
					return fmt.Errorf("oracle self-check failed against [MS-NLMP] 4.2.2: NT %x vs %x, LM %x vs %x", wantNT, []byte(k.NTResp), wantLM, []byte(k.LMResp))
				}
			}
			smp := map[string]interface{}{"password_codepoints": k.Pw, "challenge_hex": h.Hex(k.Chal)}
			mk := func() (*ntlmv1.NTLMv1, error) {
				return ntlmv1.NewNTLMv1WithPassword("DOM", "user", pw, append([]byte(nil), k.Chal...))
			}
			if n, err := mk(); err == nil && !bytes.Equal(n.NTHash, k.NT) {
				c.Fail("ntlmv1.NewNTLMv1WithPassword", "nthash", fmt.Sprintf("spec %x code %x", []byte(k.NT), n.NTHash), smp)
			}
			c02V1(c, "ntlmv1.NewNTLMv1WithPassword", mk, wantNT, smp)
			if k.LM {
				if n, err := mk(); err == nil {
					var got []byte
					if p := h.Guard(func() { got, err = n.LMResponse() }); p != "" {
						c.Fail("ntlmv1.NTLMv1.LMResponse", "panic", p, smp)
					} else if err != nil || !bytes.Equal(got, wantLM) {
						c.Fail("ntlmv1.NTLMv1.LMResponse", "desl", fmt.Sprintf("spec %x code %x (%v)", wantLM, got, err), smp)
					}
					c.Exec(1)
				}
			}
			// the SMB client's entry point, without extended session security -> NTLMv1
			var sc [8]byte
			copy(sc[:], k.Chal)
			var msg []byte
			if p := h.Guard(func() {
				msg, err = ntlm.CreateAuthenticateMessage(&ntlm.ChallengeMessage{NegotiateFlags: ntlm.NTLMSSP_NEGOTIATE_UNICODE, ServerChallenge: sc}, "user", pw, "dom", "WS")
			}); p != "" {
				c.Fail("ntlm.CreateAuthenticateMessage", "panic", p, smp)
			} else if err != nil {
				c.Fail("ntlm.CreateAuthenticateMessage", "error", err.Error(), smp)
			} else {
				c.Exec(1)
				lmF, e1 := authField(msg, 12)
				ntF, e2 := authField(msg, 20)
				if e1 != nil || e2 != nil {
					c.Fail("ntlm.CreateAuthenticateMessage", "ntlmv1:payload", fmt.Sprintf("%v %v", e1, e2), smp)
				} else {
					if !bytes.Equal(ntF, wantNT) {
						c.Fail("ntlm.CreateAuthenticateMessage", "ntlmv1:nt-response", fmt.Sprintf("spec %x code %x", wantNT, ntF), smp)
					}
					if k.LM && !bytes.Equal(lmF, wantLM) {
						c.Fail("ntlm.CreateAuthenticateMessage", "ntlmv1:lm-response", fmt.Sprintf("spec %x code %x", wantLM, lmF), smp)
					}
				}
			}
			if !sampled["v1pw"] && len(k.Pw) > 1 {
				sampled["v1pw"] = true
				c.Sample(map[string]interface{}{"kind": "ntlmv1", "password_codepoints": k.Pw, "challenge_hex": h.Hex(k.Chal), "nt_response": h.Hex(wantNT)})
			}
		default:
			return fmt.Errorf("unknown case kind %q", k.K)
		}
	}
	c.Set("by_kind", counts)
	return nil
}

// c02V1 drives one NTLMv1 object through Hash / String / NTResponse in both call orders.
func c02V1(c *h.Ctx, ctor string, mk func() (*ntlmv1.NTLMv1, error), want []byte, smp map[string]interface{}) {
	n, err := mk()
	if err != nil {
		c.Fail(ctor, "error", err.Error(), smp)
		return
	}
	var g []byte
	if p := h.Guard(func() { g, err = n.Hash() }); p != "" {
		c.Fail("ntlmv1.NTLMv1.Hash", "panic", p, smp)
	} else if c.Retain("ntlmv1.NTLMv1.Hash", g, smp); false {
	} else if err != nil || !bytes.Equal(g, want) {
		c.Fail("ntlmv1.NTLMv1.Hash", "desl", fmt.Sprintf("spec %x code %x (%v)", want, g, err), smp)
	}
	if s := n.String(); s != strings.ToUpper(hex.EncodeToString(want)) {
		if strings.EqualFold(s, hex.EncodeToString(want)) {
			c.Drift("ntlmv1.NTLMv1.String", "hex-case", "not upper-case hex", smp)
		} else {
			c.Fail("ntlmv1.NTLMv1.String", "desl", fmt.Sprintf("spec %X code %s", want, s), smp)
		}
	}
	if p := h.Guard(func() { g, err = n.NTResponse() }); p != "" {
		c.Fail("ntlmv1.NTLMv1.NTResponse", "panic", p, smp)
	} else if err != nil || !bytes.Equal(g, want) {
		c.Fail("ntlmv1.NTLMv1.NTResponse", "desl", fmt.Sprintf("after Hash: spec %x code %x (%v)", want, g, err), smp)
	}
	// fresh object, NTResponse first, then Hash: whichever entry point computes them
	if n2, err := mk(); err == nil {
		a, _ := n2.NTResponse()
		b, _ := n2.Hash()
		if !bytes.Equal(a, want) {
			c.Fail("ntlmv1.NTLMv1.NTResponse", "desl", fmt.Sprintf("spec %x code %x", want, a), smp)
		}
		if !bytes.Equal(b, want) {
			c.Fail("ntlmv1.NTLMv1.Hash", "desl", fmt.Sprintf("after NTResponse: spec %x code %x", want, b), smp)
		}
	}
	c.Exec(5)
}

// ---------------------------------------------------------------- NTLMv2 recorder

func runes(s string) []int {
	out := []int{}
	for _, r := range s {
		out = append(out, int(r))
	}
	return out
}

func utf16leToCPs(b []byte) []int {
	u := make([]uint16, len(b)/2)
	for i := range u {
		u[i] = binary.LittleEndian.Uint16(b[2*i:])
	}
	out := []int{}
	for _, r := range stdutf16.Decode(u) {
		out = append(out, int(r))
	}
	return out
}

func c02Record(c *h.Ctx) error {
	nrand := c.OptInt("random", 40)
	rng := rand.New(rand.NewSource(int64(c.OptInt("seed", 1))*6151 + 2))
	// letters whose simple case mapping is 1:1 and in the specification's table (Text.tla), caseless symbols, digits
	letters := []rune("abcxyzABCXYZ019._-$ éÉжЖαΑäÄ日😀")
	users := []string{"", "user", "USER", "uSeR", "Administrator", "élodie1", "ЖжЖ", "svc_sql$", "日本😀x"}
	doms := []string{"", "corp", "CORP", "CoRp.local", "Domain", "αΑ-dom", "x"}
	pws := []string{"", "Password", "pässword Ж", "😀😀", strings.Repeat("a", 27), strings.Repeat("Zy", 14)}
	type scen struct {
		user, dom, pw string
		sc, cc       [8]byte
	}
	var scens []scen
	chal := func(i int) (x [8]byte) {
		switch i % 4 {
		case 0:
			copy(x[:], []byte{1, 0x23, 0x45, 0x67, 0x89, 0xab, 0xcd, 0xef})
		case 1:
			for j := range x {
				x[j] = 0xff
			}
		case 2:
		default:
			rng.Read(x[:])
		}
		return
	}
	i := 0
	for _, u := range users {
		for _, d := range doms {
			scens = append(scens, scen{u, d, pws[i%len(pws)], chal(i), chal(i + 1 + i/4)})
			i++
		}
	}
	// sizes: each of the three texts alone grown past the lengths at which a fixed-size buffer would run out (a NetBIOS
	// domain has at most 15 characters, a DNS domain or a UPN has not) -- 15/16/17, 31/32/33, 64, 100 and 256 characters
	for _, n := range []int{15, 16, 17, 31, 32, 33, 64, 100, 256} {
		long := func(seedText string) string {
			r := []rune{}
			for len(r) < n {
				r = append(r, []rune(seedText)...)
			}
			return string(r[:n])
		}
		scens = append(scens, scen{"user", long("corp.subsidiary.emea.example.com."), "Password", chal(i), chal(i + 3)})
		scens = append(scens, scen{long("firstname.lastname-ж"), "corp", "Password", chal(i + 1), chal(i + 2)})
		scens = append(scens, scen{"user", "CORP", long("correct horse battery staple é"), chal(i + 2), chal(i + 1)})
		i += 3
	}
	rs := func(max int) string {
		n := rng.Intn(max + 1)
		r := make([]rune, n)
		for j := range r {
			r[j] = letters[rng.Intn(len(letters))]
		}
		return string(r)
	}
	for j := 0; j < nrand; j++ {
		var sc, cc [8]byte
		rng.Read(sc[:])
		rng.Read(cc[:])
		scens = append(scens, scen{rs(12), rs(10), rs(16), sc, cc})
	}
	events := 0
	emit := func(m map[string]interface{}) {
		b, _ := json.Marshal(m)
		c.Emit(b)
		events++
	}
	byOp := map[string]int{}
	for idx, s := range scens {
		base := func(op string) map[string]interface{} {
			byOp[op]++
			return map[string]interface{}{"op": op, "user": runes(s.user), "dom": runes(s.dom), "pw": runes(s.pw),
				"sc": h.Bytes(s.sc[:]), "cc": h.Bytes(s.cc[:])}
		}
		smp := map[string]interface{}{"user": s.user, "domain": s.dom, "password": s.pw}
		n, err := ntlmv2.NewNTLMv2(s.dom, s.user, s.pw, s.sc, s.cc)
		if err != nil {
			c.Fail("ntlmv2.NewNTLMv2", "error", err.Error(), smp)
			continue
		}
		c.Case(fmt.Sprintf("%s|%s|%s", s.user, s.dom, s.pw))
		m := base("key")
		m["key"] = h.Bytes(n.ResponseKeyNT[:])
		m["api"] = "NewNTLMv2"
		emit(m)
		if resp, err := n.Hash(); err != nil {
			c.Fail("ntlmv2.NTLMv2.Hash", "error", err.Error(), smp)
		} else {
			m = base("resp")
			m["api"] = "Hash"
			m["resp"] = h.Bytes(resp)
			emit(m)
		}
		if hx, err := n.HashHex(); err != nil {
			c.Fail("ntlmv2.NTLMv2.HashHex", "error", err.Error(), smp)
		} else if raw, err := hex.DecodeString(hx); err != nil {
			c.Fail("ntlmv2.NTLMv2.HashHex", "not-hex", hx, smp)
		} else {
			m = base("resp")
			m["api"] = "HashHex"
			m["resp"] = h.Bytes(raw)
			emit(m)
		}
		if line, err := n.ToHashcatString(); err != nil {
			c.Fail("ntlmv2.NTLMv2.ToHashcatString", "error", err.Error(), smp)
		} else if !strings.ContainsAny(s.user+s.dom, ":") {
			m = base("line")
			m["api"] = "ToHashcatString"
			m["line"] = runes(line)
			emit(m)
		}
		if idx%3 == 1 && idx+1 < len(scens) {
			// history: the same instance is given the next scenario's credential through its exported fields and asked
			// again; every output must verify for the credential the instance holds NOW (nothing cached from before)
			s2 := scens[idx+1]
			base2 := func(op string) map[string]interface{} {
				byOp[op+"(reused)"]++
				return map[string]interface{}{"op": op, "user": runes(s2.user), "dom": runes(s2.dom), "pw": runes(s2.pw),
					"sc": h.Bytes(s2.sc[:]), "cc": h.Bytes(s2.cc[:]), "history": "instance reused after its credential fields were reassigned"}
			}
			n.Domain, n.Username, n.Password, n.ServerChallenge, n.ClientChallenge = s2.dom, s2.user, s2.pw, s2.sc, s2.cc
			if resp, err := n.Hash(); err == nil {
				m = base2("resp")
				m["api"] = "Hash"
				m["resp"] = h.Bytes(resp)
				emit(m)
			}
			if line, err := n.ToHashcatString(); err == nil && !strings.ContainsAny(s2.user+s2.dom, ":") {
				m = base2("line")
				m["api"] = "ToHashcatString"
				m["line"] = runes(line)
				emit(m)
			}
		}
		if idx%2 == 0 {
			// AUTHENTICATE under extended session security; target info = a well-formed AV pair list from the "server"
			ti := []byte{}
			if idx%4 == 0 {
				nb := []byte{'S', 0, 'R', 0, 'V', 0}
				ti = append(ti, 1, 0, byte(len(nb)), 0)
				ti = append(ti, nb...)
				ti = append(ti, 7, 0, 8, 0, 1, 2, 3, 4, 5, 6, 7, 8)
			}
			ti = append(ti, 0, 0, 0, 0)
			var msg []byte
			if p := h.Guard(func() {
				msg, err = ntlm.CreateAuthenticateMessage(&ntlm.ChallengeMessage{
					NegotiateFlags:  ntlm.NTLMSSP_NEGOTIATE_UNICODE | ntlm.NTLMSSP_NEGOTIATE_EXTENDED_SESSIONSECURITY,
					ServerChallenge: s.sc, TargetInfo: append([]byte(nil), ti...)}, s.user, s.pw, s.dom, "WS")
			}); p != "" {
				c.Fail("ntlm.CreateAuthenticateMessage", "panic", p, smp)
				continue
			} else if err != nil {
				c.Fail("ntlm.CreateAuthenticateMessage", "error", err.Error(), smp)
				continue
			}
			lmF, e1 := authField(msg, 12)
			ntF, e2 := authField(msg, 20)
			domF, e3 := authField(msg, 28)
			userF, e4 := authField(msg, 36)
			if e1 != nil || e2 != nil || e3 != nil || e4 != nil {
				c.Fail("ntlm.CreateAuthenticateMessage", "ntlmv2:payload", fmt.Sprint(e1, e2, e3, e4), smp)
				continue
			}
			m = base("auth")
			m["api"] = "CreateAuthenticateMessage"
			delete(m, "cc")
			m["nt"] = h.Bytes(ntF)
			m["lm"] = h.Bytes(lmF)
			m["mdom"] = utf16leToCPs(domF)
			m["muser"] = utf16leToCPs(userF)
			m["ti"] = h.Bytes(ti)
			emit(m)
			// the same exchange when the server negotiated the OEM character set: the names travel as OEM bytes, the response is
			// keyed exactly as before (MS-NLMP 3.3.2: NTOWFv2 is taken over the UTF-16LE names whatever the message uses)
			isASCII := func(t string) bool {
				for _, r := range t {
					if r > 126 || r < 32 {
						return false
					}
				}
				return true
			}
			if isASCII(s.user) && isASCII(s.dom) {
				var msg2 []byte
				var err2 error
				if p := h.Guard(func() {
					msg2, err2 = ntlm.CreateAuthenticateMessage(&ntlm.ChallengeMessage{
						NegotiateFlags:  ntlm.NTLMSSP_NEGOTIATE_OEM | ntlm.NTLMSSP_NEGOTIATE_EXTENDED_SESSIONSECURITY,
						ServerChallenge: s.sc, TargetInfo: append([]byte(nil), ti...)}, s.user, s.pw, s.dom, "WS")
				}); p != "" {
					c.Fail("ntlm.CreateAuthenticateMessage", "panic", p, smp)
					continue
				} else if err2 != nil {
					c.Fail("ntlm.CreateAuthenticateMessage", "error", err2.Error(), smp)
					continue
				}
				lm2, e1 := authField(msg2, 12)
				nt2, e2 := authField(msg2, 20)
				dom2, e3 := authField(msg2, 28)
				user2, e4 := authField(msg2, 36)
				if e1 != nil || e2 != nil || e3 != nil || e4 != nil {
					c.Fail("ntlm.CreateAuthenticateMessage", "ntlmv2:payload", fmt.Sprint(e1, e2, e3, e4), smp)
					continue
				}
				oem := func(b []byte) []int {
					out := make([]int, len(b))
					for i, x := range b {
						out[i] = int(x)
					}
					return out
				}
				m = base("auth")
				m["api"] = "CreateAuthenticateMessage"
				delete(m, "cc")
				m["nt"] = h.Bytes(nt2)
				m["lm"] = h.Bytes(lm2)
				m["mdom"] = oem(dom2)
				m["muser"] = oem(user2)
				m["ti"] = h.Bytes(ti)
				emit(m)
			}
		}
	}
	c.Exec(events)
	c.Set("events", events)
	c.Set("events_by_op", byOp)
	c.Set("scenarios", len(scens))
	c.Sample(map[string]interface{}{"kind": "ntlmv2 scenario", "user": scens[12].user, "domain": scens[12].dom, "password": scens[12].pw})
	return nil
}
