package drivers

// C16: binary SIDs and distinguished names decode to their canonical text; bound to spec/SID.tla, spec/DN.tla.
//
//   c16.cases   model -> code: every SID (all counts 0..15 x value patterns x authorities) and every DN (all RDN
//               sequences up to a length over types x values) that TLC enumerated, with the text the specification computes.
//   c16.record  code -> model: full-range random SIDs and DNs run through the real functions; TLC (TraceC16.tla) judges each line.

import (
	"encoding/json"
	"fmt"
	"math/rand"
	"strings"

	"github.com/TheManticoreProject/Manticore/network/ldap"
	"verif/harness/h"
)

func init() {
	h.Register("c16.cases", c16Cases)
	h.Register("c16.record", c16Record)
}

const (
	c16SidSite = "ldap.ParseSIDFromBytes"
	c16DnSite  = "ldap.GetDomainFromDistinguishedName"
)

func c16Text(xs []int) string {
	r := make([]rune, len(xs))
	for i, x := range xs {
		r[i] = rune(x)
	}
	return string(r)
}

func c16Codes(s string) []int {
	out := []int{}
	for _, r := range s {
		out = append(out, int(r))
	}
	return out
}

// C16SidClass names the sub-authority-count class of a failure: the two degenerate counts are their own classes.
func C16SidClass(n int) string {
	switch {
	case n == 0:
		return "count=0"
	case n == 1:
		return "count=1"
	}
	return "count>=2"
}

type c16Case struct {
	K     string  `json:"k"`
	In    h.Bytes `json:"in"`
	N     int     `json:"n"`
	Txt   []int   `json:"txt"`
	Dec   []int   `json:"dec"`
	Dn    []int   `json:"dn"`
	Dom   []int   `json:"dom"`
	Drift string  `json:"drift"`
	Esc   bool    `json:"esc"`
}

func c16Cases(c *h.Ctx) error {
	nsid, ndn := 0, 0
	err := c.Lines(func(raw []byte) error {
		var k c16Case
		if err := json.Unmarshal(raw, &k); err != nil {
			return err
		}
		switch k.K {
		case "sid":
			nsid++
			c.Case("sid:" + h.Hex(k.In))
			var got string
			p := h.Guard(func() { got = ldap.ParseSIDFromBytes(k.In) })
			c.Exec(1)
			if p == "" {
				c.ReusedInput(c16SidSite, k.In, func(b []byte) (r string) {
					h.Guard(func() { r = ldap.ParseSIDFromBytes(b) })
					return r
				}, h.Hex(k.In))
			}
			want, dec := c16Text(k.Txt), c16Text(k.Dec)
			smp := map[string]interface{}{"sid_hex": h.Hex(k.In), "sub_authority_count": k.N, "spec_text": want}
			if p != "" {
				c.Fail(c16SidSite, "panic:"+C16SidClass(k.N), fmt.Sprintf("well-formed SID %x: panic %s", []byte(k.In), p), smp)
			} else if got != want && got != dec {
				// P: "S-1-" authority and each sub-authority in decimal, single dashes (MS-DTYP 2.4.2.1; the hex form of
				// authorities >= 2^32 and the all-decimal form the property statement words are both accepted)
				c.Fail(c16SidSite, "text:"+C16SidClass(k.N), fmt.Sprintf("SID %x: spec %q code %q", []byte(k.In), want, got), smp)
			}
			if nsid%97 == 5 {
				c.Sample(map[string]interface{}{"kind": "sid", "sid_hex": h.Hex(k.In), "spec_text": want})
			}
		case "dn":
			ndn++
			dn, want := c16Text(k.Dn), c16Text(k.Dom)
			c.Case("dn:" + dn)
			var got string
			p := h.Guard(func() { got = ldap.GetDomainFromDistinguishedName(dn) })
			c.Exec(1)
			smp := map[string]interface{}{"dn": dn, "spec_domain": want}
			cls := "plain"
			if k.Esc {
				cls = "escaped-comma"
			}
			switch {
			case p != "":
				c.Fail(c16DnSite, "panic:"+cls, fmt.Sprintf("DN %q: panic %s", dn, p), smp)
			case got != want && k.Drift != "":
				// D: lower-case "dc=" types and empty values are not "the form Active Directory emits"
				c.Drift(c16DnSite, "domain:"+k.Drift, fmt.Sprintf("DN %q: spec %q code %q", dn, want, got), smp)
			case got != want:
				c.Fail(c16DnSite, "domain:"+cls, fmt.Sprintf("DN %q: spec %q code %q", dn, want, got), smp)
			}
			if ndn%1999 == 7 {
				c.Sample(map[string]interface{}{"kind": "dn", "dn": dn, "spec_domain": want})
			}
		default:
			return fmt.Errorf("unknown case kind %q", k.K)
		}
		return nil
	})
	c.Set("sid_cases", nsid)
	c.Set("dn_cases", ndn)
	return err
}

// c16Record: random inputs over the full value range; the harness has its own DN writer (AD style: "\," "\\" "\+" ...).
func c16Record(c *h.Ctx) error {
	rng := rand.New(rand.NewSource(int64(c.OptInt("seed", 1))*7919 + 16))
	nsid, ndn := c.OptInt("sids", 200), c.OptInt("dns", 200)
	c.Emit([]byte(`{"op":"reset"}`))
	for i := 0; i < nsid; i++ {
		n := i % 16 // every count, over and over
		b := []byte{1, byte(n), 0, 0, 0, 0, 0, 0}
		switch rng.Intn(4) {
		case 0: // small well-known authorities
			b[7] = byte(rng.Intn(20))
		case 1: // anything below 2^32
			rng.Read(b[4:8])
		case 2: // full 48 bits
			rng.Read(b[2:8])
		case 3:
			b[7] = 5
		}
		for k := 0; k < n; k++ {
			var s [4]byte
			switch rng.Intn(5) {
			case 0:
				s = [4]byte{byte(rng.Intn(256)), 0, 0, 0}
			case 1:
				s = [4]byte{0xff, 0xff, 0xff, 0xff}
			default:
				rng.Read(s[:])
			}
			b = append(b, s[:]...)
		}
		var got string
		p := h.Guard(func() { got = ldap.ParseSIDFromBytes(b) })
		if p != "" {
			c.Fail(c16SidSite, "panic:"+C16SidClass(n), fmt.Sprintf("well-formed SID %x: panic %s", b, p), map[string]interface{}{"sid_hex": h.Hex(b)})
			continue
		}
		line, _ := json.Marshal(map[string]interface{}{"op": "sid", "in": h.Bytes(b), "out": c16Codes(got)})
		c.Emit(line)
		c.Case("sid:" + h.Hex(b))
	}
	types := []string{"CN", "OU", "DC", "DC", "DC", "O", "L", "UID", "dc", "Dc"}
	alpha := []rune("abcxyzDC=019 -_.#+;<>\"\\,é漢")
	esc := func(v string) string {
		var sb strings.Builder
		rs := []rune(v)
		for i, r := range rs {
			if strings.ContainsRune("\"+,;<>\\", r) || (i == 0 && (r == '#' || r == ' ')) || (i == len(rs)-1 && r == ' ') {
				sb.WriteByte('\\')
			}
			sb.WriteRune(r)
		}
		return sb.String()
	}
	label := []rune("abcxyzABC019-")
	for i := 0; i < ndn; i++ {
		// two in three DNs are in the form Active Directory emits (upper-case types, DNS labels as DC values, no empty
		// value, leaf RDNs with arbitrary escaped text followed by the DC suffix); the rest is wild
		adForm := i%3 != 0
		k := rng.Intn(9)
		parts := make([]string, 0, k)
		for j := 0; j < k; j++ {
			t := types[rng.Intn(len(types))]
			if adForm {
				t = []string{"CN", "OU", "DC", "DC", "O", "L", "UID"}[rng.Intn(7)]
			}
			ln := 1 + rng.Intn(6)
			if !adForm && rng.Intn(12) == 0 {
				ln = 0
			}
			v := make([]rune, ln)
			for x := range v {
				if adForm && t == "DC" {
					v[x] = label[rng.Intn(len(label))]
				} else {
					v[x] = alpha[rng.Intn(len(alpha))]
				}
			}
			val := string(v)
			if rng.Intn(6) == 0 && !(adForm && t == "DC") {
				val += ",DC=" + string(alpha[rng.Intn(6)]) // an escaped comma followed by DC=...
			}
			parts = append(parts, t+"="+esc(val))
		}
		dn := strings.Join(parts, ",")
		var got string
		p := h.Guard(func() { got = ldap.GetDomainFromDistinguishedName(dn) })
		if p != "" {
			c.Fail(c16DnSite, "panic:plain", fmt.Sprintf("DN %q: panic %s", dn, p), map[string]interface{}{"dn": dn})
			continue
		}
		line, _ := json.Marshal(map[string]interface{}{"op": "dn", "in": c16Codes(dn), "out": c16Codes(got)})
		c.Emit(line)
		c.Case("dn:" + dn)
	}
	c.Exec(nsid + ndn)
	c.Set("events", nsid+ndn)
	return nil
}
