// Package drivers contains one file per specification component: replay drivers (model -> code)
// and recorders (code -> model).
package drivers
