package drivers

// C04 / C05: the SMB1 command structures bound to spec/SMBCommands.tla (cases from spec/SMBCases.tla).
//
//   c04.replay  model -> code, Mode "decl": for every TLC case the values are stored into a fresh structure by reflection
//               (the spec names every Go path and the numeral to put there), then
//                 Marshal -> Unmarshal into a fresh structure -> every path read back      roundtrip:<Field>
//                 message.Message{decoded structure}.Marshal (header stripped)                reencode, reencode:fresh-buffers
//                 one-field-changed cases against the structure's "distinct" case           slot:<Field>
//                 total length against the sum of the declared widths                       length
//   c05.replay  model -> code, Mode "cifs": library bytes against the reference encoding, slot by slot
//                 (byteorder:<Field> when the slot holds exactly the byte-reversed atoms, layout:<Field> otherwise,
//                 layout:WordCount, layout:ByteCount, length, type:<Field>, param-block-odd, andx-flag), and the
//                 library's Unmarshal fed with the REFERENCE bytes (refdecode:<Field>, decode-byteorder:<Field>, refdecode-error).
//   c04.record  code -> model: random full-range values for the free integer atoms of every structure (shapes come from a
//               TLC "distinct" run), real Marshal/Unmarshal, one ndjson event per structure for spec/TraceSMB.tla to judge.
//
// The driver knows no width, offset or byte order: it only stores and reads numerals at named paths and compares byte slices.

import (
	"bytes"
	"encoding/json"
	"fmt"
	"github.com/TheManticoreProject/Manticore/network/smb/smb_v10/message/commands"
	"github.com/TheManticoreProject/Manticore/network/smb/smb_v10/types"
	"math/rand"
	"reflect"
	"strconv"
	"strings"

	"github.com/TheManticoreProject/Manticore/network/smb/smb_v10/message"
	"github.com/TheManticoreProject/Manticore/network/smb/smb_v10/message/commands/andx"
	"github.com/TheManticoreProject/Manticore/network/smb/smb_v10/message/commands/command_interface"
	"github.com/TheManticoreProject/Manticore/network/smb/smb_v10/message/data"
	"github.com/TheManticoreProject/Manticore/network/smb/smb_v10/message/parameters"
	"verif/harness/h"
)

func init() {
	h.Register("c04.replay", func(c *h.Ctx) error { return smbReplay(c, "decl") })
	h.Register("c04.record", smbRecord)
}

type smbSet struct {
	P    []string  `json:"p"`
	V    *h.Bytes  `json:"v,omitempty"`
	B    *h.Bytes  `json:"b,omitempty"`
	N    *int      `json:"n,omitempty"`
	Strs []h.Bytes `json:"strs,omitempty"`
	Soft bool      `json:"soft,omitempty"`
	HasS bool      `json:"-"`
}

func (s *smbSet) UnmarshalJSON(b []byte) error {
	type plain smbSet
	var raw map[string]json.RawMessage
	if err := json.Unmarshal(b, &raw); err != nil {
		return err
	}
	if err := json.Unmarshal(b, (*plain)(s)); err != nil {
		return err
	}
	_, s.HasS = raw["strs"]
	return nil
}

type smbAtom struct {
	Off   int     `json:"off"`
	W     int     `json:"w"`
	Enc   string  `json:"enc"`
	Bytes h.Bytes `json:"bytes"`
}

type smbFieldRec struct {
	Name       string    `json:"name"`
	Block      string    `json:"block"`
	Off        int       `json:"off"`
	Len        int       `json:"len"`
	Fixed      bool      `json:"fixed"`
	Kind       string    `json:"kind"`
	Unsure     bool      `json:"unsure"`
	Unbindable bool      `json:"unbindable"`
	PosDef     bool      `json:"posdef"`
	Free       bool      `json:"free"`
	Atoms      []smbAtom `json:"atoms"`
	Sets       []smbSet  `json:"sets"`
	Wire       h.Bytes   `json:"wire"`
}

type smbCase struct {
	S       string        `json:"s"`
	Dir     string        `json:"dir"`
	Code    int           `json:"code"`
	AndX    bool          `json:"andx"`
	LibAndX bool          `json:"libandx"`
	Mode    string        `json:"mode"`
	Pat     string        `json:"pat"`
	Chg     string        `json:"chg"`
	L       int           `json:"L"`
	WF      bool          `json:"wf"`
	LenDef  bool          `json:"lendef"`
	WC      int           `json:"wc"`
	BC      int           `json:"bc"`
	Fields  []smbFieldRec `json:"fields"`
	Wire    h.Bytes       `json:"wire"`
	Alt     []*smbCase    `json:"alt"` // the other legal encoding (zero-valued optional field left out), if any
}

func (k *smbCase) key() string { return fmt.Sprintf("%s|%s|%s|%d", k.S, k.Pat, k.Chg, k.L) }

// patClass names the value pattern in aspects of whole-structure failures (errors, panics), so that a structure that is
// known to fail on one kind of input is still watched on the others.
func (k *smbCase) patClass() string {
	if k.Pat == "len" {
		return "len:" + k.Chg
	}
	return k.Pat
}

// unsure: some field of the case has an MS-CIFS reading that is not certain; whole-case aspects are then drift.
func (k *smbCase) unsure() bool {
	for i := range k.Fields {
		if k.Fields[i].Unsure {
			return true
		}
	}
	return false
}
func (k *smbCase) sample() map[string]interface{} {
	return map[string]interface{}{"structure": k.S, "pattern": k.Pat, "field": k.Chg, "L": k.L, "mode": k.Mode, "reference_wire_hex": smbHex(k.Wire)}
}

func smbHex(b []byte) string {
	if len(b) > 96 {
		return h.Hex(b[:96]) + fmt.Sprintf("...(%d bytes)", len(b))
	}
	return h.Hex(b)
}

// ---- reflection: numerals at named paths ----

func smbNav(c command_interface.CommandInterface, path []string, create bool) (reflect.Value, error) {
	var v reflect.Value
	if len(path) > 0 && path[0] == "@AndX" {
		a := c.GetAndX()
		if a == nil {
			if !create {
				return v, fmt.Errorf("GetAndX() is nil")
			}
			a = andx.NewAndX()
			c.SetAndX(a)
		}
		v = reflect.ValueOf(a).Elem()
		path = path[1:]
	} else {
		v = reflect.ValueOf(c).Elem()
	}
	for _, p := range path {
		for v.Kind() == reflect.Ptr {
			if v.IsNil() {
				return v, fmt.Errorf("nil pointer before %q", p)
			}
			v = v.Elem()
		}
		switch v.Kind() {
		case reflect.Struct:
			f := v.FieldByName(p)
			if !f.IsValid() {
				return v, fmt.Errorf("no field %q in %s", p, v.Type())
			}
			v = f
		case reflect.Slice, reflect.Array:
			i, err := strconv.Atoi(p)
			if err != nil {
				return v, fmt.Errorf("index %q into %s", p, v.Type())
			}
			if i >= v.Len() {
				return v, fmt.Errorf("index %d out of range (len %d)", i, v.Len())
			}
			v = v.Index(i)
		default:
			return v, fmt.Errorf("cannot descend into %s at %q", v.Type(), p)
		}
	}
	return v, nil
}

func numeralToU64(d []byte) uint64 {
	var u uint64
	for _, x := range d {
		u = u<<8 | uint64(x)
	}
	return u
}

func u64ToNumeral(u uint64, w int) []byte {
	out := make([]byte, w)
	for i := w - 1; i >= 0; i-- {
		out[i] = byte(u)
		u >>= 8
	}
	return out
}

func smbStore(c command_interface.CommandInterface, s *smbSet) error {
	v, err := smbNav(c, s.P, true)
	if err != nil {
		return err
	}
	switch {
	case s.V != nil:
		u := numeralToU64(*s.V)
		switch v.Kind() {
		case reflect.Uint8, reflect.Uint16, reflect.Uint32, reflect.Uint64, reflect.Uint:
			v.SetUint(u)
		case reflect.Int8, reflect.Int16, reflect.Int32, reflect.Int64, reflect.Int:
			sh := uint(64 - 8*len(*s.V))
			v.SetInt(int64(u<<sh) >> sh) // two's complement image of the numeral
		default:
			return fmt.Errorf("numeral into %s", v.Type())
		}
	case s.B != nil:
		if v.Kind() != reflect.Slice || v.Type().Elem().Kind() != reflect.Uint8 {
			return fmt.Errorf("bytes into %s", v.Type())
		}
		v.SetBytes(append([]byte{}, (*s.B)...))
	case s.N != nil:
		if v.Kind() != reflect.Slice {
			return fmt.Errorf("alloc of %s", v.Type())
		}
		v.Set(reflect.MakeSlice(v.Type(), *s.N, *s.N))
	case s.HasS:
		if v.Kind() != reflect.Slice || v.Type().Elem().Kind() != reflect.String {
			return fmt.Errorf("strings into %s", v.Type())
		}
		out := reflect.MakeSlice(v.Type(), len(s.Strs), len(s.Strs))
		for i, x := range s.Strs {
			out.Index(i).SetString(string(x))
		}
		v.Set(out)
	}
	return nil
}

// smbLoad reads the value at the path of s and says whether it equals the expectation; got is a printable form.
func smbLoad(c command_interface.CommandInterface, s *smbSet) (equal bool, got string, reversed bool) {
	v, err := smbNav(c, s.P, false)
	if err != nil {
		return false, err.Error(), false
	}
	switch {
	case s.V != nil:
		w := len(*s.V)
		var u uint64
		switch v.Kind() {
		case reflect.Uint8, reflect.Uint16, reflect.Uint32, reflect.Uint64, reflect.Uint:
			u = v.Uint()
		case reflect.Int8, reflect.Int16, reflect.Int32, reflect.Int64, reflect.Int:
			u = uint64(v.Int())
		default:
			return false, "not an integer: " + v.Type().String(), false
		}
		g := u64ToNumeral(u, w)
		rev := make([]byte, w)
		for i := range g {
			rev[i] = g[w-1-i]
		}
		return bytes.Equal(g, *s.V), h.Hex(g), w > 1 && bytes.Equal(rev, *s.V)
	case s.B != nil:
		if v.Kind() != reflect.Slice {
			return false, "not a slice", false
		}
		g := v.Bytes()
		return bytes.Equal(g, *s.B), smbHex(g), false
	case s.N != nil:
		if v.Kind() != reflect.Slice {
			return false, "not a slice", false
		}
		return v.Len() == *s.N, fmt.Sprintf("len %d", v.Len()), false
	case s.HasS:
		if v.Kind() != reflect.Slice || v.Len() != len(s.Strs) {
			return false, fmt.Sprintf("%v", v.Interface()), false
		}
		for i, x := range s.Strs {
			if v.Index(i).String() != string(x) {
				return false, fmt.Sprintf("%q", v.Interface()), false
			}
		}
		return true, "", false
	}
	return true, "", false
}

func (s *smbSet) want() string {
	switch {
	case s.V != nil:
		return h.Hex(*s.V)
	case s.B != nil:
		return smbHex(*s.B)
	case s.N != nil:
		return fmt.Sprintf("len %d", *s.N)
	}
	var out []string
	for _, x := range s.Strs {
		out = append(out, string(x))
	}
	return fmt.Sprintf("%q", out)
}

// ---- executions of the real code, panics turned into errors ----

func smbBuild(mk func() command_interface.CommandInterface, k *smbCase) (command_interface.CommandInterface, error) {
	x := mk()
	x.Init()
	for i := range k.Fields {
		for j := range k.Fields[i].Sets {
			if err := smbStore(x, &k.Fields[i].Sets[j]); err != nil {
				return nil, fmt.Errorf("%s: store %s: %v", k.S, strings.Join(k.Fields[i].Sets[j].P, "."), err)
			}
		}
	}
	return x, nil
}

func smbMarshal(x command_interface.CommandInterface) (out []byte, err error, panicked string) {
	panicked = h.Guard(func() { out, err = x.Marshal() })
	return
}

// smbMarshalInMessage encodes the command the way a caller sends it: wrapped in a fresh message.Message; the 32 header bytes are dropped.
func smbMarshalInMessage(x command_interface.CommandInterface) (out []byte, err error, panicked string) {
	panicked = h.Guard(func() {
		m := message.NewMessage()
		m.AddCommand(x)
		out, err = m.Marshal()
	})
	if err == nil && panicked == "" {
		if len(out) < 32 {
			return nil, fmt.Errorf("message shorter than an SMB header: %d bytes", len(out)), ""
		}
		out = out[32:]
	}
	return
}

func smbUnmarshal(mk func() command_interface.CommandInterface, b []byte) (y command_interface.CommandInterface, err error, panicked string) {
	y = mk()
	y.Init()
	panicked = h.Guard(func() { _, err = y.Unmarshal(append([]byte{}, b...)) })
	return
}

func smbLoadCases(c *h.Ctx) ([]*smbCase, error) {
	var cases []*smbCase
	err := c.Lines(func(raw []byte) error {
		k := &smbCase{}
		if err := json.Unmarshal(raw, k); err != nil {
			return fmt.Errorf("%v in %.200s", err, raw)
		}
		cases = append(cases, k)
		return nil
	})
	return cases, err
}

func smbReplay(c *h.Ctx, mode string) error {
	mk, structs := smbFactories()
	cases, err := smbLoadCases(c)
	if err != nil {
		return err
	}
	seen := map[string]bool{}
	baseLib := map[string][]byte{} // library bytes of the "distinct" case per structure (C04 slot locality)
	uncovered := []string{}
	nfields, natoms := 0, 0
	for _, k := range cases {
		if k.Mode != mode {
			return fmt.Errorf("case of mode %q given to the %q replay", k.Mode, mode)
		}
		if k.Pat == "uncovered" {
			uncovered = append(uncovered, k.S)
			continue
		}
		if mk[k.S] == nil {
			return fmt.Errorf("structure %s not reachable from the factories", k.S)
		}
		seen[k.S] = true
		if k.Pat == "distinct" {
			for _, f := range k.Fields {
				nfields++
				natoms += len(f.Atoms)
			}
		}
	}
	// pass 1 (C04): library bytes of every base case
	if mode == "decl" {
		for _, k := range cases {
			if k.Pat != "distinct" {
				continue
			}
			if x, err := smbBuild(mk[k.S], k); err == nil {
				if b, e, p := smbMarshal(x); e == nil && p == "" {
					baseLib[k.S] = b
				}
			} else {
				return err
			}
		}
	}
	for _, k := range cases {
		if k.Pat == "uncovered" {
			continue
		}
		c.Case(k.key())
		site := "commands." + k.S
		if mode == "decl" {
			if err := smbC04Case(c, mk[k.S], k, site, baseLib[k.S]); err != nil {
				return err
			}
		} else {
			if err := smbC05Case(c, mk[k.S], k, site); err != nil {
				return err
			}
		}
	}
	if mode == "decl" {
		smbDirInfoLists(c)
	}
	for _, s := range structs {
		if !seen[s.Name] {
			uncovered = append(uncovered, s.Name)
		}
	}
	c.Set("structures", len(seen))
	c.Set("structures_uncovered", uncovered)
	c.Set("fields", nfields)
	c.Set("atoms", natoms)
	if len(cases) > 0 {
		c.Sample(cases[len(cases)/2].sample())
	}
	return nil
}

func smbFail(c *h.Ctx, drift bool, site, aspect, detail string, sample interface{}) {
	if drift {
		c.Drift(site, aspect, detail, sample)
	} else {
		c.Fail(site, aspect, detail, sample)
	}
}

// smbCompareFields reads every stored path back from y; aspect prefix "roundtrip" (C04) or "refdecode" (C05).
func smbCompareFields(c *h.Ctx, y command_interface.CommandInterface, k *smbCase, site, prefix string, classify bool) {
	for i := range k.Fields {
		f := &k.Fields[i]
		bad, soft, rev := []string{}, []string{}, 0
		for j := range f.Sets {
			s := &f.Sets[j]
			eq, got, reversed := smbLoad(y, s)
			if !eq {
				msg := fmt.Sprintf("%s: stored %s, decoded %s", strings.Join(s.P, "."), s.want(), got)
				if s.Soft {
					soft = append(soft, msg)
					continue
				}
				bad = append(bad, msg)
				if reversed {
					rev++
				}
			}
		}
		if len(soft) > 0 {
			c.Drift(site, prefix+":"+f.Name, strings.Join(soft, "; "), k.sample())
		}
		if len(bad) == 0 {
			continue
		}
		aspect := prefix + ":" + f.Name
		if classify && rev == len(bad) {
			aspect = "decode-byteorder:" + f.Name
		}
		smbFail(c, f.Unsure, site, aspect, strings.Join(bad, "; "), k.sample())
	}
}

func smbC04Case(c *h.Ctx, mk func() command_interface.CommandInterface, k *smbCase, site string, base []byte) error {
	x, err := smbBuild(mk, k)
	if err != nil {
		return err
	}
	b1, merr, p := smbMarshal(x)
	c.Exec(1)
	c.Retain(site, b1, k.sample())
	if p != "" {
		c.Fail(site, "marshal-error@"+k.patClass(), "panic: "+p, k.sample())
		return nil
	}
	if merr != nil {
		c.Fail(site, "marshal-error@"+k.patClass(), merr.Error(), k.sample())
		return nil
	}
	if !k.WF {
		if k.Pat == "distinct" {
			c.Fail(site, "param-block-odd", fmt.Sprintf("the declared parameter fields add up to an odd number of bytes (%d words and a half)", k.WC), k.sample())
		}
	} else if k.LenDef && len(b1) != len(k.Wire) && !(len(k.Alt) > 0 && len(b1) == len(k.Alt[0].Wire)) {
		c.Fail(site, "length", fmt.Sprintf("encoding is %d bytes; the declared fields are %d bytes wide in total (with WordCount and ByteCount)", len(b1), len(k.Wire)), k.sample())
	}
	// slot locality
	if k.Pat == "chg" && base != nil && k.WF {
		var fr *smbFieldRec
		for i := range k.Fields {
			if k.Fields[i].Name == k.Chg {
				fr = &k.Fields[i]
			}
		}
		if fr != nil && fr.PosDef {
			if len(b1) != len(base) {
				c.Fail(site, "slot:"+k.Chg, fmt.Sprintf("changing only %s changes the encoded length %d -> %d", k.Chg, len(base), len(b1)), k.sample())
			} else {
				out, in := []int{}, 0
				for i := range b1 {
					if b1[i] != base[i] {
						if i >= fr.Off && i < fr.Off+fr.Len {
							in++
						} else {
							out = append(out, i)
						}
					}
				}
				if len(out) > 0 {
					c.Fail(site, "slot:"+k.Chg, fmt.Sprintf("changing only %s (slot bytes %d..%d) changed bytes at %v", k.Chg, fr.Off, fr.Off+fr.Len-1, out), k.sample())
				}
			}
			c.Exec(1)
		}
	}
	y, uerr, p := smbUnmarshal(mk, b1)
	c.Exec(1)
	if p != "" {
		c.Fail(site, "unmarshal-error@"+k.patClass(), "panic: "+p, k.sample())
		return nil
	}
	if uerr != nil {
		c.Fail(site, "unmarshal-error@"+k.patClass(), uerr.Error(), k.sample())
		return nil
	}
	smbCompareFields(c, y, k, site, "roundtrip", false)
	// the same encoding decoded from a buffer that held the previous encoding of this length (a reused receive buffer)
	if len(b1) <= 8192 {
		c.ReusedInput(site, b1, func(in []byte) (r string) {
			w := mk()
			w.Init()
			var e error
			if pp := h.Guard(func() { _, e = w.Unmarshal(in) }); pp != "" || e != nil {
				return fmt.Sprintf("error %v %s", e, pp)
			}
			w.SetParameters(parameters.NewParameters())
			w.SetData(data.NewData())
			out, e2, pp := smbMarshalInMessage(w)
			return fmt.Sprintf("%s %v %s", smbHex(out), e2, pp)
		}, k.sample())
	}
	smbReusedReceiver(c, mk, k, site, b1)
	if k.WF {
		smbStaleLengthRoute(c, mk, k, site, b1)
		smbZeroValueRoute(c, mk, k, site, b1)
	}
	// a structure constructed NOW is the default structure, whatever was encoded or decoded before
	{
		fresh := mk()
		fresh.Init()
		def, derr, dp := smbMarshalInMessage(fresh)
		c.Exec(1)
		sig := fmt.Sprintf("%s %v %s", smbHex(def), derr, dp)
		if was, ok := smbDefaultEnc[site]; !ok {
			smbDefaultEnc[site] = sig
		} else if was != sig {
			c.Fail(site, "default-structure-depends-on-history", fmt.Sprintf("a freshly constructed structure encodes to %.160s now and encoded to %.160s at the start of the run", sig, was), k.sample())
			smbDefaultEnc[site] = sig
		}
	}
	b2, merr2, p := smbMarshalInMessage(y)
	c.Exec(1)
	if p != "" || merr2 != nil {
		c.Fail(site, "reencode", fmt.Sprintf("second Marshal failed: %v %s", merr2, p), k.sample())
	} else if !bytes.Equal(b1, b2) {
		c.Fail(site, "reencode", fmt.Sprintf("Marshal of the decoded structure: %s, first encoding: %s", smbHex(b2), smbHex(b1)), k.sample())
	}
	// the same with the scratch word/byte buffers of the decoded structure emptied: the encoding must be a function of the fields
	z, _, _ := smbUnmarshal(mk, b1)
	z.SetParameters(parameters.NewParameters())
	z.SetData(data.NewData())
	b3, merr3, p := smbMarshalInMessage(z)
	c.Exec(1)
	if p != "" || merr3 != nil {
		c.Fail(site, "reencode:fresh-buffers", fmt.Sprintf("Marshal failed: %v %s", merr3, p), k.sample())
	} else if !bytes.Equal(b1, b3) {
		c.Fail(site, "reencode:fresh-buffers", fmt.Sprintf("Marshal of the decoded fields: %s, first encoding: %s", smbHex(b3), smbHex(b1)), k.sample())
	}
	return nil
}

// smbZeroValueRoute: a structure that did not come from its constructor -- `new(T)` / `&T{}` followed by Init() and the same
// field assignments -- is the same command: its encoding is the constructor-built one (ref), and it decodes that encoding to
// the same fields. (What the constructor adds beyond Init(), e.g. the command code for the header, is not part of the body.)
func smbZeroValueRoute(c *h.Ctx, mk func() command_interface.CommandInterface, k *smbCase, site string, ref []byte) {
	t := reflect.TypeOf(mk()).Elem()
	mk0 := func() command_interface.CommandInterface {
		return reflect.New(t).Interface().(command_interface.CommandInterface)
	}
	x0, err := smbBuild(mk0, k)
	if err != nil {
		return
	}
	b0, e0, p0 := smbMarshal(x0)
	c.Exec(1)
	switch {
	case p0 != "" || e0 != nil:
		c.Drift(site, "zero-value-route:not-encodable", fmt.Sprintf("new(T) + Init() + the same field values: Marshal fails (%v %s)", e0, p0), k.sample())
		return
	case !bytes.Equal(b0, ref):
		c.Fail(site, "zero-value-route:encoding", fmt.Sprintf("new(T) + Init() + the same field values encodes to %s, the constructor-built structure to %s", smbHex(b0), smbHex(ref)), k.sample())
		return
	}
	y0 := mk0()
	y0.Init()
	var ue error
	if pu := h.Guard(func() { _, ue = y0.Unmarshal(append([]byte{}, ref...)) }); pu != "" || ue != nil {
		c.Fail(site, "zero-value-route:decoding", fmt.Sprintf("new(T) + Init() refuses the encoding the constructor-built structure decodes: %v %s", ue, pu), k.sample())
		return
	}
	c.Exec(1)
	smbCompareFields(c, y0, k, site, "zero-value-route:roundtrip", false)
}

// smbStaleLengthRoute: SMB_STRING.Length is a derived component (the encoders take the length from Buffer): a caller that
// assigns Buffer directly leaves Length at 0 or at the length of an earlier value -- the encoding is the same (ref: the
// library's own bytes for consistent lengths), on every call.
func smbStaleLengthRoute(c *h.Ctx, mk func() command_interface.CommandInterface, k *smbCase, site string, ref []byte) {
	for _, stale := range []int{0, 3} {
		x2, err := smbBuild(mk, k)
		if err != nil {
			return
		}
		n := smbStaleLengths(reflect.ValueOf(x2), stale)
		if n == 0 {
			return
		}
		for call := 1; call <= 2; call++ {
			bs, es, ps := smbMarshalInMessage(x2)
			c.Exec(1)
			if ps != "" || es != nil || !bytes.Equal(bs, ref) {
				what := "0"
				if stale != 0 {
					what = "the length of another value"
				}
				c.Fail(site, fmt.Sprintf("stale-string-length:call%d", call), fmt.Sprintf("with Length = %s in %d string(s) whose Buffer was assigned directly, Marshal #%d gives %s %v %s; with consistent lengths: %s", what, n, call, smbHex(bs), es, ps, smbHex(ref)), k.sample())
				break
			}
		}
	}
}

// smbStaleLengths walks a command structure and gives every SMB_STRING with a non-empty Buffer a Length that is not the
// length of its Buffer (0, or len+delta); returns how many strings were changed.
func smbStaleLengths(v reflect.Value, delta int) int {
	n := 0
	switch v.Kind() {
	case reflect.Ptr, reflect.Interface:
		if !v.IsNil() {
			n += smbStaleLengths(v.Elem(), delta)
		}
	case reflect.Struct:
		if v.CanAddr() {
			if s, ok := v.Addr().Interface().(*types.SMB_STRING); ok {
				if len(s.Buffer) > 0 {
					if delta == 0 {
						s.Length = 0
					} else {
						s.Length = types.USHORT(len(s.Buffer) + delta)
					}
					return 1
				}
				return 0
			}
		}
		for i := 0; i < v.NumField(); i++ {
			if v.Type().Field(i).PkgPath == "" {
				n += smbStaleLengths(v.Field(i), delta)
			}
		}
	case reflect.Slice, reflect.Array:
		if v.Type().Elem().Kind() != reflect.Uint8 {
			for i := 0; i < v.Len(); i++ {
				n += smbStaleLengths(v.Index(i), delta)
			}
		}
	}
	return n
}

// smbDirInfoLists: the two structures whose data block is a LIST of SMB_Directory_Information records (FindResponse,
// FindUniqueResponse). The generic case table gives them no record (the record type belongs to C06's specification); here they
// carry 1..3 seeded records (values of C06's generator) with the matching Count and must round-trip record by record.
func smbDirInfoLists(c *h.Ctx) {
	rng := rand.New(rand.NewSource(int64(c.OptInt("seed", 1)) + 4242))
	cd := c06Codecs["dirinfo"]
	for _, st := range []string{"FindResponse", "FindUniqueResponse"} {
		site := "commands." + st
		for n := 1; n <= 3; n++ {
			var recs []types.SMB_DIRECTORY_INFORMATION
			var want []string
			for i := 0; i < n; i++ {
				x := cd.random(rng)
				d := cd.routes(x)[0].obj.(*types.SMB_DIRECTORY_INFORMATION)
				recs = append(recs, *d)
				j, _ := json.Marshal(x)
				want = append(want, string(j))
			}
			smp := map[string]interface{}{"structure": st, "records": n}
			build := func() command_interface.CommandInterface {
				if st == "FindResponse" {
					r := commands.NewFindResponse()
					r.Init()
					r.Count = types.USHORT(n)
					r.DirectoryInformationData = append([]types.SMB_DIRECTORY_INFORMATION(nil), recs...)
					return r
				}
				r := commands.NewFindUniqueResponse()
				r.Init()
				r.Count = types.USHORT(n)
				r.DirectoryInformationData = append([]types.SMB_DIRECTORY_INFORMATION(nil), recs...)
				return r
			}
			c.Case(fmt.Sprintf("%s:records=%d", st, n))
			b1, merr, p := smbMarshalInMessage(build())
			c.Exec(1)
			if p != "" || merr != nil {
				c.Fail(site, "marshal-error@records", fmt.Sprintf("%v %s", merr, p), smp)
				continue
			}
			var y command_interface.CommandInterface
			if st == "FindResponse" {
				r := commands.NewFindResponse()
				r.Init()
				y = r
			} else {
				r := commands.NewFindUniqueResponse()
				r.Init()
				y = r
			}
			var uerr error
			p = h.Guard(func() { _, uerr = y.Unmarshal(append([]byte{}, b1...)) })
			c.Exec(1)
			if p != "" || uerr != nil {
				c.Fail(site, "unmarshal-error@records", fmt.Sprintf("%v %s", uerr, p), smp)
				continue
			}
			var got []types.SMB_DIRECTORY_INFORMATION
			var count int
			switch r := y.(type) {
			case *commands.FindResponse:
				got, count = r.DirectoryInformationData, int(r.Count)
			case *commands.FindUniqueResponse:
				got, count = r.DirectoryInformationData, int(r.Count)
			}
			if count != n {
				c.Fail(site, "roundtrip:Count", fmt.Sprintf("stored %d, decoded %d", n, count), smp)
			}
			if len(got) != n {
				c.Fail(site, "roundtrip:DirectoryInformationData", fmt.Sprintf("%d records stored, %d decoded", n, len(got)), smp)
				continue
			}
			for i := range got {
				j, _ := json.Marshal(cd.proj(&got[i]))
				if string(j) != want[i] {
					c.Fail(site, "roundtrip:DirectoryInformationData", fmt.Sprintf("record %d: stored %.200s, decoded %.200s", i, want[i], j), smp)
					break
				}
			}
			b2, merr2, p2 := smbMarshalInMessage(y)
			if p2 != "" || merr2 != nil || !bytes.Equal(b1, b2) {
				c.Fail(site, "reencode", fmt.Sprintf("with %d records: %s vs first encoding %s (%v %s)", n, smbHex(b2), smbHex(b1), merr2, p2), smp)
			}
		}
	}
}

// smbReusedReceiver decodes the encoding into ONE long-lived structure per command type (only judged where the fresh decode
// was right): first truncated prefixes of the same encoding (short read, then retry), then the full encoding; the fields must
// be those a fresh structure gets. The field values the receiver held after the PREVIOUS case are kept by value (as an
// application would: saved := rx.Field) and re-read afterwards: a later decode must not change them.
type smbReuse struct {
	obj  command_interface.CommandInterface
	kept map[string]reflect.Value // field name -> copy of the field value (slice headers, not contents)
	snap map[string]string        // field name -> its JSON when it was kept
	of   interface{}
}

var smbReused = map[string]*smbReuse{}

var smbDefaultEnc = map[string]string{}

func smbKeepFields(x command_interface.CommandInterface) (map[string]reflect.Value, map[string]string) {
	kept, snap := map[string]reflect.Value{}, map[string]string{}
	v := reflect.ValueOf(x).Elem()
	for i := 0; i < v.NumField(); i++ {
		ft := v.Type().Field(i)
		if ft.Name == "Command" || !ft.IsExported() || ft.Anonymous {
			continue
		}
		cp := reflect.New(ft.Type).Elem()
		cp.Set(v.Field(i))
		j, err := json.Marshal(cp.Interface())
		if err != nil {
			continue
		}
		kept[ft.Name], snap[ft.Name] = cp, string(j)
	}
	return kept, snap
}

func smbReusedReceiver(c *h.Ctx, mk func() command_interface.CommandInterface, k *smbCase, site string, b1 []byte) {
	r := smbReused[site]
	if r == nil {
		r = &smbReuse{obj: mk()}
		r.obj.Init()
		smbReused[site] = r
	}
	for _, cut := range h.Cuts(len(b1)) {
		h.Guard(func() { r.obj.Unmarshal(append([]byte{}, b1[:cut]...)) })
	}
	var err error
	p := h.Guard(func() { _, err = r.obj.Unmarshal(append([]byte{}, b1...)) })
	c.Exec(1)
	if p != "" || err != nil {
		c.Fail(site, "reused-receiver:error", fmt.Sprintf("after truncated attempts, the encoding a fresh structure decodes is refused by a structure that held the previous value: %v %s", err, p), k.sample())
		delete(smbReused, site)
		return
	}
	for name, cp := range r.kept {
		if j, e := json.Marshal(cp.Interface()); e == nil && string(j) != r.snap[name] {
			c.Fail(site, "earlier-decoded-value-changed:"+name, fmt.Sprintf("field %s kept by value after the previous decode read %.120s and reads %.120s after the next decode into the same structure", name, r.snap[name], j),
				map[string]interface{}{"previous": r.of, "current": k.sample()})
			break
		}
	}
	// the property speaks of decoding into a FRESH structure: what a non-fresh receiver keeps (optional fields that are absent
	// from the new encoding, lists that are appended to) is reported as drift only
	for i := range k.Fields {
		f := &k.Fields[i]
		for j := range f.Sets {
			if eq, got, _ := smbLoad(r.obj, &f.Sets[j]); !eq {
				c.Drift(site, "reused-receiver:"+f.Name, fmt.Sprintf("%s: stored %s, decoded %s into a structure that held the previous value", strings.Join(f.Sets[j].P, "."), f.Sets[j].want(), got), k.sample())
				break
			}
		}
	}
	r.kept, r.snap = smbKeepFields(r.obj)
	r.of = k.sample()
}

// ---- c04.record: random programs for TLC to judge (spec/TraceSMB.tla) ----

func smbRecord(c *h.Ctx) error {
	mk, _ := smbFactories()
	shapes, err := smbLoadCases(c)
	if err != nil {
		return err
	}
	rng := rand.New(rand.NewSource(int64(c.OptInt("seed", 1))))
	rounds := c.OptInt("rounds", 3)
	events := 0
	for r := 0; r < rounds; r++ {
		for _, k := range shapes {
			if k.Pat != "distinct" || mk[k.S] == nil {
				continue
			}
			// random numerals for every free integer atom; everything else as in the shape (consistent by construction)
			ev := map[string]interface{}{"op": "codec", "s": k.S}
			vals := map[string]h.Bytes{}
			for i := range k.Fields {
				f := &k.Fields[i]
				if !f.Free || f.Name == "AndX" {
					continue
				}
				if (f.Kind != "free" && f.Kind != "opt") || !f.Fixed || (len(f.Atoms) > 0 && f.Atoms[0].Enc != "le") {
					continue // derived, packed or constant atoms keep the shape's (consistent) values
				}
				for j := range f.Sets {
					s := &f.Sets[j]
					if s.V == nil {
						continue
					}
					nv := make(h.Bytes, len(*s.V))
					switch rng.Intn(8) {
					case 0: // all zero
					case 1:
						for t := range nv {
							nv[t] = 255
						}
					case 2: // sign bit only
						nv[0] = 0x80
					default:
						for t := range nv {
							nv[t] = byte(rng.Intn(256))
						}
					}
					*s.V = nv
					vals[strings.Join(s.P, ".")] = nv
				}
			}
			x, err := smbBuild(mk[k.S], k)
			if err != nil {
				return err
			}
			b1, merr, p := smbMarshal(x)
			c.Exec(1)
			ev["vals"] = vals
			ev["err"] = merr != nil || p != ""
			ev["wire"] = h.Bytes(b1)
			dec := map[string]h.Bytes{}
			decerr := true
			if merr == nil && p == "" {
				y, uerr, p2 := smbUnmarshal(mk[k.S], b1)
				c.Exec(1)
				if uerr == nil && p2 == "" {
					decerr = false
					for i := range k.Fields {
						for j := range k.Fields[i].Sets {
							s := &k.Fields[i].Sets[j]
							if _, ok := vals[strings.Join(s.P, ".")]; !ok {
								continue
							}
							v, err := smbNav(y, s.P, false)
							if err != nil {
								continue
							}
							var u uint64
							switch v.Kind() {
							case reflect.Uint8, reflect.Uint16, reflect.Uint32, reflect.Uint64:
								u = v.Uint()
							case reflect.Int8, reflect.Int16, reflect.Int32, reflect.Int64:
								u = uint64(v.Int())
							}
							dec[strings.Join(s.P, ".")] = u64ToNumeral(u, len(*s.V))
						}
					}
				}
			}
			ev["dec"] = dec
			ev["decerr"] = decerr
			b, _ := json.Marshal(ev)
			c.Emit(b)
			events++
			c.Case(fmt.Sprintf("%s#%d", k.S, r))
		}
	}
	c.Set("events", events)
	return nil
}
