package drivers

// Growth G04: what the three NBNS servers answer (spec/NameServerSem.tla = NBNS packet layer composed with the name table).
// Not one of the listed properties: every mismatch is DRIFT.
//
//   g04.nssem  model -> code: TLC emits the complete request/response graph (from-state, request, response, to-state); for every
//              edge the driver starts from an empty table, sends the requests of a spanning path and then the edge's request as real
//              datagrams (or TCP frames) to a real server on the loopback interface, and compares every response (rcode, R/AA bits,
//              group bit, answer records in order, echoed id) and the table after every request (VerifSnapshot) with the model.
//              opts: kinds=udp,server,tcp

import (
	"encoding/binary"
	"encoding/json"
	"fmt"
	"io"
	"log"
	"net"
	"runtime"
	"sort"
	"strings"
	"sync"
	"time"

	"github.com/TheManticoreProject/Manticore/network/netbios/nbtns"
	"verif/harness/h"
)

func init() { h.Register("g04.nssem", g04NSSem) }

type g04Req struct {
	Op    string            `json:"op"`
	Grp   bool              `json:"grp"`
	Items []json.RawMessage `json:"items"`
}

type g04Resp struct {
	Rcode   string     `json:"rcode"`
	Grp     bool       `json:"grp"`
	Answers [][]string `json:"answers"`
}

type g04Edge struct {
	F    json.RawMessage `json:"f"`
	Req  g04Req          `json:"req"`
	Resp g04Resp         `json:"resp"`
	To   json.RawMessage `json:"to"`
}

type g04Op struct {
	req      g04Req
	resp     g04Resp
	from, to int
}

var g04Rcodes = map[uint16]string{0: "ok", 1: "fmterr", 2: "srvfail", 3: "nameerr", 4: "notimpl", 5: "refused", 6: "active", 7: "conflict"}

func g04Name(tag string) string { return strings.ToUpper(tag) }
func g04Tag(name string) string {
	return strings.ToLower(strings.TrimRight(name, " \x00"))
}

func (r g04Req) String() string {
	var it []string
	for _, x := range r.Items {
		it = append(it, string(x))
	}
	return fmt.Sprintf("%s(grp=%v;%s)", r.Op, r.Grp, strings.Join(it, ","))
}

func g04Packet(id uint16, r g04Req) ([]byte, error) {
	p := &nbtns.NBTNSPacket{Header: nbtns.NBTNSHeader{TransactionID: id}}
	switch r.Op {
	case "query":
		p.Header.Flags = nbtns.OpNameQuery
	case "reg":
		p.Header.Flags = nbtns.OpRegistration
	case "rel":
		p.Header.Flags = nbtns.OpRelease
	case "ref":
		p.Header.Flags = nbtns.OpRefresh
	default:
		p.Header.Flags = nbtns.OpWACK
	}
	if r.Grp {
		p.Header.Flags |= 0x0080
	}
	for _, raw := range r.Items {
		if r.Op == "query" {
			var n string
			if err := json.Unmarshal(raw, &n); err != nil {
				return nil, err
			}
			p.Questions = append(p.Questions, nbtns.NBTNSQuestion{Name: &nbtns.NetBIOSName{Name: g04Name(n)}, Type: 0x20, Class: 1})
		} else {
			var na []string
			if err := json.Unmarshal(raw, &na); err != nil || len(na) != 2 {
				return nil, fmt.Errorf("item %s", raw)
			}
			ip := addrOf(na[1]).To4()
			p.Answers = append(p.Answers, nbtns.NBTNSResourceRecord{Name: &nbtns.NetBIOSName{Name: g04Name(na[0])}, Type: 0x20, Class: 1,
				TTL: 3600, RDLength: uint16(len(ip)), RData: ip})
		}
	}
	p.Header.Questions = uint16(len(p.Questions))
	p.Header.Answers = uint16(len(p.Answers))
	return p.Marshal()
}

type g04Srv struct {
	kind  string
	table *nbtns.NetBIOSNameServer
	addr  net.Addr
	stop  func()
	site  string
}

func g04Start(kind string) (*g04Srv, error) {
	s := &g04Srv{kind: kind, table: nbtns.NewNetBIOSNameServer(false)}
	switch kind {
	case "udp":
		u, err := nbtns.NewUDPServer("127.0.0.1:0", s.table)
		if err != nil {
			return nil, err
		}
		if err := u.Start(); err != nil {
			return nil, err
		}
		s.stop, s.addr, s.site = u.Stop, u.VerifAddr(), "nbtns.UDPServer"
	case "server":
		u, err := nbtns.NewServer("127.0.0.1:0", false)
		if err != nil {
			return nil, err
		}
		s.table = u.VerifTable()
		if err := u.Start(); err != nil {
			return nil, err
		}
		s.stop, s.addr, s.site = u.Stop, u.VerifAddr(), "nbtns.Server"
	case "tcp":
		u, err := nbtns.NewTCPServer("127.0.0.1:0", s.table)
		if err != nil {
			return nil, err
		}
		if err := u.Start(); err != nil {
			return nil, err
		}
		s.stop, s.addr, s.site = u.Stop, u.VerifAddr(), "nbtns.TCPServer"
	default:
		return nil, fmt.Errorf("unknown server kind %q", kind)
	}
	return s, nil
}

// reset empties the table through its own API; false if that did not work (the caller then starts a new server)
func (s *g04Srv) reset() bool {
	for name, r := range s.table.VerifSnapshot() {
		for _, ip := range r.Owners {
			s.table.ReleaseName(name, ip)
		}
	}
	return len(s.table.VerifSnapshot()) == 0
}

func (s *g04Srv) exchange(cn net.Conn, pkt []byte) ([]byte, error) {
	if s.kind == "tcp" {
		pkt = append([]byte{byte(len(pkt) >> 8), byte(len(pkt))}, pkt...)
	}
	if _, err := cn.Write(pkt); err != nil {
		return nil, err
	}
	cn.SetReadDeadline(time.Now().Add(3 * time.Second))
	if s.kind == "tcp" {
		lb := make([]byte, 2)
		if _, err := io.ReadFull(cn, lb); err != nil {
			return nil, err
		}
		b := make([]byte, binary.BigEndian.Uint16(lb))
		_, err := io.ReadFull(cn, b)
		return b, err
	}
	buf := make([]byte, 4096)
	n, err := cn.Read(buf)
	return buf[:n], err
}

func g04Project(snap map[string]nbtns.VerifRecord, names []string) map[string]ntRec {
	m := map[string]nbtns.VerifRecord{}
	for k, v := range snap {
		m[g04Tag(k)] = v
	}
	return ntProject(m, names)
}

func g04NSSem(c *h.Ctx) error {
	log.SetOutput(io.Discard)
	kinds := strings.Split(c.Opt("kinds", "udp,server,tcp"), ",")
	ids := map[string]int{}
	var states []map[string]ntRec
	stateID := func(raw json.RawMessage) (int, error) {
		var m map[string]ntRec
		if err := json.Unmarshal(raw, &m); err != nil {
			return 0, err
		}
		kb, _ := json.Marshal(m) // canonical key: TLC's ToJson does not promise a field order
		k := string(kb)
		if id, ok := ids[k]; ok {
			return id, nil
		}
		for n, r := range m {
			if r.Ow == nil {
				r.Ow = []string{}
				m[n] = r
			}
		}
		ids[k] = len(states)
		states = append(states, m)
		return len(states) - 1, nil
	}
	var edges []g04Op
	err := c.Lines(func(raw []byte) error {
		var e g04Edge
		if err := json.Unmarshal(raw, &e); err != nil {
			return err
		}
		f, err := stateID(e.F)
		if err != nil {
			return err
		}
		t, err := stateID(e.To)
		if err != nil {
			return err
		}
		edges = append(edges, g04Op{req: e.Req, resp: e.Resp, from: f, to: t})
		return nil
	})
	if err != nil {
		return err
	}
	if len(edges) == 0 {
		return fmt.Errorf("no edges")
	}
	var names []string
	for n := range states[0] {
		names = append(names, n)
	}
	sort.Strings(names)
	init := -1
	for i, s := range states {
		all := true
		for _, r := range s {
			if r.P {
				all = false
			}
		}
		if all {
			init = i
			break
		}
	}
	if init < 0 {
		return fmt.Errorf("no initial state")
	}
	out := make([][]int, len(states))
	for i, e := range edges {
		out[e.from] = append(out[e.from], i)
	}
	parent := make([]int, len(states))
	for i := range parent {
		parent[i] = -2
	}
	parent[init] = -1
	queue := []int{init}
	for len(queue) > 0 {
		s := queue[0]
		queue = queue[1:]
		for _, ei := range out[s] {
			if t := edges[ei].to; parent[t] == -2 {
				parent[t] = ei
				queue = append(queue, t)
			}
		}
	}
	pathTo := func(s int) []int {
		var p []int
		for s != init {
			ei := parent[s]
			if ei < 0 {
				return nil
			}
			p = append(p, ei)
			s = edges[ei].from
		}
		for i, j := 0, len(p)-1; i < j; i, j = i+1, j-1 {
			p[i], p[j] = p[j], p[i]
		}
		return p
	}
	for _, e := range edges {
		if e.from != init && parent[e.from] == -2 {
			return fmt.Errorf("edge starts in a state unreachable in the emitted graph")
		}
	}
	maxDepth := 0
	var infra sync.Once
	var infraErr error
	for _, kind := range kinds {
		var wg sync.WaitGroup
		ch := make(chan []int, 256)
		workers := runtime.NumCPU()
		if workers > 8 {
			workers = 8
		}
		for w := 0; w < workers; w++ {
			wg.Add(1)
			go func(w int) {
				defer wg.Done()
				var srv *g04Srv
				defer func() {
					if srv != nil {
						srv.stop()
					}
				}()
				id := uint16(w * 4000)
				for path := range ch {
					if srv != nil && !srv.reset() {
						srv.stop()
						srv = nil
					}
					if srv == nil {
						s, err := g04Start(kind)
						if err != nil {
							infra.Do(func() { infraErr = err })
							continue
						}
						srv = s
					}
					network := "udp"
					if kind == "tcp" {
						network = "tcp"
					}
					cn, err := net.Dial(network, srv.addr.String())
					if err != nil {
						infra.Do(func() { infraErr = err })
						continue
					}
					for k, pi := range path {
						pe := edges[pi]
						desc := func() map[string]interface{} {
							var hist []string
							for _, qi := range path[:k+1] {
								hist = append(hist, edges[qi].req.String())
							}
							return map[string]interface{}{"server": kind, "requests": hist}
						}
						id++
						pkt, err := g04Packet(id, pe.req)
						if err != nil {
							infra.Do(func() { infraErr = err })
							break
						}
						rb, err := srv.exchange(cn, pkt)
						c.Exec(1)
						if err != nil {
							c.Drift(srv.site, "no-response:"+pe.req.Op, err.Error(), desc())
							break
						}
						var rp nbtns.NBTNSPacket
						if _, err := rp.Unmarshal(rb); err != nil {
							c.Drift(srv.site, "response-unparseable:"+pe.req.Op, err.Error(), desc())
							break
						}
						if rp.Header.TransactionID != id {
							c.Drift(srv.site, "response-id:"+pe.req.Op, fmt.Sprintf("sent %d, got %d", id, rp.Header.TransactionID), desc())
						}
						if rp.Header.Flags&0x8000 == 0 || rp.Header.Flags&0x0400 == 0 {
							c.Drift(srv.site, "response-bits:"+pe.req.Op, fmt.Sprintf("flags %04x: R and AA expected", rp.Header.Flags), desc())
						}
						if got := g04Rcodes[rp.Header.Flags&0x000F]; got != pe.resp.Rcode {
							c.Drift(srv.site, "rcode:"+pe.req.Op, fmt.Sprintf("spec %s, code %s", pe.resp.Rcode, got), desc())
						}
						if got := rp.Header.Flags&0x0080 != 0; got != pe.resp.Grp {
							c.Drift(srv.site, "group-bit:"+pe.req.Op, fmt.Sprintf("spec %v, code %v", pe.resp.Grp, got), desc())
						}
						var got [][]string
						for _, rr := range rp.Answers {
							n := "?"
							if rr.Name != nil {
								n = g04Tag(rr.Name.Name)
							}
							got = append(got, []string{n, tagOf(net.IP(rr.RData))})
						}
						if fmt.Sprint(got) != fmt.Sprint(pe.resp.Answers) && !(len(got) == 0 && len(pe.resp.Answers) == 0) {
							c.Drift(srv.site, "answers:"+pe.req.Op, fmt.Sprintf("spec %v, code %v", pe.resp.Answers, got), desc())
						}
						if int(rp.Header.Answers) != len(rp.Answers) || len(rp.Questions) != 0 {
							c.Drift(srv.site, "counts:"+pe.req.Op, fmt.Sprintf("ANCOUNT %d with %d records, %d questions", rp.Header.Answers, len(rp.Answers), len(rp.Questions)), desc())
						}
						for _, rr := range rp.Answers {
							if rr.TTL != 86400 || rr.Type != 0x20 || rr.Class != 1 {
								c.Drift(srv.site, "answer-fields:"+pe.req.Op, fmt.Sprintf("type %#x class %d ttl %d", rr.Type, rr.Class, rr.TTL), desc())
								break
							}
						}
						proj := g04Project(srv.table.VerifSnapshot(), names)
						if !ntEqual(proj, states[pe.to]) {
							c.Drift(srv.site, "table:"+pe.req.Op, fmt.Sprintf("spec %+v, code %+v", states[pe.to], proj), desc())
							break
						}
					}
					cn.Close()
				}
			}(w)
		}
		for ei, e := range edges {
			p := append(pathTo(e.from), ei)
			if len(p) > maxDepth {
				maxDepth = len(p)
			}
			if kind == kinds[0] {
				key := ""
				if e.from != e.to || e.req.Op == "query" {
					key = fmt.Sprint(ei)
				}
				c.Case(key)
			}
			ch <- p
		}
		close(ch)
		wg.Wait()
	}
	if infraErr != nil {
		return infraErr
	}
	g04Probes(c)
	c.Set("graph_states", len(states))
	c.Set("graph_edges", len(edges))
	c.Set("server_kinds", kinds)
	c.Set("max_history_len", maxDepth)
	e0 := edges[len(edges)/2]
	c.Sample(map[string]interface{}{"from": states[e0.from], "request": e0.req.String(), "response": e0.resp, "to": states[e0.to]})
	return nil
}

// g04Probes: the named deviations from RFC 1002 that the model's alphabet leaves out, each probed once.
func g04Probes(c *h.Ctx) {
	srv, err := g04Start("udp")
	if err != nil {
		return
	}
	defer srv.stop()
	cn, err := net.Dial("udp", srv.addr.String())
	if err != nil {
		return
	}
	defer cn.Close()
	name := &nbtns.NetBIOSName{Name: "RFCNAME"}
	// RFC 1002 4.2.2: a registration carries the name as question and NB_FLAGS + NB_ADDRESS in the ADDITIONAL section
	reg := &nbtns.NBTNSPacket{
		Header:     nbtns.NBTNSHeader{TransactionID: 7, Flags: nbtns.OpRegistration | 0x0100, Questions: 1, Additional: 1},
		Questions:  []nbtns.NBTNSQuestion{{Name: name, Type: 0x20, Class: 1}},
		Additional: []nbtns.NBTNSResourceRecord{{Name: name, Type: 0x20, Class: 1, TTL: 3600, RDLength: 6, RData: []byte{0x80, 0x00, 10, 1, 2, 3}}},
	}
	b, err := reg.Marshal()
	if err != nil {
		return
	}
	if _, err := srv.exchange(cn, b); err != nil {
		return
	}
	c.Exec(1)
	snap := srv.table.VerifSnapshot()
	var rec *nbtns.VerifRecord
	for k, v := range snap {
		if g04Tag(k) == "rfcname" {
			v := v
			rec = &v
		}
	}
	sample := map[string]interface{}{"request": "RFC 1002 4.2.2 NAME REGISTRATION REQUEST (question + additional record, NB_FLAGS=0x8000 group, NB_ADDRESS 10.1.2.3)"}
	switch {
	case rec == nil:
		c.Drift("nbtns.UDPServer", "rfc1002-registration-section", "a registration in RFC 1002 layout (record in the ADDITIONAL section) registers nothing: the library reads the ANSWER section", sample)
	case len(rec.Owners) != 1 || !rec.Owners[0].Equal(net.IP{10, 1, 2, 3}):
		c.Drift("nbtns.UDPServer", "rfc1002-rdata", fmt.Sprintf("owner recorded as %v: RDATA is taken wholesale as the address (RFC: NB_FLAGS(2) + NB_ADDRESS(4))", rec.Owners), sample)
	case rec.Type != nbtns.Group:
		c.Drift("nbtns.UDPServer", "rfc1002-group-flag", "NB_FLAGS.G ignored: the group indication is read from header bit 0x0080", sample)
	}
}
