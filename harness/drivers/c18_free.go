package drivers

// C18, free-running (ungated) executions recorded for TLC (spec/RequestReply.tla):
//
//   c18.free mode=nbns-udp|nbns-server|nbns-tcp|llmnr-server   N concurrent clients hammer one real server; every
//            client-side send/receive is logged under one mutex-ordered sequence (a send is logged before the
//            datagram leaves, a reply after it arrived); then Stop/Close must return promptly and leave no goroutine.
//   c18.free mode=llmnr-client   concurrent Client.Query calls against a harness responder on the LLMNR multicast
//            group that answers with correct, unknown, crossed and duplicated ids.

import (
	"context"
	"encoding/binary"
	"encoding/json"
	"errors"
	"fmt"
	"io"
	"math/rand"
	"net"
	"os"
	"path/filepath"
	"runtime"
	"strings"
	"sync"
	"syscall"
	"time"

	"github.com/TheManticoreProject/Manticore/network/llmnr"
	"github.com/TheManticoreProject/Manticore/network/netbios/nbtns"
	"verif/harness/h"
)

func init() { h.Register("c18.free", c18Free) }

type evLog struct {
	mu   sync.Mutex
	c    *h.Ctx
	n    int
	hold bool
	held [][]byte
}

func (l *evLog) log(m map[string]interface{}) {
	l.mu.Lock()
	b, _ := json.Marshal(m)
	if l.hold {
		l.held = append(l.held, b)
	} else {
		l.c.Emit(b)
		l.n++
	}
	l.mu.Unlock()
}

// release ends buffering; the buffered events are written unless discard is set.
func (l *evLog) release(discard bool) {
	l.mu.Lock()
	if !discard {
		for _, b := range l.held {
			l.c.Emit(b)
			l.n++
		}
	}
	l.held, l.hold = nil, false
	l.mu.Unlock()
}

func pkgCensus(pkg string) (int, string) {
	buf := make([]byte, 1<<20)
	n := runtime.Stack(buf, true)
	cnt, first := 0, ""
	for _, g := range strings.Split(string(buf[:n]), "\n\n") {
		if strings.Contains(g, pkg) && !strings.Contains(g, "drivers.c18Free") && !strings.Contains(g, "drivers.free") {
			cnt++
			if first == "" {
				first = g
			}
		}
	}
	return cnt, first
}

func stopPromptly(c *h.Ctx, site, pkg string, stop func(), lg *evLog) {
	done := make(chan struct{})
	t0 := time.Now()
	go func() { stop(); close(done) }()
	select {
	case <-done:
		lg.log(map[string]interface{}{"op": "stopped"})
	case <-time.After(3 * time.Second):
		c.Fail(site, "stop-hang", "Stop/Close did not return within 3 s under load", nil)
		return
	}
	_ = t0
	deadline := time.Now().Add(2 * time.Second)
	for time.Now().Before(deadline) {
		if n, _ := pkgCensus(pkg); n == 0 {
			return
		}
		time.Sleep(10 * time.Millisecond)
	}
	if n, st := pkgCensus(pkg); n > 0 {
		if len(st) > 400 {
			st = st[:400]
		}
		c.Fail(site, "goroutine-leak", fmt.Sprintf("%d goroutines of %s alive 2 s after Stop/Close returned; first: %s", n, pkg, st), nil)
	}
}

func c18Free(c *h.Ctx) error {
	mode := c.Opt("mode", "nbns-udp")
	clients := c.OptInt("clients", 6)
	per := c.OptInt("requests", 30)
	seed := int64(c.OptInt("seed", 1))
	rounds := c.OptInt("rounds", 2)
	lg := &evLog{c: c}
	for round := 0; round < rounds; round++ {
		lg.log(map[string]interface{}{"op": "reset"})
		var err error
		switch mode {
		case "nbns-udp", "nbns-server", "nbns-tcp":
			err = freeNBNS(c, lg, mode, clients, per, seed+int64(round))
			if mode == "nbns-tcp" && round == 0 {
				tcpStopStorm(c, c.OptInt("stormrounds", 40), seed)
			}
		case "llmnr-server":
			err = freeLLMNRServer(c, lg, clients, per, seed+int64(round))
		case "llmnr-client":
			err = freeLLMNRClient(c, lg, clients, seed+int64(round))
		default:
			return fmt.Errorf("unknown mode %s", mode)
		}
		if err != nil {
			return err
		}
		c.Case(fmt.Sprintf("%s:%d", mode, round))
	}
	c.Exec(lg.n)
	c.Set("events", lg.n)
	return nil
}

func freeNBNS(c *h.Ctx, lg *evLog, mode string, clients, per int, seed int64) error {
	table := nbtns.NewNetBIOSNameServer(false)
	var stop func()
	var addr net.Addr
	site := ""
	switch mode {
	case "nbns-udp":
		s, err := nbtns.NewUDPServer("127.0.0.1:0", table)
		if err != nil {
			return err
		}
		if err := s.Start(); err != nil {
			return err
		}
		stop, addr, site = s.Stop, s.VerifAddr(), "nbtns.UDPServer"
	case "nbns-server":
		s, err := nbtns.NewServer("127.0.0.1:0", false)
		if err != nil {
			return err
		}
		table = s.VerifTable()
		if err := s.Start(); err != nil {
			return err
		}
		stop, addr, site = s.Stop, s.VerifAddr(), "nbtns.Server"
	case "nbns-tcp":
		s, err := nbtns.NewTCPServer("127.0.0.1:0", table)
		if err != nil {
			return err
		}
		if err := s.Start(); err != nil {
			return err
		}
		stop, addr, site = s.Stop, s.VerifAddr(), "nbtns.TCPServer"
	}
	nNames := 40
	for i := 1; i <= nNames; i++ {
		table.RegisterName(fmt.Sprintf("HOST%02d", i), nbtns.Unique, net.IP{10, 0, 0, byte(i)}, time.Hour)
	}
	var wg sync.WaitGroup
	for cl := 1; cl <= clients; cl++ {
		wg.Add(1)
		go func(cl int) {
			defer wg.Done()
			rng := rand.New(rand.NewSource(seed*1000 + int64(cl)))
			var cn net.Conn
			var err error
			if mode == "nbns-tcp" {
				cn, err = net.Dial("tcp", addr.String())
			} else {
				cn, err = net.Dial("udp", addr.String())
			}
			if err != nil {
				c.Fail("harness", "infra", err.Error(), nil)
				return
			}
			defer cn.Close()
			outstanding := 0
			recvOne := func() bool {
				cn.SetReadDeadline(time.Now().Add(2 * time.Second))
				var b []byte
				if mode == "nbns-tcp" {
					lb := make([]byte, 2)
					if _, err := io.ReadFull(cn, lb); err != nil {
						return false
					}
					b = make([]byte, binary.BigEndian.Uint16(lb))
					if _, err := io.ReadFull(cn, b); err != nil {
						return false
					}
				} else {
					buf := make([]byte, 2048)
					n, err := cn.Read(buf)
					if err != nil {
						return false
					}
					b = buf[:n]
				}
				var p nbtns.NBTNSPacket
				key := -1
				if _, err := p.Unmarshal(b); err == nil && len(p.Answers) == 1 && len(p.Answers[0].RData) == 4 {
					key = int(p.Answers[0].RData[3])
				} else if len(b) >= 4 {
					key = -int(binary.BigEndian.Uint16(b[2:4])&0xF) - 100 // an rcode instead of an answer
				}
				id := 0
				if len(b) >= 2 {
					id = int(binary.BigEndian.Uint16(b[:2]))
				}
				lg.log(map[string]interface{}{"op": "reply", "c": cl, "id": id, "key": key})
				return true
			}
			for k := 0; k < per; k++ {
				name := 1 + rng.Intn(nNames)
				id := cl*1000 + k
				pkt := &nbtns.NBTNSPacket{
					Header:    nbtns.NBTNSHeader{TransactionID: uint16(id), Flags: 0, Questions: 1},
					Questions: []nbtns.NBTNSQuestion{{Name: &nbtns.NetBIOSName{Name: fmt.Sprintf("HOST%02d", name)}, Type: 0x20, Class: 1}},
				}
				b, err := pkt.Marshal()
				if err != nil {
					c.Fail("harness", "infra", err.Error(), nil)
					return
				}
				lg.log(map[string]interface{}{"op": "send", "c": cl, "id": id, "key": name})
				if mode == "nbns-tcp" {
					b = append([]byte{byte(len(b) >> 8), byte(len(b))}, b...)
				}
				cn.Write(b)
				outstanding++
				// keep a few requests in flight so that handlers overlap; over TCP the requests are PIPELINED on the one
				// connection in bursts of 1..16 (every reply must still be one well-formed frame for one request)
				depth := 3
				if mode == "nbns-tcp" {
					depth = 1 + (k*7+cl)%16
				}
				if outstanding >= depth {
					if recvOne() {
						outstanding--
					} else {
						outstanding = 0 // lost (UDP): no claim
					}
				}
			}
			for outstanding > 0 && recvOne() {
				outstanding--
			}
		}(cl)
	}
	wg.Wait()
	stopPromptly(c, site+".Stop", "netbios/nbtns.", stop, lg)
	return nil
}

func freeLLMNRServer(c *h.Ctx, lg *evLog, clients, per int, seed int64) error {
	handler := llmnr.HandlerFunc(func(s *llmnr.Server, ra net.Addr, w llmnr.ResponseWriter, m *llmnr.Message) bool {
		resp := llmnr.CreateResponseFromMessage(m)
		for _, q := range m.Questions {
			var k int
			fmt.Sscanf(q.Name, "host%d", &k)
			resp.AddAnswerClassINTypeA(q.Name, fmt.Sprintf("10.0.0.%d", k))
		}
		if rand.Intn(4) == 0 {
			runtime.Gosched()
		}
		w.WriteMessage(resp)
		return false
	})
	srv, err := llmnr.NewServer("udp4", []llmnr.Handler{handler})
	if err != nil {
		return err
	}
	conn, err := net.ListenUDP("udp4", &net.UDPAddr{IP: net.IPv4(127, 0, 0, 1)})
	if err != nil {
		return err
	}
	srv.Conn = conn
	srv.Address = conn.LocalAddr().(*net.UDPAddr)
	// every other round runs the server in its (public, non-default) debug mode; in both modes the clients also send
	// datagrams that are no queries -- too short to hold a header, responses, noise -- between their queries
	debug := seed%2 == 0
	srv.SetDebug(debug)
	served := make(chan error, 1)
	go func() { served <- srv.Serve() }()
	var wg sync.WaitGroup
	for cl := 1; cl <= clients; cl++ {
		wg.Add(1)
		go func(cl int) {
			defer wg.Done()
			rng := rand.New(rand.NewSource(seed*1000 + int64(cl)))
			cn, err := net.DialUDP("udp4", nil, conn.LocalAddr().(*net.UDPAddr))
			if err != nil {
				return
			}
			defer cn.Close()
			outstanding := 0
			recvOne := func() bool {
				cn.SetReadDeadline(time.Now().Add(2 * time.Second))
				buf := make([]byte, 2048)
				n, err := cn.Read(buf)
				if err != nil {
					return false
				}
				m, err := llmnr.DecodeMessage(buf[:n])
				key := -1
				id := 0
				if n >= 2 {
					id = int(binary.BigEndian.Uint16(buf[:2]))
				}
				if err == nil && len(m.Answers) == 1 && len(m.Answers[0].RData) == 4 {
					key = int(m.Answers[0].RData[3])
				}
				lg.log(map[string]interface{}{"op": "reply", "c": cl, "id": id, "key": key})
				return true
			}
			for k := 0; k < per; k++ {
				name := 1 + rng.Intn(200)
				q := llmnr.NewMessage()
				q.SetQuery()
				q.ID = uint16(cl*1000 + k)
				q.AddQuestion(fmt.Sprintf("host%d", name), 1, llmnr.ClassIN)
				b, err := q.Encode()
				if err != nil {
					c.Fail("harness", "infra", err.Error(), nil)
					return
				}
				switch rng.Intn(6) {
				case 0:
					cn.Write([]byte{0xde, 0xad, 0xbe}[:rng.Intn(4)])
				case 1:
					junk := append([]byte{}, b...)
					junk[2] |= 0x80 // the same message flagged as a response
					cn.Write(junk)
				case 2:
					// a header announcing one question, followed by a label that ends before its announced 63 octets
					junk := make([]byte, 13+rng.Intn(40))
					rng.Read(junk)
					copy(junk, []byte{0xFF, 0xFF, 0, 0, 0, 1, 0, 0, 0, 0, 0, 0, 63}) // an id no query of this run uses
					cn.Write(junk)
				}
				lg.log(map[string]interface{}{"op": "send", "c": cl, "id": int(q.ID), "key": name})
				cn.Write(b)
				outstanding++
				if outstanding >= 3 {
					if recvOne() {
						outstanding--
					} else {
						outstanding = 0
					}
				}
			}
			for outstanding > 0 && recvOne() {
				outstanding--
			}
		}(cl)
	}
	wg.Wait()
	// the server is still serving: a query sent now (three tries, in case a datagram is dropped) is answered
	if pc, err := net.DialUDP("udp4", nil, conn.LocalAddr().(*net.UDPAddr)); err == nil {
		q := llmnr.NewMessage()
		q.SetQuery()
		q.ID = 0xFFF0
		q.AddQuestion("host7", 1, llmnr.ClassIN)
		b, _ := q.Encode()
		answered := false
		buf := make([]byte, 2048)
		for try := 0; try < 3 && !answered; try++ {
			pc.Write(b)
			pc.SetReadDeadline(time.Now().Add(time.Second))
			for {
				n, err := pc.Read(buf)
				if err != nil {
					break
				}
				if n >= 2 && binary.BigEndian.Uint16(buf[:2]) == 0xFFF0 {
					answered = true
					break
				}
			}
		}
		pc.Close()
		if !answered {
			c.Fail("llmnr.Server.Serve", "stopped-answering", fmt.Sprintf("after %d clients had sent their queries and some datagrams that are no queries, a further query was sent three times and never answered (debug mode %v)", clients, debug), nil)
		}
	}
	llmnrLifecycles(c)
	stopPromptly(c, "llmnr.Server.Close", "network/llmnr.", func() {
		srv.Close()
		select {
		case <-served:
		case <-time.After(3 * time.Second):
			c.Fail("llmnr.Server.Serve", "stop-hang", "Serve did not return within 3 s of Close", nil)
		}
	}, lg)
	return nil
}

// tcpStopStorm: Stop "at any moment" includes the moment a connection has just been accepted and its handler has not run yet.
// Rounds of: a fresh server, dialers opening idle connections as fast as they can, Stop at a random instant. Stop returns
// promptly every time (an idle connection that escapes it would hold it for the 30 s read timeout).
func tcpStopStorm(c *h.Ctx, rounds int, seed int64) {
	rng := rand.New(rand.NewSource(seed*31 + 7))
	for r := 0; r < rounds; r++ {
		s, err := nbtns.NewTCPServer("127.0.0.1:0", nbtns.NewNetBIOSNameServer(false))
		if err != nil {
			return
		}
		if err := s.Start(); err != nil {
			return
		}
		addr := s.VerifAddr().String()
		stopDial := make(chan struct{})
		var mu sync.Mutex
		var conns []net.Conn
		var wg sync.WaitGroup
		for d := 0; d < 6; d++ {
			wg.Add(1)
			go func() {
				defer wg.Done()
				for {
					select {
					case <-stopDial:
						return
					default:
					}
					cn, err := net.DialTimeout("tcp", addr, 200*time.Millisecond)
					if err != nil {
						return
					}
					mu.Lock()
					conns = append(conns, cn)
					mu.Unlock()
				}
			}()
		}
		time.Sleep(time.Duration(200+rng.Intn(1800)) * time.Microsecond)
		done := make(chan struct{})
		t0 := time.Now()
		go func() { s.Stop(); close(done) }()
		hung := false
		select {
		case <-done:
		case <-time.After(3 * time.Second):
			hung = true
		}
		close(stopDial)
		wg.Wait()
		mu.Lock()
		n := len(conns)
		for _, cn := range conns {
			cn.Close()
		}
		mu.Unlock()
		c.Exec(1)
		if hung {
			c.Fail("nbtns.TCPServer.Stop", "stop-hang:connections-being-accepted", fmt.Sprintf("round %d: Stop had not returned 3 s after it was called while %d idle connections were being opened (elapsed %v)", r, n, time.Since(t0)), map[string]interface{}{"round": r, "connections": n})
			<-done // the read timeout will release it; the idle connections were closed above
			return
		}
	}
}

// llmnrLifecycles: Close is legal at any moment of a server's life -- before the socket exists, before Serve runs, twice. Whatever
// the order, once Close has been called (again) after Serve started, Serve returns promptly.
func llmnrLifecycles(c *h.Ctx) {
	for _, order := range []string{"close,serve,close", "serve,close,close", "close,close,serve,close"} {
		srv, err := llmnr.NewServer("udp4", []llmnr.Handler{})
		if err != nil {
			return
		}
		conn, err := net.ListenUDP("udp4", &net.UDPAddr{IP: net.IPv4(127, 0, 0, 1)})
		if err != nil {
			return
		}
		served := make(chan error, 1)
		started := false
		for _, step := range strings.Split(order, ",") {
			switch step {
			case "close":
				done := make(chan struct{})
				go func() { srv.Close(); close(done) }()
				select {
				case <-done:
				case <-time.After(3 * time.Second):
					c.Fail("llmnr.Server.Close", "stop-hang", "Close did not return within 3 s (call order "+order+")", nil)
				}
			case "serve":
				srv.Conn = conn
				srv.Address = conn.LocalAddr().(*net.UDPAddr)
				started = true
				go func() { served <- srv.Serve() }()
				time.Sleep(20 * time.Millisecond)
			}
		}
		c.Exec(len(order))
		if started {
			select {
			case <-served:
			case <-time.After(3 * time.Second):
				c.Fail("llmnr.Server.Serve", "stop-hang", "Serve had not returned 3 s after the last Close (call order "+order+")", map[string]interface{}{"order": order})
			}
		}
		conn.Close()
	}
}

// llmnrMulticastLock: the LLMNR client sends to the well-known multicast group and port (constants of the library), so two
// instances of this driver running at the same time on one machine would answer each other's queries. The section is
// serialised across processes with an advisory lock on a file in the temporary directory (created on demand).
func llmnrMulticastLock() (release func(), ok bool) {
	f, err := os.OpenFile(filepath.Join(os.TempDir(), "verif-llmnr-multicast.lock"), os.O_CREATE|os.O_RDWR, 0o666)
	if err != nil {
		return func() {}, true // no lock file can be had: run unserialised, as before
	}
	got := make(chan error, 1)
	go func() { got <- syscall.Flock(int(f.Fd()), syscall.LOCK_EX) }()
	select {
	case err := <-got:
		if err != nil {
			f.Close()
			return func() {}, true
		}
		return func() { syscall.Flock(int(f.Fd()), syscall.LOCK_UN); f.Close() }, true
	case <-time.After(5 * time.Minute):
		return func() { f.Close() }, false
	}
}

func freeLLMNRClient(c *h.Ctx, lg *evLog, queries int, seed int64) error {
	release, okLock := llmnrMulticastLock()
	defer release()
	if !okLock {
		c.Set("llmnr_client_skipped", "another instance held the LLMNR multicast section for more than 5 minutes")
		return nil
	}
	group := &net.UDPAddr{IP: net.ParseIP(llmnr.IPv4MulticastAddr), Port: llmnr.LLMNRPort}
	rc, err := net.ListenMulticastUDP("udp4", nil, group)
	if err != nil {
		c.Set("llmnr_client_skipped", "cannot join the LLMNR multicast group: "+err.Error())
		return nil
	}
	defer rc.Close()
	cli, err := llmnr.NewClient()
	if err != nil {
		return err
	}
	rng := rand.New(rand.NewSource(seed))
	var rmu sync.Mutex
	lg.hold = true
	collision := false
	stopResp := make(chan struct{})
	tag := 0
	seen := map[int]int{} // query -> id
	go func() {
		buf := make([]byte, 2048)
		for {
			rc.SetReadDeadline(time.Now().Add(200 * time.Millisecond))
			n, from, err := rc.ReadFromUDP(buf)
			select {
			case <-stopResp:
				return
			default:
			}
			if err != nil {
				continue
			}
			m, err := llmnr.DecodeMessage(buf[:n])
			if err != nil || !m.IsQuery() || len(m.Questions) != 1 {
				continue
			}
			var q int
			if _, err := fmt.Sscanf(m.Questions[0].Name, "query%d", &q); err != nil {
				continue
			}
			rmu.Lock()
			for oq, oid := range seen {
				if oq != q && oid == int(m.ID) {
					collision = true // two in-flight queries drew the same random id: this round gives no verdict
				}
			}
			seen[q] = int(m.ID)
			lg.log(map[string]interface{}{"op": "qsend", "q": q, "id": int(m.ID)})
			send := func(id int) {
				tag++
				r := llmnr.NewMessage()
				r.ID = uint16(id)
				r.SetResponse()
				r.AddQuestion(m.Questions[0].Name, 1, llmnr.ClassIN)
				r.AddAnswerClassINTypeA(m.Questions[0].Name, fmt.Sprintf("10.%d.%d.%d", (tag>>16)&255, (tag>>8)&255, tag&255))
				b, err := r.Encode()
				if err != nil {
					return
				}
				lg.log(map[string]interface{}{"op": "resp", "id": id, "tag": tag})
				rc.WriteToUDP(b, from)
			}
			switch rng.Intn(5) {
			case 0: // an unknown id first, then the right one
				send((int(m.ID) + 7777) & 0xFFFF)
				send(int(m.ID))
			case 1: // the right one twice
				send(int(m.ID))
				send(int(m.ID))
			case 2: // another in-flight query's id first
				for oq, oid := range seen {
					if oq != q {
						send(oid)
						break
					}
				}
				send(int(m.ID))
			case 3: // no answer at all: the query must time out
			default:
				send(int(m.ID))
			}
			rmu.Unlock()
		}
	}()
	var wg sync.WaitGroup
	type kept struct {
		q, tag int
		m      *llmnr.Message
	}
	var kmu sync.Mutex
	var keep []kept
	tagOfMsg := func(m *llmnr.Message) int {
		if len(m.Answers) == 1 && len(m.Answers[0].RData) == 4 {
			return int(m.Answers[0].RData[1])<<16 | int(m.Answers[0].RData[2])<<8 | int(m.Answers[0].RData[3])
		}
		return -1
	}
	for q := 1; q <= queries; q++ {
		wg.Add(1)
		go func(q int) {
			defer wg.Done()
			m, err := cli.Query(context.Background(), fmt.Sprintf("query%d", q), 1)
			if err != nil {
				// the only way a query for a valid name ends without a response is its timeout: an error of another kind means
				// the query never left (or was abandoned although it was sent)
				if !strings.Contains(err.Error(), "timeout") && !errors.Is(err, context.DeadlineExceeded) {
					c.Fail("llmnr.Client.Query", "error-on-valid-query", fmt.Sprintf("Query(%q, A) on an open client: %v", fmt.Sprintf("query%d", q), err), map[string]interface{}{"queries_in_flight": queries})
				}
				lg.log(map[string]interface{}{"op": "qtimeout", "q": q})
				return
			}
			t := tagOfMsg(m)
			kmu.Lock()
			keep = append(keep, kept{q: q, tag: t, m: m})
			kmu.Unlock()
			lg.log(map[string]interface{}{"op": "qret", "q": q, "id": int(m.ID), "tag": t})
		}(q)
		if q%3 == 0 {
			time.Sleep(time.Millisecond)
		}
	}
	wg.Wait()
	rmu.Lock()
	if len(seen) == 0 && queries > 0 {
		c.Fail("llmnr.Client.Query", "no-query-left-the-client", fmt.Sprintf("%d queries were made and the responder on the query address saw none of them", queries), nil)
	}
	rmu.Unlock()
	// a response handed to a Query belongs to that query: it must still carry the same answer after the client has received
	// the datagrams of the other queries (the receive loop reuses one buffer)
	time.Sleep(20 * time.Millisecond)
	kmu.Lock()
	for _, k := range keep {
		if now := tagOfMsg(k.m); now != k.tag {
			c.Fail("llmnr.Client.Query", "answer-changed-after-return", fmt.Sprintf("query %d returned the response tagged %d; after later datagrams arrived the same message reads %d", k.q, k.tag, now),
				map[string]interface{}{"queries_in_flight": queries})
			break
		}
	}
	kmu.Unlock()
	// Close while a Query is still in flight (no answer will come): the Query must return within its own timeout
	// (2 s) plus a margin, Close must return at once, and nothing of the package may keep running afterwards.
	cli2, err := llmnr.NewClient()
	if err == nil {
		qdone := make(chan struct{})
		go func() {
			cli2.Query(context.Background(), "nobody-answers-this", 1)
			close(qdone)
		}()
		time.Sleep(20 * time.Millisecond)
		cdone := make(chan struct{})
		go func() { cli2.Close(); close(cdone) }()
		select {
		case <-cdone:
		case <-time.After(3 * time.Second):
			c.Fail("llmnr.Client.Close", "stop-hang", "Close did not return within 3 s while a Query was in flight", nil)
		}
		select {
		case <-qdone:
		case <-time.After(4 * time.Second):
			c.Fail("llmnr.Client.Query", "query-outlives-close", "a Query in flight when Close was called had not returned 4 s later (its own timeout is 2 s)", nil)
		}
	}
	close(stopResp)
	rmu.Lock()
	if collision {
		c.Set("llmnr_client_rounds_discarded_for_id_collision", 1)
	}
	lg.release(collision)
	rmu.Unlock()
	stopPromptly(c, "llmnr.Client.Close", "network/llmnr.", func() { cli.Close() }, lg)
	return nil
}

// ---------------------------------------------------------------------------
// c18.tcpops: the opcode graph (one request per opcode, sequential) replayed over the TCP server, whose
// message handler has its own routing switch. Expectations come from the model's "parse" edges.

func init() { h.Register("c18.tcpops", c18TCPOps) }

func c18TCPOps(c *h.Ctx) error {
	type edge struct {
		Act string `json:"act"`
		R   int    `json:"r"`
		Exp nsExp  `json:"exp"`
	}
	var ops []int
	json.Unmarshal([]byte(c.Opt("ops", "[]")), &ops)
	route := map[int]string{}
	if err := c.Lines(func(raw []byte) error {
		var e edge
		if err := json.Unmarshal(raw, &e); err != nil {
			return err
		}
		if e.Act == "parse" {
			route[e.R] = e.Exp.Route
		}
		return nil
	}); err != nil {
		return err
	}
	table := nbtns.NewNetBIOSNameServer(false)
	for i := range ops {
		table.RegisterName(fmt.Sprintf("HOST%02d", i+1), nbtns.Unique, net.IP{10, 0, 0, byte(i + 1)}, time.Hour)
	}
	var mu sync.Mutex
	var tops []string
	nbtns.VerifTableHook = func(n *nbtns.NetBIOSNameServer, op string, name string) {
		mu.Lock()
		tops = append(tops, op)
		mu.Unlock()
	}
	defer func() { nbtns.VerifTableHook = nil }()
	s, err := nbtns.NewTCPServer("127.0.0.1:0", table)
	if err != nil {
		return err
	}
	if err := s.Start(); err != nil {
		return err
	}
	lg := &evLog{c: c, hold: true}
	cn, err := net.Dial("tcp", s.VerifAddr().String())
	if err != nil {
		return err
	}
	for i, op := range ops {
		r := i + 1
		want, ok := route[r]
		if !ok {
			return fmt.Errorf("no parse edge for request %d", r)
		}
		pkt, err := nbnsRequest(r, op)
		if err != nil {
			return err
		}
		mu.Lock()
		tops = nil
		mu.Unlock()
		cn.SetDeadline(time.Now().Add(3 * time.Second))
		cn.Write(append([]byte{byte(len(pkt) >> 8), byte(len(pkt))}, pkt...))
		lb := make([]byte, 2)
		if _, err := io.ReadFull(cn, lb); err != nil {
			c.Fail("nbtns.TCPServer.handleMessage", "no-response", fmt.Sprintf("opcode %d: %v", op, err), nil)
			break
		}
		b := make([]byte, binary.BigEndian.Uint16(lb))
		io.ReadFull(cn, b)
		mu.Lock()
		got := strings.Join(tops, ",")
		mu.Unlock()
		wantOps := want
		if want == "notimpl" {
			wantOps = ""
		}
		report := c.Fail
		if op == 9 {
			report = c.Drift
		}
		rcode := -1
		if len(b) >= 4 {
			rcode = int(binary.BigEndian.Uint16(b[2:4]) & 0xF)
		}
		if got != wantOps || (want == "notimpl") != (rcode == int(nbtns.RcodeNotImpl)) {
			report("nbtns.TCPServer.handleMessage", fmt.Sprintf("route:opcode=%d", op), fmt.Sprintf("opcode %d: RFC 1002 handler %q; name-table calls made: [%s], rcode %d", op, want, got, rcode), nil)
		}
		if len(b) < 2 || int(binary.BigEndian.Uint16(b[:2])) != 0x1100+r {
			c.Fail("nbtns.TCPServer.handleMessage", "reply-txid", fmt.Sprintf("request %d answered with id %x", r, b[:min(2, len(b))]), nil)
		}
		c.Case(fmt.Sprintf("tcp-opcode-%d", op))
		c.Exec(1)
	}
	// Frame sizes: the 16-bit length prefix covers 1..65535; a name query with q questions is 12+38q octets, so
	// q = 861 / 862 straddle 2^15 and q = 1724 is the largest frame below 2^16. Each request on the one connection
	// must be answered, under its own transaction id, and the small request after the large ones shows that the
	// stream is still framed (seed C18-12: the length read as a signed 16-bit number).
	for i, q := range []int{1, 861, 862, 1724, 1} {
		id := uint16(0x2200 + i)
		p := &nbtns.NBTNSPacket{Header: nbtns.NBTNSHeader{TransactionID: id, Flags: 0, Questions: uint16(q)}}
		for k := 0; k < q; k++ {
			p.Questions = append(p.Questions, nbtns.NBTNSQuestion{Name: &nbtns.NetBIOSName{Name: "NOSUCHHOST"}, Type: 0x20, Class: 1})
		}
		pkt, err := p.Marshal()
		if err != nil || len(pkt) > 0xFFFF {
			return fmt.Errorf("frame-size request with %d questions: %d octets, %v", q, len(pkt), err)
		}
		cn.SetDeadline(time.Now().Add(3 * time.Second))
		cn.Write(append([]byte{byte(len(pkt) >> 8), byte(len(pkt))}, pkt...))
		lb := make([]byte, 2)
		c.Case(fmt.Sprintf("tcp-frame-%d", len(pkt)))
		c.Exec(1)
		if _, err := io.ReadFull(cn, lb); err != nil {
			c.Fail("nbtns.TCPServer.handleConnection", "frame-size:no-response", fmt.Sprintf("request of %d octets (%d questions), the %d-th on its connection: %v", len(pkt), q, len(ops)+i+1, err), nil)
			break
		}
		b := make([]byte, binary.BigEndian.Uint16(lb))
		if _, err := io.ReadFull(cn, b); err != nil || len(b) < 2 || binary.BigEndian.Uint16(b[:2]) != id {
			c.Fail("nbtns.TCPServer.handleConnection", "frame-size:reply-txid", fmt.Sprintf("request of %d octets with id %04x answered with %x (%v)", len(pkt), id, b[:min(2, len(b))], err), nil)
			break
		}
	}
	cn.Close()
	lg.release(true)
	stopPromptly(c, "nbtns.TCPServer.Stop", "netbios/nbtns.", s.Stop, lg)
	return nil
}
