package drivers

// C03: the SMB1 message envelope bound to spec/SMBHeader.tla, SMBBlocks.tla, SMBDispatch.tla, MarshalHistory.tla.
//
//   c03.cases   model -> code: header layout cases (bytes exact, decode, PID, reply flag, SetPID), the complete
//               256 x 2 dispatch table (header decode -> IsResponse -> Create*Command, and Message.Unmarshal),
//               block framing matrix (Message.Unmarshal of header || Frame(words, bytes); Parameters/Data encode).
//   c03.hist    model -> code: every transition of MarshalHistory's history tree (M, S1, S2, U; length <= 4) is run
//               on a real message for five representative structures, the histories M;M and M;S1;M on EVERY structure
//               the library constructs; expected bytes are composed from reference encodings of fresh messages.
//   c03.record  code -> model: random programs (random header values, random structure, random call order); every
//               call is logged with its real result for TLC (TraceSMBMessage.tla) to judge.

import (
	"bytes"
	"encoding/json"
	"fmt"
	"math/rand"
	"reflect"
	"sort"
	"strings"

	"github.com/TheManticoreProject/Manticore/network/smb/smb_v10/message"
	"github.com/TheManticoreProject/Manticore/network/smb/smb_v10/message/commands"
	"github.com/TheManticoreProject/Manticore/network/smb/smb_v10/message/commands/codes"
	"github.com/TheManticoreProject/Manticore/network/smb/smb_v10/message/commands/command_interface"
	"github.com/TheManticoreProject/Manticore/network/smb/smb_v10/message/data"
	"github.com/TheManticoreProject/Manticore/network/smb/smb_v10/message/header"
	"github.com/TheManticoreProject/Manticore/network/smb/smb_v10/message/header/flags"
	"github.com/TheManticoreProject/Manticore/network/smb/smb_v10/message/header/flags2"
	"github.com/TheManticoreProject/Manticore/network/smb/smb_v10/message/parameters"
	"github.com/TheManticoreProject/Manticore/network/smb/smb_v10/message/securityfeatures"
	"github.com/TheManticoreProject/Manticore/network/smb/smb_v10/types"
	"verif/harness/h"
)

func init() {
	h.Register("c03.cases", c03Cases)
	h.Register("c03.hist", c03Hist)
	h.Register("c03.record", c03Record)
}

// every structure the commands package can construct (the library's own constructors)
var c03Ctors = map[string]func() command_interface.CommandInterface{
	"CheckDirectoryRequest": func() command_interface.CommandInterface { return commands.NewCheckDirectoryRequest() },
	"CheckDirectoryResponse": func() command_interface.CommandInterface { return commands.NewCheckDirectoryResponse() },
	"ClosePrintFileRequest": func() command_interface.CommandInterface { return commands.NewClosePrintFileRequest() },
	"ClosePrintFileResponse": func() command_interface.CommandInterface { return commands.NewClosePrintFileResponse() },
	"CloseRequest": func() command_interface.CommandInterface { return commands.NewCloseRequest() },
	"CloseResponse": func() command_interface.CommandInterface { return commands.NewCloseResponse() },
	"CreateDirectoryRequest": func() command_interface.CommandInterface { return commands.NewCreateDirectoryRequest() },
	"CreateDirectoryResponse": func() command_interface.CommandInterface { return commands.NewCreateDirectoryResponse() },
	"CreateNewRequest": func() command_interface.CommandInterface { return commands.NewCreateNewRequest() },
	"CreateNewResponse": func() command_interface.CommandInterface { return commands.NewCreateNewResponse() },
	"CreateRequest": func() command_interface.CommandInterface { return commands.NewCreateRequest() },
	"CreateResponse": func() command_interface.CommandInterface { return commands.NewCreateResponse() },
	"CreateTemporaryRequest": func() command_interface.CommandInterface { return commands.NewCreateTemporaryRequest() },
	"CreateTemporaryResponse": func() command_interface.CommandInterface { return commands.NewCreateTemporaryResponse() },
	"DeleteDirectoryRequest": func() command_interface.CommandInterface { return commands.NewDeleteDirectoryRequest() },
	"DeleteDirectoryResponse": func() command_interface.CommandInterface { return commands.NewDeleteDirectoryResponse() },
	"DeleteRequest": func() command_interface.CommandInterface { return commands.NewDeleteRequest() },
	"DeleteResponse": func() command_interface.CommandInterface { return commands.NewDeleteResponse() },
	"EchoRequest": func() command_interface.CommandInterface { return commands.NewEchoRequest() },
	"EchoResponse": func() command_interface.CommandInterface { return commands.NewEchoResponse() },
	"FindClose2Request": func() command_interface.CommandInterface { return commands.NewFindClose2Request() },
	"FindClose2Response": func() command_interface.CommandInterface { return commands.NewFindClose2Response() },
	"FindCloseRequest": func() command_interface.CommandInterface { return commands.NewFindCloseRequest() },
	"FindCloseResponse": func() command_interface.CommandInterface { return commands.NewFindCloseResponse() },
	"FindRequest": func() command_interface.CommandInterface { return commands.NewFindRequest() },
	"FindResponse": func() command_interface.CommandInterface { return commands.NewFindResponse() },
	"FindUniqueRequest": func() command_interface.CommandInterface { return commands.NewFindUniqueRequest() },
	"FindUniqueResponse": func() command_interface.CommandInterface { return commands.NewFindUniqueResponse() },
	"FlushRequest": func() command_interface.CommandInterface { return commands.NewFlushRequest() },
	"FlushResponse": func() command_interface.CommandInterface { return commands.NewFlushResponse() },
	"IoctlRequest": func() command_interface.CommandInterface { return commands.NewIoctlRequest() },
	"IoctlResponse": func() command_interface.CommandInterface { return commands.NewIoctlResponse() },
	"LockAndReadRequest": func() command_interface.CommandInterface { return commands.NewLockAndReadRequest() },
	"LockAndReadResponse": func() command_interface.CommandInterface { return commands.NewLockAndReadResponse() },
	"LockByteRangeRequest": func() command_interface.CommandInterface { return commands.NewLockByteRangeRequest() },
	"LockByteRangeResponse": func() command_interface.CommandInterface { return commands.NewLockByteRangeResponse() },
	"LockingAndxRequest": func() command_interface.CommandInterface { return commands.NewLockingAndxRequest() },
	"LockingAndxResponse": func() command_interface.CommandInterface { return commands.NewLockingAndxResponse() },
	"LogoffAndxRequest": func() command_interface.CommandInterface { return commands.NewLogoffAndxRequest() },
	"LogoffAndxResponse": func() command_interface.CommandInterface { return commands.NewLogoffAndxResponse() },
	"NegotiateRequest": func() command_interface.CommandInterface { return commands.NewNegotiateRequest() },
	"NegotiateResponse": func() command_interface.CommandInterface { return commands.NewNegotiateResponse() },
	"NtCancelRequest": func() command_interface.CommandInterface { return commands.NewNtCancelRequest() },
	"NtCreateAndxRequest": func() command_interface.CommandInterface { return commands.NewNtCreateAndxRequest() },
	"NtCreateAndxResponse": func() command_interface.CommandInterface { return commands.NewNtCreateAndxResponse() },
	"NtRenameRequest": func() command_interface.CommandInterface { return commands.NewNtRenameRequest() },
	"NtRenameResponse": func() command_interface.CommandInterface { return commands.NewNtRenameResponse() },
	"NtTransactRequest": func() command_interface.CommandInterface { return commands.NewNtTransactRequest() },
	"NtTransactResponse": func() command_interface.CommandInterface { return commands.NewNtTransactResponse() },
	"NtTransactSecondaryRequest": func() command_interface.CommandInterface { return commands.NewNtTransactSecondaryRequest() },
	"NtTransactSecondaryResponse": func() command_interface.CommandInterface { return commands.NewNtTransactSecondaryResponse() },
	"OpenAndxRequest": func() command_interface.CommandInterface { return commands.NewOpenAndxRequest() },
	"OpenAndxResponse": func() command_interface.CommandInterface { return commands.NewOpenAndxResponse() },
	"OpenPrintFileRequest": func() command_interface.CommandInterface { return commands.NewOpenPrintFileRequest() },
	"OpenPrintFileResponse": func() command_interface.CommandInterface { return commands.NewOpenPrintFileResponse() },
	"OpenRequest": func() command_interface.CommandInterface { return commands.NewOpenRequest() },
	"OpenResponse": func() command_interface.CommandInterface { return commands.NewOpenResponse() },
	"ProcessExitRequest": func() command_interface.CommandInterface { return commands.NewProcessExitRequest() },
	"ProcessExitResponse": func() command_interface.CommandInterface { return commands.NewProcessExitResponse() },
	"QueryInformation2Request": func() command_interface.CommandInterface { return commands.NewQueryInformation2Request() },
	"QueryInformation2Response": func() command_interface.CommandInterface { return commands.NewQueryInformation2Response() },
	"QueryInformationDiskRequest": func() command_interface.CommandInterface { return commands.NewQueryInformationDiskRequest() },
	"QueryInformationDiskResponse": func() command_interface.CommandInterface { return commands.NewQueryInformationDiskResponse() },
	"QueryInformationRequest": func() command_interface.CommandInterface { return commands.NewQueryInformationRequest() },
	"QueryInformationResponse": func() command_interface.CommandInterface { return commands.NewQueryInformationResponse() },
	"ReadAndxRequest": func() command_interface.CommandInterface { return commands.NewReadAndxRequest() },
	"ReadAndxResponse": func() command_interface.CommandInterface { return commands.NewReadAndxResponse() },
	"ReadMpxRequest": func() command_interface.CommandInterface { return commands.NewReadMpxRequest() },
	"ReadMpxResponse": func() command_interface.CommandInterface { return commands.NewReadMpxResponse() },
	"ReadRawRequest": func() command_interface.CommandInterface { return commands.NewReadRawRequest() },
	"ReadRequest": func() command_interface.CommandInterface { return commands.NewReadRequest() },
	"ReadResponse": func() command_interface.CommandInterface { return commands.NewReadResponse() },
	"RenameRequest": func() command_interface.CommandInterface { return commands.NewRenameRequest() },
	"RenameResponse": func() command_interface.CommandInterface { return commands.NewRenameResponse() },
	"SearchRequest": func() command_interface.CommandInterface { return commands.NewSearchRequest() },
	"SearchResponse": func() command_interface.CommandInterface { return commands.NewSearchResponse() },
	"SeekRequest": func() command_interface.CommandInterface { return commands.NewSeekRequest() },
	"SeekResponse": func() command_interface.CommandInterface { return commands.NewSeekResponse() },
	"SessionSetupAndxRequest": func() command_interface.CommandInterface { return commands.NewSessionSetupAndxRequest() },
	"SessionSetupAndxResponse": func() command_interface.CommandInterface { return commands.NewSessionSetupAndxResponse() },
	"SetInformation2Request": func() command_interface.CommandInterface { return commands.NewSetInformation2Request() },
	"SetInformation2Response": func() command_interface.CommandInterface { return commands.NewSetInformation2Response() },
	"SetInformationRequest": func() command_interface.CommandInterface { return commands.NewSetInformationRequest() },
	"SetInformationResponse": func() command_interface.CommandInterface { return commands.NewSetInformationResponse() },
	"Transaction2Request": func() command_interface.CommandInterface { return commands.NewTransaction2Request() },
	"Transaction2Response": func() command_interface.CommandInterface { return commands.NewTransaction2Response() },
	"Transaction2SecondaryRequest": func() command_interface.CommandInterface { return commands.NewTransaction2SecondaryRequest() },
	"Transaction2SecondaryResponse": func() command_interface.CommandInterface { return commands.NewTransaction2SecondaryResponse() },
	"TransactionRequest": func() command_interface.CommandInterface { return commands.NewTransactionRequest() },
	"TransactionResponse": func() command_interface.CommandInterface { return commands.NewTransactionResponse() },
	"TransactionSecondaryRequest": func() command_interface.CommandInterface { return commands.NewTransactionSecondaryRequest() },
	"TransactionSecondaryResponse": func() command_interface.CommandInterface { return commands.NewTransactionSecondaryResponse() },
	"TreeConnectAndxRequest": func() command_interface.CommandInterface { return commands.NewTreeConnectAndxRequest() },
	"TreeConnectAndxResponse": func() command_interface.CommandInterface { return commands.NewTreeConnectAndxResponse() },
	"TreeConnectRequest": func() command_interface.CommandInterface { return commands.NewTreeConnectRequest() },
	"TreeConnectResponse": func() command_interface.CommandInterface { return commands.NewTreeConnectResponse() },
	"TreeDisconnectRequest": func() command_interface.CommandInterface { return commands.NewTreeDisconnectRequest() },
	"TreeDisconnectResponse": func() command_interface.CommandInterface { return commands.NewTreeDisconnectResponse() },
	"UnlockByteRangeRequest": func() command_interface.CommandInterface { return commands.NewUnlockByteRangeRequest() },
	"UnlockByteRangeResponse": func() command_interface.CommandInterface { return commands.NewUnlockByteRangeResponse() },
	"WriteAndCloseRequest": func() command_interface.CommandInterface { return commands.NewWriteAndCloseRequest() },
	"WriteAndCloseResponse": func() command_interface.CommandInterface { return commands.NewWriteAndCloseResponse() },
	"WriteAndUnlockRequest": func() command_interface.CommandInterface { return commands.NewWriteAndUnlockRequest() },
	"WriteAndUnlockResponse": func() command_interface.CommandInterface { return commands.NewWriteAndUnlockResponse() },
	"WriteAndxRequest": func() command_interface.CommandInterface { return commands.NewWriteAndxRequest() },
	"WriteAndxResponse": func() command_interface.CommandInterface { return commands.NewWriteAndxResponse() },
	"WriteMpxRequest": func() command_interface.CommandInterface { return commands.NewWriteMpxRequest() },
	"WriteMpxResponse": func() command_interface.CommandInterface { return commands.NewWriteMpxResponse() },
	"WritePrintFileRequest": func() command_interface.CommandInterface { return commands.NewWritePrintFileRequest() },
	"WritePrintFileResponse": func() command_interface.CommandInterface { return commands.NewWritePrintFileResponse() },
	"WriteRawFinal": func() command_interface.CommandInterface { return commands.NewWriteRawFinal() },
	"WriteRawInterim": func() command_interface.CommandInterface { return commands.NewWriteRawInterim() },
	"WriteRawRequest": func() command_interface.CommandInterface { return commands.NewWriteRawRequest() },
	"WriteRequest": func() command_interface.CommandInterface { return commands.NewWriteRequest() },
	"WriteResponse": func() command_interface.CommandInterface { return commands.NewWriteResponse() },
}

// the five representative structures for the full history tree: plain, AndX, with a data block, with a string, with arrays
var c03Reps = []string{"CloseRequest", "ReadAndxRequest", "EchoRequest", "CheckDirectoryRequest", "LockingAndxRequest"}

func c03IsResponse(name string) bool {
	return strings.HasSuffix(name, "Response") || strings.HasSuffix(name, "Final") || strings.HasSuffix(name, "Interim")
}

func c03TypeName(c command_interface.CommandInterface) string {
	if c == nil {
		return ""
	}
	t := reflect.TypeOf(c)
	for t.Kind() == reflect.Ptr {
		t = t.Elem()
	}
	return t.Name()
}

// ---------------------------------------------------------------- header vocabulary (field names of SMBHeader.tla)

type xHeader struct {
	Protocol         h.Bytes `json:"protocol"`
	Command          int     `json:"command"`
	Status           w32     `json:"status"`
	Flags            int     `json:"flags"`
	Flags2           int     `json:"flags2"`
	PIDHigh          int     `json:"pidhigh"`
	SecurityFeatures h.Bytes `json:"security"`
	Reserved         int     `json:"reserved"`
	TID              int     `json:"tid"`
	PIDLow           int     `json:"pidlow"`
	UID              int     `json:"uid"`
	MID              int     `json:"mid"`
}

func arr8(b []byte) (a [8]byte) { copy(a[:], b); return }

func c03SetHeader(hd *header.Header, x *xHeader, sec string, connless *xConnless) {
	copy(hd.Protocol[:], x.Protocol)
	hd.Command = codes.CommandCode(x.Command)
	hd.Status = types.ULONG(x.Status)
	hd.Flags = flags.Flags(x.Flags)
	hd.Flags2 = flags2.Flags2(x.Flags2)
	hd.PIDHigh = types.USHORT(x.PIDHigh)
	switch sec {
	case "signature":
		s := securityfeatures.NewSecurityFeaturesSecuritySignature()
		s.SetSecuritySignature(arr8(x.SecurityFeatures))
		hd.SecurityFeatures = s
	case "connless":
		s := securityfeatures.NewSecurityFeaturesConnectionlessTransport()
		s.Key, s.CID, s.SequenceNumber = uint32(connless.Key), uint16(connless.CID), uint16(connless.Seq)
		hd.SecurityFeatures = s
	default:
		s := securityfeatures.NewSecurityFeaturesReserved()
		s.Reserved = arr8(x.SecurityFeatures)
		hd.SecurityFeatures = s
	}
	hd.Reserved = types.USHORT(x.Reserved)
	hd.TID = types.USHORT(x.TID)
	hd.PIDLow = types.USHORT(x.PIDLow)
	hd.UID = types.USHORT(x.UID)
	hd.MID = types.USHORT(x.MID)
}

func c03GetHeader(hd *header.Header) *xHeader {
	x := &xHeader{Protocol: h.Bytes(hd.Protocol[:]), Command: int(hd.Command), Status: w32(hd.Status), Flags: int(hd.Flags),
		Flags2: int(hd.Flags2), PIDHigh: int(hd.PIDHigh), Reserved: int(hd.Reserved), TID: int(hd.TID), PIDLow: int(hd.PIDLow),
		UID: int(hd.UID), MID: int(hd.MID)}
	if hd.SecurityFeatures != nil {
		b, _ := hd.SecurityFeatures.Marshal()
		x.SecurityFeatures = h.Bytes(append([]byte{}, b...))
	}
	return x
}

type xConnless struct {
	Key w32 `json:"key"`
	CID int `json:"cid"`
	Seq int `json:"seq"`
}

type c03Line struct {
	K        string          `json:"k"`
	Law      bool            `json:"law"`
	H        json.RawMessage `json:"h"`
	Enc      h.Bytes         `json:"enc"`
	Connless xConnless       `json:"connless"`
	PID      w32             `json:"pid"`
	Reply    bool            `json:"reply"`
	SetPID   w32             `json:"setpid"`
	After    h.Bytes         `json:"after"`
	Code     int             `json:"code"`
	Type     string          `json:"type"`
	Msg      h.Bytes         `json:"msg"`
	WC       int             `json:"wc"`
	BC       int             `json:"bc"`
	Words    h.Bytes         `json:"words"`
	Bytes    h.Bytes         `json:"bytes"`
	Frame    h.Bytes         `json:"frame"`
}

func c03FirstDiff(a, b []byte) int {
	n := min(len(a), len(b))
	for i := 0; i < n; i++ {
		if a[i] != b[i] {
			return i
		}
	}
	if len(a) != len(b) {
		return n
	}
	return -1
}

// the header field that owns byte offset off (for aspect strings only; the layout itself lives in SMBHeader.tla)
func c03FieldAt(off int) string {
	names := []string{"Protocol", "Command", "Status", "Flags", "Flags2", "PIDHigh", "SecurityFeatures", "Reserved", "TID", "PIDLow", "UID", "MID"}
	ends := []int{4, 5, 9, 10, 12, 14, 22, 24, 26, 28, 30, 32}
	for i, e := range ends {
		if off < e {
			return names[i]
		}
	}
	return "length"
}

func c03Cases(c *h.Ctx) error {
	counts := map[string]int{}
	dispatched := map[string]int{}
	err := c.Lines(func(raw []byte) error {
		var ln c03Line
		if err := json.Unmarshal(raw, &ln); err != nil {
			return err
		}
		if !ln.Law {
			return fmt.Errorf("specification-level failure: law false for case %s", string(raw[:min(len(raw), 200)]))
		}
		counts[ln.K]++
		switch ln.K {
		case "hdr":
			var x xHeader
			if err := json.Unmarshal(ln.H, &x); err != nil {
				return err
			}
			c.Case("hdr:" + h.Hex(ln.Enc))
			if counts["hdr"] == 3 {
				c.Sample(map[string]interface{}{"kind": "header", "fields": ln.H, "spec_bytes_hex": h.Hex(ln.Enc)})
			}
			smp := map[string]interface{}{"header": ln.H, "spec_bytes_hex": h.Hex(ln.Enc)}
			for _, sec := range []string{"reserved", "signature", "connless"} {
				hd := header.NewHeader()
				c03SetHeader(hd, &x, sec, &ln.Connless)
				var b []byte
				var err error
				if p := h.Guard(func() { b, err = hd.Marshal() }); p != "" || err != nil {
					c.Fail("header.Header.Marshal", "marshal-error", fmt.Sprintf("%s %v (security features as %s)", p, err, sec), smp)
					continue
				}
				c.Exec(1)
				if d := c03FirstDiff(b, ln.Enc); d >= 0 {
					site := "header.Header.Marshal"
					if c03FieldAt(d) == "SecurityFeatures" && sec != "reserved" {
						site = "securityfeatures." + map[string]string{"signature": "SecurityFeaturesSecuritySignature", "connless": "SecurityFeaturesConnectionlessTransport"}[sec] + ".Marshal"
					}
					c.Fail(site, "layout:"+c03FieldAt(d), fmt.Sprintf("byte %d: code %s, MS-CIFS 2.2.3.1 %s", d, h.Hex(b), h.Hex(ln.Enc)), smp)
				}
				// the accessor route: a header filled through SetMID/SetTID/SetUID encodes like the one filled field by field,
				// and the getters return what was set
				{
					h2 := header.NewHeader()
					c03SetHeader(h2, &x, sec, &ln.Connless)
					mid, tid, uid := h2.MID, h2.TID, h2.UID
					h2.MID, h2.TID, h2.UID = 0, 0, 0
					h2.SetMID(mid)
					h2.SetTID(tid)
					h2.SetUID(uid)
					b4, _ := h2.Marshal()
					c.Exec(1)
					if !bytes.Equal(b4, b) || h2.GetMID() != mid || h2.GetTID() != tid || h2.GetUID() != uid {
						c.Fail("header.Header.SetMID", "accessors", fmt.Sprintf("header filled through SetMID/SetTID/SetUID encodes to %s (getters %d %d %d), filled directly to %s", h.Hex(b4), h2.GetMID(), h2.GetTID(), h2.GetUID(), h.Hex(b)), smp)
					}
				}
				if got := w32(hd.GetPID()); got != ln.PID {
					c.Fail("header.Header.GetPID", "pid", fmt.Sprintf("GetPID %#x, PIDHigh:PIDLow %#x", uint32(got), uint32(ln.PID)), smp)
				}
				if hd.IsResponse() != ln.Reply || hd.IsRequest() == ln.Reply {
					c.Fail("header.Header.IsResponse", "reply-flag", fmt.Sprintf("flags %#02x: IsResponse %v IsRequest %v", x.Flags, hd.IsResponse(), hd.IsRequest()), smp)
				}
				hd.SetPID(types.ULONG(ln.SetPID))
				b2, _ := hd.Marshal()
				c.Exec(1)
				if d := c03FirstDiff(b2, ln.After); d >= 0 {
					c.Fail("header.Header.SetPID", "layout:"+c03FieldAt(d), fmt.Sprintf("after SetPID(%#x): code %s spec %s", uint32(ln.SetPID), h.Hex(b2), h.Hex(ln.After)), smp)
				}
				// a second SetPID with a process id that fits 16 bits: both halves are written (PIDHigh at offset 12, PIDLow at
				// offset 26, MS-CIFS 2.2.3.1), whatever the header held before
				{
					small := uint32(ln.SetPID) & 0xFFFF
					hd.SetPID(types.ULONG(small))
					b2s, _ := hd.Marshal()
					c.Exec(1)
					want := append([]byte(nil), ln.After...)
					if len(want) == 32 {
						want[12], want[13] = 0, 0
						want[26], want[27] = byte(small), byte(small>>8)
					}
					if !bytes.Equal(b2s, want) || uint32(hd.GetPID()) != small {
						c.Fail("header.Header.SetPID", "layout-after-second-set:"+c03FieldAt(c03FirstDiff(b2s, want)), fmt.Sprintf("SetPID(%#x) after SetPID(%#x): code %s spec %s, GetPID %#x", small, uint32(ln.SetPID), h.Hex(b2s), h.Hex(want), uint32(hd.GetPID())), smp)
					}
					hd.SetPID(types.ULONG(ln.SetPID)) // back to the value the following steps expect
					hd.Marshal()                      // ... and encoded once more, so that the LAST encoding is the one of these fields
				}
				// the security features are changed IN PLACE through the pointer the header holds (the signing flow: encode,
				// compute the MAC, SetSecuritySignature, encode again; a connectionless retransmit: SequenceNumber++): the next
				// encoding carries the new 8 bytes and is otherwise unchanged
				switch sf := hd.SecurityFeatures.(type) {
				case *securityfeatures.SecurityFeaturesSecuritySignature:
					sig := sf.GetSecuritySignature()
					for i := range sig {
						sig[i] = ^sig[i]
					}
					sf.SetSecuritySignature(sig)
				case *securityfeatures.SecurityFeaturesConnectionlessTransport:
					sf.SequenceNumber++
					sf.Key ^= 0x5A5A5A5A
				case *securityfeatures.SecurityFeaturesReserved:
					for i := range sf.Reserved {
						sf.Reserved[i] ^= 0xFF
					}
				}
				if hd.SecurityFeatures != nil && len(b2) == 32 {
					sfb, _ := hd.SecurityFeatures.Marshal()
					b3, _ := hd.Marshal()
					c.Exec(1)
					want := append([]byte(nil), b2...)
					if len(sfb) == 8 {
						copy(want[14:22], sfb)
					}
					if !bytes.Equal(b3, want) {
						c.Fail("header.Header.Marshal", "stale-after-securityfeatures-change", fmt.Sprintf("security features (%s) changed in place after an encoding: code %s, expected %s", sec, h.Hex(b3), h.Hex(want)), smp)
					}
				}
			}
			// decode the specification's bytes
			hd := header.NewHeader()
			var n int
			var err error
			if p := h.Guard(func() { n, err = hd.Unmarshal(append([]byte{}, ln.Enc...)) }); p != "" || err != nil {
				c.Fail("header.Header.Unmarshal", "unmarshal-error", fmt.Sprintf("%s %v", p, err), smp)
				break
			}
			c.Exec(1)
			if n != 32 {
				c.Fail("header.Header.Unmarshal", "consumed", fmt.Sprintf("reported %d bytes", n), smp)
			}
			for _, f := range c06Diff(reflect.ValueOf(&x), reflect.ValueOf(c03GetHeader(hd)), "") {
				c.Fail("header.Header.Unmarshal", "roundtrip:"+f, fmt.Sprintf("decoded %+v", *c03GetHeader(hd)), smp)
			}
		case "disp":
			c.Case(fmt.Sprintf("disp:%02x:%v", ln.Code, ln.Reply))
			smp := map[string]interface{}{"code": fmt.Sprintf("0x%02x", ln.Code), "reply": ln.Reply, "designated": ln.Type, "message_hex": h.Hex(ln.Msg)}
			// (a) the dispatch path of Message.Unmarshal, step by step: header decode -> IsResponse -> factory
			hd := header.NewHeader()
			if _, err := hd.Unmarshal(append([]byte{}, ln.Msg[:32]...)); err != nil {
				c.Fail("header.Header.Unmarshal", "unmarshal-error", err.Error(), smp)
				break
			}
			fsite := "commands.CreateRequestCommand"
			var cmd command_interface.CommandInterface
			var err error
			if hd.IsResponse() != ln.Reply {
				c.Fail("header.Header.IsResponse", "reply-flag", fmt.Sprintf("flags %#02x", int(hd.Flags)), smp)
			}
			if ln.Reply {
				fsite = "commands.CreateResponseCommand"
				cmd, err = commands.CreateResponseCommand(hd.Command)
			} else {
				cmd, err = commands.CreateRequestCommand(hd.Command)
			}
			c.Exec(1)
			got := c03TypeName(cmd)
			asp := fmt.Sprintf("dispatch:0x%02x", ln.Code)
			switch {
			case err == nil && ln.Type != "Unsupported" && got != ln.Type:
				c.Fail(fsite, asp+":wrong-type", fmt.Sprintf("returned %s, MS-CIFS designates %s", got, ln.Type), smp)
			case err == nil && ln.Type == "Unsupported":
				c.Drift(fsite, asp+":undesignated-structure", fmt.Sprintf("returned %s where MS-CIFS defines no message", got), smp)
			case err != nil && ln.Type != "Unsupported":
				if _, has := c03Ctors[ln.Type]; has {
					c.Fail(fsite, asp+":missing", fmt.Sprintf("library has %s but the factory refuses the code: %v", ln.Type, err), smp)
				} else {
					c.Drift(fsite, asp+":not-implemented", fmt.Sprintf("MS-CIFS designates %s; library has no such structure", ln.Type), smp)
				}
			}
			if err == nil {
				dispatched[got]++
				if cmd.GetCommandCode() != codes.CommandCode(ln.Code) {
					c.Fail("commands."+got, "command-code", fmt.Sprintf("structure returned for code %#02x says its code is %#02x", ln.Code, int(cmd.GetCommandCode())), smp)
				}
			}
			// (b) the same through Message.Unmarshal on a minimal message (commands may refuse empty blocks: not judged)
			m := message.NewMessage()
			var uerr error
			if p := h.Guard(func() { uerr = m.Unmarshal(append([]byte{}, ln.Msg...)) }); p == "" && uerr == nil {
				c.Exec(1)
				if t := c03TypeName(m.Command); t != got {
					c.Fail("message.Message.Unmarshal", asp+":dispatch-mismatch", fmt.Sprintf("Message.Unmarshal produced %s, factory %s", t, got), smp)
				}
				var x xHeader
				json.Unmarshal(ln.H, &x)
				for _, f := range c06Diff(reflect.ValueOf(&x), reflect.ValueOf(c03GetHeader(m.Header)), "") {
					c.Fail("message.Message.Unmarshal", "header-roundtrip:"+f, fmt.Sprintf("decoded %+v", *c03GetHeader(m.Header)), smp)
				}
			}
			// (c) histories: the same decode into a Message that is being REUSED -- it already holds the command of the
			// opposite direction for this code (put there by AddCommand, or by an earlier Unmarshal). The type must still be
			// the one the code and the reply flag of THIS packet designate.
			if err == nil {
				opp := append([]byte{}, ln.Msg...)
				opp[9] ^= 0x80 // the reply flag of the SMB header
				var other command_interface.CommandInterface
				var oerr error
				if ln.Reply {
					other, oerr = commands.CreateRequestCommand(hd.Command)
				} else {
					other, oerr = commands.CreateResponseCommand(hd.Command)
				}
				for _, how := range []string{"AddCommand", "Unmarshal"} {
					m2 := message.NewMessage()
					primed := false
					if how == "AddCommand" && oerr == nil && other != nil {
						h.Guard(func() { other.Init(); m2.AddCommand(other); primed = true })
					} else if how == "Unmarshal" {
						h.Guard(func() { primed = m2.Unmarshal(opp) == nil })
					}
					if !primed {
						continue
					}
					var e2 error
					if p := h.Guard(func() { e2 = m2.Unmarshal(append([]byte{}, ln.Msg...)) }); p == "" && e2 == nil {
						c.Exec(1)
						if t := c03TypeName(m2.Command); t != got {
							c.Fail("message.Message.Unmarshal", asp+":reused-message:"+how, fmt.Sprintf("decoding into a Message that already held the opposite-direction command (via %s) produced %s; code %#02x with reply=%v designates %s", how, t, ln.Code, ln.Reply, got), smp)
						}
					}
				}
			}
		case "blk":
			c.Case(fmt.Sprintf("blk:%d:%d", ln.WC, ln.BC))
			smp := map[string]interface{}{"word_count": ln.WC, "byte_count": ln.BC, "message_len": len(ln.Msg)}
			m := message.NewMessage()
			var uerr error
			if p := h.Guard(func() { uerr = m.Unmarshal(append([]byte{}, ln.Msg...)) }); p != "" || uerr != nil {
				c.Fail("message.Message.Unmarshal", "framing:decode-error", fmt.Sprintf("well-framed message refused: %s %v", p, uerr), smp)
			} else {
				c.Exec(1)
				ps, ds := m.Command.GetParameters(), m.Command.GetData()
				if int(ps.WordCount) != ln.WC || !bytes.Equal(ps.GetBytes(), ln.Words) {
					c.Fail("parameters.Parameters.Unmarshal", "framing:words", fmt.Sprintf("WordCount %d, %d word bytes; spec %d", ps.WordCount, len(ps.GetBytes()), ln.WC), smp)
				}
				if int(ds.ByteCount) != ln.BC || !bytes.Equal(ds.GetBytes(), ln.Bytes) {
					c.Fail("data.Data.Unmarshal", "framing:bytes", fmt.Sprintf("ByteCount %d, %d bytes; spec %d", ds.ByteCount, len(ds.GetBytes()), ln.BC), smp)
				}
			}
			// the two blocks decoded into LONG-LIVED receivers, each time after truncated prefixes of the same block (a short
			// read followed by a retry): what a failed call leaves behind must not change the valid call that follows
			if len(ln.Frame) >= 1+2*ln.WC+2 {
				pblk, dblk := ln.Frame[:1+2*ln.WC], ln.Frame[1+2*ln.WC:]
				for _, cut := range h.Cuts(len(pblk)) {
					h.Guard(func() { c03ReusedParams.Unmarshal(append([]byte{}, pblk[:cut]...)) })
				}
				var n int
				var e error
				if pp := h.Guard(func() { n, e = c03ReusedParams.Unmarshal(append([]byte{}, pblk...)) }); pp != "" || e != nil || n != len(pblk) ||
					int(c03ReusedParams.WordCount) != ln.WC || !bytes.Equal(c03ReusedParams.GetBytes(), ln.Words) {
					c.Fail("parameters.Parameters.Unmarshal", "framing:reused-receiver", fmt.Sprintf("after truncated attempts on the same receiver: consumed %d of %d, WordCount %d, %d word bytes (spec %d words) %v %s",
						n, len(pblk), c03ReusedParams.WordCount, len(c03ReusedParams.GetBytes()), ln.WC, e, pp), smp)
					c03ReusedParams = parameters.NewParameters()
				}
				for _, cut := range h.Cuts(len(dblk)) {
					h.Guard(func() { c03ReusedData.Unmarshal(append([]byte{}, dblk[:cut]...)) })
				}
				if pp := h.Guard(func() { n, e = c03ReusedData.Unmarshal(append([]byte{}, dblk...)) }); pp != "" || e != nil || n != len(dblk) ||
					int(c03ReusedData.ByteCount) != ln.BC || !bytes.Equal(c03ReusedData.GetBytes(), ln.Bytes) {
					c.Fail("data.Data.Unmarshal", "framing:reused-receiver", fmt.Sprintf("after truncated attempts on the same receiver: consumed %d of %d, ByteCount %d, %d bytes (spec %d) %v %s",
						n, len(dblk), c03ReusedData.ByteCount, len(c03ReusedData.GetBytes()), ln.BC, e, pp), smp)
					c03ReusedData = data.NewData()
				}
				c.Exec(2)
			}
			p := parameters.NewParameters()
			p.AddWordsFromBytesStream(ln.Words)
			d := data.NewData()
			d.Add(ln.Bytes)
			pb, perr := p.Marshal()
			db, derr := d.Marshal()
			c.Exec(2)
			if perr != nil || derr != nil {
				c.Fail("parameters.Parameters.Marshal", "framing:encode-error", fmt.Sprintf("%v %v", perr, derr), smp)
			} else if got := append(append([]byte{}, pb...), db...); !bytes.Equal(got, ln.Frame) {
				site := "parameters.Parameters.Marshal"
				if c03FirstDiff(got, ln.Frame) >= len(pb) {
					site = "data.Data.Marshal"
				}
				c.Fail(site, "framing:counts", fmt.Sprintf("blocks differ from Frame(words, bytes) at byte %d (lengths %d vs %d)", c03FirstDiff(got, ln.Frame), len(got), len(ln.Frame)), smp)
			}
		default:
			return fmt.Errorf("unknown case kind %q", ln.K)
		}
		return nil
	})
	c.Set("cases_per_kind", counts)
	c.Set("structures_reached_by_dispatch", len(dispatched))
	return err
}

var (
	c03ReusedParams = parameters.NewParameters()
	c03ReusedData   = data.NewData()
)

// ---------------------------------------------------------------- histories

// c03Fixup gives a freshly constructed structure valid buffer formats (0 is not a format): every SMB_STRING
// whose BufferFormat is still zero becomes a format-0x04 string.  Nothing else is touched.
func c03Fixup(v reflect.Value) {
	switch v.Kind() {
	case reflect.Ptr, reflect.Interface:
		if !v.IsNil() {
			c03Fixup(v.Elem())
		}
	case reflect.Struct:
		if s, ok := v.Addr().Interface().(*types.SMB_STRING); ok {
			if s.BufferFormat == 0 {
				s.BufferFormat = types.SMB_STRING_BUFFER_FORMAT_NULL_TERMINATED_ASCII_STRING
			}
			return
		}
		for i := 0; i < v.NumField(); i++ {
			f := v.Field(i)
			if f.CanSet() && v.Type().Field(i).Name != "Command" {
				c03Fixup(f)
			}
		}
	case reflect.Slice:
		for i := 0; i < v.Len(); i++ {
			c03Fixup(v.Index(i))
		}
	}
}

func c03SetStrings(v reflect.Value, content []byte) {
	switch v.Kind() {
	case reflect.Ptr, reflect.Interface:
		if !v.IsNil() {
			c03SetStrings(v.Elem(), content)
		}
	case reflect.Struct:
		if s, ok := v.Addr().Interface().(*types.SMB_STRING); ok {
			s.Buffer = append([]byte(nil), content...)
			return
		}
		for i := 0; i < v.NumField(); i++ {
			f := v.Field(i)
			if f.CanSet() && v.Type().Field(i).Name != "Command" {
				c03SetStrings(f, content)
			}
		}
	case reflect.Slice:
		for i := 0; i < v.Len(); i++ {
			c03SetStrings(v.Index(i), content)
		}
	}
}

// c03Apply puts the message into valuation val (1 or 2): header MID/UID and the first integer field of the command.
func c03Apply(m *message.Message, val int) {
	m.Header.MID = types.USHORT(0x1110 * val)
	m.Header.UID = types.USHORT(0x0101 * val)
	// every string of the command takes a value of its own length per valuation, assigned the way a caller may: through the
	// exported Buffer field, leaving the derived Length component as it was (0 on a fresh structure, the previous length later)
	c03SetStrings(reflect.ValueOf(m.Command), [][]byte{nil, []byte("A1"), []byte("BB222")}[val])
	v := reflect.ValueOf(m.Command).Elem()
	for i := 0; i < v.NumField(); i++ {
		f := v.Field(i)
		if v.Type().Field(i).Name == "Command" || !f.CanSet() {
			continue
		}
		switch f.Kind() {
		case reflect.Uint8, reflect.Uint16, reflect.Uint32:
			f.SetUint(uint64(0x21 * val))
			return
		}
	}
}

func c03Fresh(name string, val int) *message.Message {
	m := message.NewMessage()
	if c03IsResponse(name) {
		m.Header.SetFlags(uint8(flags.FLAGS_REPLY))
	}
	cmd := c03Ctors[name]()
	c03Fixup(reflect.ValueOf(cmd))
	m.AddCommand(cmd)
	if val != 0 {
		c03Apply(m, val)
	}
	return m
}

type c03Ref struct {
	ok     bool
	why    string
	msg    []byte
	words  []byte
	bytes  []byte
	framed bool
}

func c03Split(msg []byte) (words, bts []byte, framed bool) {
	if len(msg) < 35 {
		return nil, nil, false
	}
	wc := int(msg[32])
	if len(msg) < 35+2*wc {
		return nil, nil, false
	}
	bc := int(msg[33+2*wc]) | int(msg[34+2*wc])<<8
	if len(msg) != 35+2*wc+bc {
		return nil, nil, false
	}
	return msg[33 : 33+2*wc], msg[35+2*wc:], true
}

func c03Compose(refs map[int]*c03Ref, seq []int) []byte {
	last := refs[seq[len(seq)-1]]
	var w, b []byte
	for _, v := range seq {
		w = append(w, refs[v].words...)
		b = append(b, refs[v].bytes...)
	}
	out := append([]byte{}, last.msg[:32]...)
	out = append(out, byte(len(w)/2))
	out = append(out, w...)
	out = append(out, byte(len(b)), byte(len(b)>>8))
	return append(out, b...)
}

type c03Edge struct {
	Hist   []string `json:"hist"`
	Op     string   `json:"op"`
	Val    int      `json:"val"`
	Expect []int    `json:"expect"`
	Dev    []int    `json:"dev"`
	Scope  string   `json:"scope"`
}

func c03Hist(c *h.Ctx) error {
	var edges []c03Edge
	if err := c.Lines(func(raw []byte) error {
		var e c03Edge
		if err := json.Unmarshal(raw, &e); err != nil {
			return err
		}
		edges = append(edges, e)
		return nil
	}); err != nil {
		return err
	}
	names := make([]string, 0, len(c03Ctors))
	for n := range c03Ctors {
		names = append(names, n)
	}
	sort.Strings(names)
	isRep := map[string]bool{}
	for _, r := range c03Reps {
		isRep[r] = true
	}
	skipped := []string{}
	judged := 0
	for _, name := range names {
		site := "commands." + name
		// reference encodings Encode(fields): the first Marshal of a fresh message with these field values
		refs := map[int]*c03Ref{}
		usable := true
		for val := 0; val <= 2; val++ {
			r := &c03Ref{}
			m := c03Fresh(name, val)
			var err error
			if p := h.Guard(func() { r.msg, err = m.Marshal() }); p != "" || err != nil {
				r.why = fmt.Sprintf("%s %v", p, err)
			} else {
				r.ok = true
				r.words, r.bytes, r.framed = c03Split(r.msg)
			}
			refs[val] = r
			c.Exec(1)
			if !r.ok {
				usable = false
				continue
			}
			smp := map[string]interface{}{"structure": name, "valuation": val, "message_hex": h.Hex(r.msg)}
			if !r.framed {
				usable = false
				c.Fail(site+".Marshal", "framing", fmt.Sprintf("message of %d bytes is not 32 + 1 + 2*WordCount + 2 + ByteCount (WordCount byte %d)", len(r.msg), r.msg[min(32, len(r.msg)-1)]), smp)
			}
			if val == 0 {
				if int(r.msg[4]) != int(m.Command.GetCommandCode()) {
					c.Fail("message.Message.AddCommand", "command-code", fmt.Sprintf("header carries %#02x, structure %#02x", r.msg[4], int(m.Command.GetCommandCode())), smp)
				}
			}
		}
		if !usable {
			if !refs[0].ok {
				skipped = append(skipped, name)
				c.Drift(site+".Marshal", "default-not-encodable", "freshly constructed structure cannot be marshalled: "+refs[0].why, map[string]interface{}{"structure": name})
			}
			continue
		}
		for _, e := range edges {
			if e.Scope != "all" && !isRep[name] {
				continue
			}
			c.Case(name + ":" + strings.Join(e.Hist, ""))
			m := c03Fresh(name, 0)
			val := 0
			var out []byte
			var oerr error
			broken := false
			smp := map[string]interface{}{"structure": name, "history": e.Hist}
			for i, op := range e.Hist {
				last := i == len(e.Hist)-1
				switch op {
				case "M":
					p := h.Guard(func() { out, oerr = m.Marshal() })
					c.Exec(1)
					c.Retain("message.Message.Marshal", out, smp)
					if p != "" || oerr != nil {
						if last {
							c.Fail(site+".Marshal", "repeat:marshal-error", fmt.Sprintf("history %v: %s %v", e.Hist, p, oerr), smp)
						}
						broken = true
					}
				case "S1":
					val = 1
					c03Apply(m, 1)
				case "S2":
					val = 2
					c03Apply(m, 2)
				case "U":
					var uerr error
					p := h.Guard(func() { uerr = m.Unmarshal(append([]byte{}, refs[val].msg...)) })
					c.Exec(1)
					if p != "" || uerr != nil {
						if last {
							c.Fail(site+".Unmarshal", "own-message-rejected", fmt.Sprintf("history %v: Message.Unmarshal of the message's own encoding: %s %v", e.Hist, p, uerr), smp)
						}
						broken = true
					} else if last {
						if t := c03TypeName(m.Command); t != name {
							fs := "commands.CreateRequestCommand"
							if c03IsResponse(name) {
								fs = "commands.CreateResponseCommand"
							}
							c.Fail(fs, "roundtrip-type:"+name, fmt.Sprintf("a %s message decodes to a %s", name, t), smp)
						}
						hb, _ := m.Header.Marshal()
						if !bytes.Equal(hb, refs[val].msg[:32]) {
							c.Fail("message.Message.Unmarshal", "header-roundtrip", fmt.Sprintf("header %s decoded and re-encoded as %s", h.Hex(refs[val].msg[:32]), h.Hex(hb)), smp)
						}
					}
				}
				if broken {
					break
				}
			}
			if broken || e.Op != "M" {
				continue
			}
			judged++
			want := c03Compose(refs, e.Expect)
			if bytes.Equal(out, want) {
				continue
			}
			smp["second_marshal_hex"], smp["expected_hex"] = h.Hex(out[:min(len(out), 120)]), h.Hex(want[:min(len(want), 120)])
			if bytes.Equal(out, c03Compose(refs, e.Dev)) {
				c.Fail(site+".Marshal", "repeat:blocks-accumulate", fmt.Sprintf("history %v: %d bytes instead of %d: the parameter/data blocks of earlier calls %v are still in the accumulators (AccumulateOnMarshal)", e.Hist, len(out), len(want), e.Dev), smp)
			} else {
				asp := "repeat:differs"
				for _, op := range e.Hist {
					if op == "U" {
						asp = "repeat:differs:after-unmarshal" // the decoded fields are not the encoded ones
					}
				}
				c.Fail(site+".Marshal", asp, fmt.Sprintf("history %v: %d bytes, Encode(fields) has %d; first difference at byte %d", e.Hist, len(out), len(want), c03FirstDiff(out, want)), smp)
			}
		}
	}
	c.Set("structures", len(names))
	// the header is the caller's: a message whose Header.Command was assigned directly (a value other than the attached
	// command's code -- a caller recycling one Message, a test varying header fields) still encodes the same way every time,
	// carries the assigned byte, and keeps the field
	isSkipped := map[string]bool{}
	for _, n := range skipped {
		isSkipped[n] = true
	}
	for _, name := range names {
		if isSkipped[name] {
			continue
		}
		m := c03Fresh(name, 1)
		own := byte(m.Command.GetCommandCode())
		assigned := own ^ 0x5A
		m.Header.Command = codes.CommandCode(assigned)
		var b1, b2, b3 []byte
		var e1, e2, e3 error
		if p := h.Guard(func() { b1, e1 = m.Marshal(); b2, e2 = m.Marshal(); b3, e3 = m.Marshal() }); p != "" || e1 != nil || e2 != nil || e3 != nil || len(b1) < 32 {
			continue
		}
		c.Exec(3)
		c.Case(name + ":header-command-assigned")
		smp := map[string]interface{}{"structure": name, "assigned_header_command": assigned, "attached_command_code": own}
		switch {
		case !bytes.Equal(b1, b2) || !bytes.Equal(b2, b3):
			c.Fail("commands."+name+".Marshal", "repeat:differs:header-command-assigned", fmt.Sprintf("Header.Command assigned %#02x (the attached command's code is %#02x): three encodings of the same message carry command bytes %#02x %#02x %#02x", assigned, own, b1[4], b2[4], b3[4]), smp)
		case b1[4] != assigned:
			c.Drift("message.Message.Marshal", "header-command-overridden", fmt.Sprintf("Header.Command assigned %#02x, encoded %#02x", assigned, b1[4]), smp)
		case byte(m.Header.Command) != assigned:
			c.Fail("message.Message.Marshal", "marshal-rewrites-header-field", fmt.Sprintf("Header.Command was %#02x before Marshal and is %#02x after it", assigned, byte(m.Header.Command)), smp)
		}
	}
	c.Set("structures_default_not_encodable", skipped)
	c.Set("marshal_results_judged", judged)
	c.Sample(map[string]interface{}{"history": []string{"M", "S1", "M"}, "structures": len(names) - len(skipped)})
	return nil
}

// ---------------------------------------------------------------- recorder (code -> model)

func c03SetCmdField(m *message.Message, val int) {
	v := reflect.ValueOf(m.Command).Elem()
	for i := 0; i < v.NumField(); i++ {
		f := v.Field(i)
		if v.Type().Field(i).Name == "Command" || !f.CanSet() {
			continue
		}
		switch f.Kind() {
		case reflect.Uint8, reflect.Uint16, reflect.Uint32:
			f.SetUint(uint64(0x21 * val))
			return
		}
	}
}

func c03RandHeader(r *rand.Rand, code int, reply bool) *xHeader {
	x := &xHeader{Protocol: h.Bytes{0xFF, 'S', 'M', 'B'}, Command: code, Status: rnd32(r), Flags: r.Intn(128), Flags2: rnd16(r), PIDHigh: rnd16(r),
		SecurityFeatures: rndBytes(r, 8, false), Reserved: rnd16(r), TID: rnd16(r), PIDLow: rnd16(r), UID: rnd16(r), MID: rnd16(r)}
	if reply {
		x.Flags |= 0x80
	}
	if r.Intn(8) == 0 {
		x.Protocol = rndBytes(r, 4, false)
	}
	return x
}

// c03Record: random call sequences on one real message per trace.  Events:
//   new {type, reply} | set {g, h, val, ref} | marshal {g, err, out} | unmarshal {g, err, panic, type, h}
// `ref` is the encoding of a FRESH message holding the same field values (the reference Encode(fields)).
func c03Record(c *h.Ctx) error {
	traces := c.OptInt("traces", 60)
	rng := rand.New(rand.NewSource(int64(c.OptInt("seed", 1))))
	var usable []string
	for n := range c03Ctors {
		m := c03Fresh(n, 0)
		var err error
		if p := h.Guard(func() { _, err = m.Marshal() }); p == "" && err == nil {
			usable = append(usable, n)
		}
	}
	sort.Strings(usable)
	emit := func(o map[string]interface{}) {
		b, err := json.Marshal(o)
		if err != nil {
			panic(err)
		}
		c.Emit(b)
	}
	events := 0
	for tr := 0; tr < traces; tr++ {
		name := usable[rng.Intn(len(usable))]
		reply := c03IsResponse(name)
		m := c03Fresh(name, 0)
		code := int(m.Command.GetCommandCode())
		emit(map[string]interface{}{"op": "new", "type": name, "reply": reply})
		g := 0
		var ref []byte
		set := func() {
			x := c03RandHeader(rng, code, reply)
			val := rng.Intn(3)
			sec := []string{"reserved", "signature", "connless"}[rng.Intn(3)]
			cl := &xConnless{Key: w32(uint32(x.SecurityFeatures[0]) | uint32(x.SecurityFeatures[1])<<8 | uint32(x.SecurityFeatures[2])<<16 | uint32(x.SecurityFeatures[3])<<24),
				CID: int(x.SecurityFeatures[4]) | int(x.SecurityFeatures[5])<<8, Seq: int(x.SecurityFeatures[6]) | int(x.SecurityFeatures[7])<<8}
			c03SetHeader(m.Header, x, sec, cl)
			c03SetCmdField(m, val)
			f := c03Fresh(name, 0)
			c03SetHeader(f.Header, x, sec, cl)
			c03SetCmdField(f, val)
			var err error
			ref = nil
			if p := h.Guard(func() { ref, err = f.Marshal() }); p != "" || err != nil {
				ref = nil
			}
			g++
			emit(map[string]interface{}{"op": "set", "g": g, "h": x, "val": val, "ref": h.Bytes(ref), "referr": ref == nil})
			events++
		}
		set()
		steps := 3 + rng.Intn(6)
		for s := 0; s < steps && ref != nil; s++ {
			switch k := rng.Intn(8); {
			case k < 4:
				var out []byte
				var err error
				p := h.Guard(func() { out, err = m.Marshal() })
				emit(map[string]interface{}{"op": "marshal", "g": g, "err": p != "" || err != nil, "out": h.Bytes(out)})
			case k < 6:
				set()
				continue
			default:
				var err error
				p := h.Guard(func() { err = m.Unmarshal(append([]byte{}, ref...)) })
				emit(map[string]interface{}{"op": "unmarshal", "g": g, "err": err != nil, "panic": p != "", "type": c03TypeName(m.Command), "h": c03GetHeader(m.Header)})
				if p != "" || err != nil {
					s = steps // the object is in an unspecified state after a failed decode
				}
			}
			events++
		}
		c.Case(fmt.Sprintf("%s:%d", name, tr))
	}
	c.Exec(events)
	c.Set("events", events)
	c.Set("structures_usable", len(usable))
	return nil
}
