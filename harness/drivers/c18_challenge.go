package drivers

// C18 growth: nbtns.NameChallenger.ChallengeOwnership against every reply script TLC enumerates from
// spec/NameChallenge.tla. The harness plays the challenged owner on 127.0.1.K:137 and answers each attempt with the
// scripted kind of reply; the challenger's verdict must be the one the specification derives.

import (
	"encoding/binary"
	"encoding/json"
	"fmt"
	"net"
	"sync"
	"time"

	"github.com/TheManticoreProject/Manticore/network/netbios/nbtns"
	"verif/harness/h"
)

func init() { h.Register("c18.challenge", c18Challenge) }

func c18Challenge(c *h.Ctx) error {
	type cs struct {
		Script []string `json:"script"`
		Result bool     `json:"result"`
	}
	var cases []cs
	if err := c.Lines(func(raw []byte) error {
		var k cs
		if err := json.Unmarshal(raw, &k); err != nil {
			return err
		}
		cases = append(cases, k)
		return nil
	}); err != nil {
		return err
	}
	maxCases := c.OptInt("max", 0)
	var wg sync.WaitGroup
	sem := make(chan struct{}, 24)
	for i, k := range cases {
		if maxCases > 0 && i >= maxCases {
			break
		}
		c.Case(fmt.Sprint(k.Script))
		wg.Add(1)
		sem <- struct{}{}
		go func(i int, k cs) {
			defer wg.Done()
			defer func() { <-sem }()
			owner := net.IPv4(127, 0, byte(1+i/250), byte(1+i%250))
			conn, err := net.ListenUDP("udp4", &net.UDPAddr{IP: owner, Port: nbtns.DefaultNBTNSUDPPort})
			if err != nil {
				c.Set("challenge_skipped", "cannot bind "+owner.String()+":137: "+err.Error())
				return
			}
			defer conn.Close()
			name := fmt.Sprintf("OWNED%03d", i)
			seenIDs := []int{}
			go func() { // the owner node
				buf := make([]byte, 2048)
				for step := 0; ; step++ {
					conn.SetReadDeadline(time.Now().Add(8 * time.Second))
					n, from, err := conn.ReadFromUDP(buf)
					if err != nil {
						return
					}
					if n < 2 {
						continue
					}
					txid := binary.BigEndian.Uint16(buf[:2])
					seenIDs = append(seenIDs, int(txid))
					if step >= len(k.Script) {
						continue
					}
					mk := func(id uint16, flags uint16, ip net.IP) []byte {
						p := &nbtns.NBTNSPacket{Header: nbtns.NBTNSHeader{TransactionID: id, Flags: nbtns.FlagResponse | nbtns.FlagAuthoritative | flags}}
						if ip != nil {
							p.Header.Answers = 1
							p.Answers = []nbtns.NBTNSResourceRecord{{Name: &nbtns.NetBIOSName{Name: name}, Type: 0x20, Class: 1, TTL: 300, RDLength: 4, RData: ip.To4()}}
						}
						b, _ := p.Marshal()
						return b
					}
					var reply []byte
					switch k.Script[step] {
					case "correct":
						reply = mk(txid, 0, owner)
					case "nameerror":
						reply = mk(txid, nbtns.RcodeNameError, nil)
					case "otherip":
						reply = mk(txid, 0, net.IPv4(10, 9, 9, 9))
					case "wrongid":
						reply = mk(txid+1, 0, owner)
					case "garbage":
						reply = []byte{0xde, 0xad, 0xbe, 0xef, 0x01}
					case "timeout":
						continue
					}
					conn.WriteToUDP(reply, from)
				}
			}()
			ch := nbtns.NewNameChallenger(nbtns.NewNetBIOSNameServer(false), nil)
			var got bool
			var cerr error
			t0 := time.Now()
			pan := h.Guard(func() { got, cerr = ch.ChallengeOwnership(name, owner) })
			c.Exec(1)
			smp := map[string]interface{}{"script": k.Script, "spec_result": k.Result, "code_result": got, "elapsed_ms": time.Since(t0).Milliseconds()}
			if pan != "" {
				c.Fail("nbtns.NameChallenger.ChallengeOwnership", "panic", pan, smp)
				return
			}
			if cerr != nil {
				c.Fail("nbtns.NameChallenger.ChallengeOwnership", "error", cerr.Error(), smp)
				return
			}
			if got && !k.Result {
				c.Fail("nbtns.NameChallenger.ChallengeOwnership", "confirmed-without-matching-reply", fmt.Sprintf("script %v: ownership confirmed although no reply with the challenge's own transaction id and the owner's address was sent", k.Script), smp)
			} else if !got && k.Result {
				c.Fail("nbtns.NameChallenger.ChallengeOwnership", "matching-reply-ignored", fmt.Sprintf("script %v: the matching positive reply was not accepted", k.Script), smp)
			}
			if i == 0 {
				c.Sample(smp)
			}
		}(i, k)
	}
	wg.Wait()
	return nil
}
