package drivers

// C01: password-hash primitives bound to spec/MD4.tla, HashStreamMD4.tla, C01Cases.tla.
//
//   c01.stream  model -> code: every edge (offset p, write length k) of the chunking graph is executed on a
//               real md4.MD4 in three histories (W(p) W(k) Sum Sum | W(p) Sum W(k) Sum | W(p) Sum Sum W(k) HexSum),
//               plus the package-level Sum of the prefix.
//   c01.cases   model -> code: one-shot MD4 / NT / LM / DCC / DCC2 cases with the specification's expectation.
//   c01.record  code -> model: random Write/Sum/HexSum programs on one md4.MD4, full byte range; TLC recomputes.

import (
	"bytes"
	"crypto/des"
	"crypto/hmac"
	"crypto/sha1"
	"encoding/binary"
	"encoding/hex"
	"encoding/json"
	"fmt"
	"math/rand"
	"strings"

	"github.com/TheManticoreProject/Manticore/crypto/dcc"
	"github.com/TheManticoreProject/Manticore/crypto/dcc2"
	"github.com/TheManticoreProject/Manticore/crypto/lm"
	"github.com/TheManticoreProject/Manticore/crypto/md4"
	"github.com/TheManticoreProject/Manticore/crypto/nt"
	"github.com/TheManticoreProject/Manticore/utils/encoding/utf16"
	"verif/harness/h"
)

func init() {
	h.Register("c01.stream", c01Stream)
	h.Register("c01.cases", c01Cases)
	h.Register("c01.record", c01Record)
}

type md4Edge struct {
	Op string  `json:"op"`
	P  int     `json:"p"`
	K  int     `json:"k"`
	D  h.Bytes `json:"d"`
	M  h.Bytes `json:"m"`
}

func c01Stream(c *h.Ctx) error {
	var msg []byte
	var edges []md4Edge
	digest := map[int][]byte{}
	err := c.Lines(func(raw []byte) error {
		var e md4Edge
		if err := json.Unmarshal(raw, &e); err != nil {
			return err
		}
		if e.Op == "msg" {
			msg = e.M
			return nil
		}
		edges = append(edges, e)
		digest[e.P+e.K] = e.D
		return nil
	})
	if err != nil {
		return err
	}
	if msg == nil {
		return fmt.Errorf("no msg line")
	}
	site := "md4.MD4"
	for _, e := range edges {
		want := []byte(e.D)
		sample := map[string]interface{}{"offset": e.P, "write_len": e.K, "msg_hex": h.Hex(msg[:e.P+e.K])}
		if e.Op == "sum" {
			// Sum self-loop: Sum;Sum at offset p
			c.Case("")
			m := md4.New()
			m.Write(msg[:e.P])
			a := m.Sum()
			b := m.Sum()
			c.Exec(1)
			if !bytes.Equal(a[:], want) {
				c.Fail(site+".Sum", "digest", fmt.Sprintf("W(%d);Sum: spec %x code %x", e.P, want, a), sample)
			}
			if a != b {
				c.Fail(site+".Sum", "second-sum-differs", fmt.Sprintf("W(%d);Sum;Sum: %x then %x", e.P, a, b), sample)
			}
			continue
		}
		c.Case(fmt.Sprintf("%d+%d", e.P%64, e.K))
		// history A: W(p) W(k) Sum Sum
		m := md4.New()
		m.Write(msg[:e.P])
		n, werr := m.Write(msg[e.P : e.P+e.K])
		a := m.Sum()
		if n != e.K || werr != nil {
			c.Fail(site+".Write", "return", fmt.Sprintf("Write of %d bytes returned (%d,%v)", e.K, n, werr), sample)
		}
		if !bytes.Equal(a[:], want) {
			c.Fail(site+".Write", "chunking", fmt.Sprintf("W(%d);W(%d);Sum: spec %x code %x", e.P, e.K, want, a), sample)
		}
		// history B: W(p) Sum W(k) Sum  -- a read between writes must not change what later writes produce
		m = md4.New()
		m.Write(msg[:e.P])
		pre := m.Sum()
		if wp, ok := digest[e.P]; ok && !bytes.Equal(pre[:], wp) {
			c.Fail(site+".Sum", "digest", fmt.Sprintf("W(%d);Sum: spec %x code %x", e.P, wp, pre), sample)
		}
		m.Write(msg[e.P : e.P+e.K])
		b := m.Sum()
		if !bytes.Equal(b[:], want) {
			c.Fail(site+".Sum", "sum-then-write", fmt.Sprintf("W(%d);Sum;W(%d);Sum: spec %x code %x", e.P, e.K, want, b), sample)
		}
		// history C: W(p) Sum Sum W(k) HexSum
		m = md4.New()
		m.Write(msg[:e.P])
		m.Sum()
		m.Sum()
		m.Write(msg[e.P : e.P+e.K])
		hx := m.HexSum()
		if hx != hex.EncodeToString(want) {
			c.Fail(site+".HexSum", "sum-sum-then-write", fmt.Sprintf("W(%d);Sum;Sum;W(%d);HexSum: spec %x code %s", e.P, e.K, want, hx), sample)
		}
		// package-level one-shot
		one := md4.Sum(msg[:e.P+e.K])
		if !bytes.Equal(one[:], want) {
			c.Fail("md4.Sum", "digest", fmt.Sprintf("Sum(msg[:%d]): spec %x code %x", e.P+e.K, want, one), sample)
		}
		c.Exec(4)
	}
	c.Set("message_len", len(msg))
	c.Sample(map[string]interface{}{"op": "write", "offset": edges[len(edges)/3].P, "len": edges[len(edges)/3].K, "expected_digest": h.Hex(edges[len(edges)/3].D)})
	return nil
}

type c01Case struct {
	K      string  `json:"k"`
	M      h.Bytes `json:"m"`
	D      h.Bytes `json:"d"`
	Pw     []rune  `json:"-"`
	PwRaw  []int   `json:"pw"`
	U16    h.Bytes `json:"u16"`
	K1     h.Bytes `json:"k1"`
	K2     h.Bytes `json:"k2"`
	User   []int   `json:"user"`
	LUser  []int   `json:"luser"`
	NT     h.Bytes `json:"nt"`
	Salt   h.Bytes `json:"salt"`
	Rounds int     `json:"rounds"`
	DCC    h.Bytes `json:"dcc"`
}

func cps(xs []int) string {
	r := make([]rune, len(xs))
	for i, x := range xs {
		r[i] = rune(x)
	}
	return string(r)
}

// pbkdf2SHA1 is the harness's own PBKDF2-HMAC-SHA1 (RFC 8018), not the x/crypto one the library calls.
func pbkdf2SHA1(pw, salt []byte, iter, keyLen int) []byte {
	var out []byte
	for blk := uint32(1); len(out) < keyLen; blk++ {
		mac := hmac.New(sha1.New, pw)
		mac.Write(salt)
		var ib [4]byte
		binary.BigEndian.PutUint32(ib[:], blk)
		mac.Write(ib[:])
		u := mac.Sum(nil)
		t := append([]byte(nil), u...)
		for i := 1; i < iter; i++ {
			mac = hmac.New(sha1.New, pw)
			mac.Write(u)
			u = mac.Sum(nil)
			for j := range t {
				t[j] ^= u[j]
			}
		}
		out = append(out, t...)
	}
	return out[:keyLen]
}

func desEnc(key, block []byte) []byte {
	ci, err := des.NewCipher(key)
	if err != nil {
		panic(err)
	}
	out := make([]byte, 8)
	ci.Encrypt(out, block)
	return out
}

func c01Cases(c *h.Ctx) error {
	type hcase struct {
		in   string
		want string
	}
	var lmH, ntH, md4H []hcase
	var dccH []struct{ pw, user, want string }
	defer func() {
		// histories of length 2 (every ordered pair of a representative subset): a hash of one input may not depend on
		// what was hashed before (package-level buffers, caches)
		pick := func(xs []hcase, max int) []hcase {
			if len(xs) <= max {
				return xs
			}
			out := []hcase{}
			for i := 0; i < max; i++ {
				out = append(out, xs[i*len(xs)/max])
			}
			return out
		}
		lm2, nt2, md2 := pick(lmH, 64), pick(ntH, 24), pick(md4H, 16)
		h.Pairwise(c, "lm.LMHash", len(lm2), func(i int) string { return hex.EncodeToString(lm.LMHash(lm2[i].in)) }, func(i int) string { return lm2[i].want }, func(i int) interface{} { return lm2[i].in })
		h.Pairwise(c, "nt.NTHash", len(nt2), func(i int) string { x := nt.NTHash(nt2[i].in); return hex.EncodeToString(x[:]) }, func(i int) string { return nt2[i].want }, func(i int) interface{} { return []rune(nt2[i].in) })
		h.Pairwise(c, "md4.Sum", len(md2), func(i int) string { x := md4.Sum([]byte(md2[i].in)); return hex.EncodeToString(x[:]) }, func(i int) string { return md2[i].want }, func(i int) interface{} { return len(md2[i].in) })
		if len(dccH) > 12 {
			dccH = dccH[:12]
		}
		h.Pairwise(c, "dcc.DCCHashFromPassword", len(dccH), func(i int) string { x := dcc.DCCHashFromPassword(dccH[i].pw, dccH[i].user); return hex.EncodeToString(x[:]) }, func(i int) string { return dccH[i].want }, func(i int) interface{} { return dccH[i].user })
	}()
	return c.Lines(func(raw []byte) error {
		var k c01Case
		if err := json.Unmarshal(raw, &k); err != nil {
			return err
		}
		switch k.K {
		case "md4":
			c.Case("md4:" + h.Hex(k.M))
			got := md4.Sum(k.M)
			m := md4.New()
			m.Write(k.M)
			hx := m.HexSum()
			c.Exec(2)
			smp := map[string]interface{}{"msg_hex": h.Hex(k.M)}
			if !bytes.Equal(got[:], k.D) {
				c.Fail("md4.Sum", "digest", fmt.Sprintf("len %d: spec %x code %x", len(k.M), []byte(k.D), got), smp)
			}
			if hx != h.Hex(k.D) {
				c.Fail("md4.MD4.HexSum", "digest", fmt.Sprintf("len %d: spec %x code %s", len(k.M), []byte(k.D), hx), smp)
			}
			c.Sample(map[string]interface{}{"kind": "md4", "len": len(k.M), "digest": h.Hex(k.D)})
			md4H = append(md4H, hcase{string(k.M), h.Hex(k.D)})
		case "nt":
			pw := cps(k.PwRaw)
			c.Case("nt:" + pw)
			smp := map[string]interface{}{"password_codepoints": k.PwRaw}
			u := utf16.EncodeUTF16LE(pw)
			if !bytes.Equal(u, k.U16) {
				c.Fail("utf16.EncodeUTF16LE", "encoding", fmt.Sprintf("spec %x code %x", []byte(k.U16), u), smp)
			}
			got := nt.NTHash(pw)
			hx := nt.NTHashHex(pw)
			ntH = append(ntH, hcase{pw, h.Hex(k.D)})
			c.Exec(3)
			if !bytes.Equal(got[:], k.D) {
				c.Fail("nt.NTHash", "digest", fmt.Sprintf("spec %x code %x", []byte(k.D), got), smp)
			}
			if hx != h.Hex(k.D) {
				c.Fail("nt.NTHashHex", "hex", fmt.Sprintf("spec %x code %s", []byte(k.D), hx), smp)
			}
		case "lm":
			pw := cps(k.PwRaw)
			c.Case("lm:" + pw)
			magic := []byte("KGS!@#$%")
			want := append(desEnc(k.K1, magic), desEnc(k.K2, magic)...)
			got := lm.LMHash(pw)
			hx := lm.LMHashToHex(pw)
			c.Retain("lm.LMHash", got[:], map[string]interface{}{"password_bytes": k.PwRaw})
			lmH = append(lmH, hcase{pw, hex.EncodeToString(want)})
			c.Exec(2)
			smp := map[string]interface{}{"password_bytes": k.PwRaw, "des_keys": h.Hex(k.K1) + " " + h.Hex(k.K2)}
			if !bytes.Equal(got, want) {
				c.Fail("lm.LMHash", "digest", fmt.Sprintf("spec DES(%x)||DES(%x)=%x code %x", []byte(k.K1), []byte(k.K2), want, got), smp)
			}
			if hx != hex.EncodeToString(want) {
				c.Fail("lm.LMHashToHex", "hex", fmt.Sprintf("spec %x code %s", want, hx), smp)
			}
		case "dcc":
			pw, user := cps(k.PwRaw), cps(k.User)
			c.Case("dcc:" + pw + "/" + user)
			var nth [16]byte
			copy(nth[:], k.NT)
			smp := map[string]interface{}{"password_codepoints": k.PwRaw, "user_codepoints": k.User}
			dccH = append(dccH, struct{ pw, user, want string }{pw, user, h.Hex(k.D)})
			a := dcc.DCCHashFromPassword(pw, user)
			b := dcc.DCCHashFromNTHash(nth, user)
			c.Exec(6)
			if !bytes.Equal(a[:], k.D) {
				c.Fail("dcc.DCCHashFromPassword", "digest", fmt.Sprintf("spec %x code %x", []byte(k.D), a), smp)
			}
			if !bytes.Equal(b[:], k.D) {
				c.Fail("dcc.DCCHashFromNTHash", "digest", fmt.Sprintf("spec %x code %x", []byte(k.D), b), smp)
			}
			hx := h.Hex(k.D)
			if g := dcc.DCCHashFromPasswordToHex(pw, user); g != hx {
				c.Fail("dcc.DCCHashFromPasswordToHex", "hex", fmt.Sprintf("spec %s code %s", hx, g), smp)
			}
			if g := dcc.DCCHashFromNTHashToHex(nth, user); g != hx {
				c.Fail("dcc.DCCHashFromNTHashToHex", "hex", fmt.Sprintf("spec %s code %s", hx, g), smp)
			}
			line := hx + ":" + cps(k.LUser)
			if g := dcc.DCCHashFromPasswordToHashcatString(pw, user); g != line {
				c.Fail("dcc.DCCHashFromPasswordToHashcatString", "hashcat", fmt.Sprintf("spec %q code %q", line, g), smp)
			}
			if g := dcc.DCCHashFromNTHashToHashcatString(nth, user); g != line {
				c.Fail("dcc.DCCHashFromNTHashToHashcatString", "hashcat", fmt.Sprintf("spec %q code %q", line, g), smp)
			}
		case "dcc2":
			pw, user := cps(k.PwRaw), cps(k.User)
			c.Case(fmt.Sprintf("dcc2:%s/%d", user, k.Rounds))
			key := pbkdf2SHA1(k.DCC, k.Salt, k.Rounds, 16)
			want := fmt.Sprintf("$DCC2$%d#%s#%s", k.Rounds, user, hex.EncodeToString(key))
			smp := map[string]interface{}{"user_codepoints": k.User, "rounds": k.Rounds}
			c.Exec(3)
			for name, g := range map[string]string{
				"dcc2.DCC2Hash":             dcc2.DCC2Hash(user, pw, k.Rounds),
				"dcc2.DCC2HashWithPassword": dcc2.DCC2HashWithPassword(user, pw, k.Rounds),
				"dcc2.DCC2HashWithNTHash":   dcc2.DCC2HashWithNTHash(user, nt.NTHash(pw), k.Rounds),
			} {
				if !strings.EqualFold(g, want) || !strings.HasPrefix(g, fmt.Sprintf("$DCC2$%d#%s#", k.Rounds, user)) {
					c.Fail(name, "hashcat", fmt.Sprintf("spec %q code %q", want, g), smp)
				}
			}
		default:
			return fmt.Errorf("unknown case kind %q", k.K)
		}
		return nil
	})
}

// c01Record: random programs on one streaming object; one trace line per call.
func c01Record(c *h.Ctx) error {
	traces := c.OptInt("traces", 30)
	maxTotal := c.OptInt("maxbytes", 400)
	rng := rand.New(rand.NewSource(int64(c.OptInt("seed", 1))))
	events := 0
	for tr := 0; tr < traces; tr++ {
		c.Emit([]byte(`{"op":"reset"}`))
		m := md4.New()
		total := 0
		steps := 3 + rng.Intn(8)
		for s := 0; s < steps; s++ {
			switch rng.Intn(5) {
			case 0, 1, 2:
				n := []int{0, 1, 3, 55, 56, 57, 63, 64, 65, rng.Intn(130)}[rng.Intn(10)]
				if total+n > maxTotal {
					n = maxTotal - total
				}
				p := make([]byte, n)
				rng.Read(p)
				total += n
				m.Write(p)
				b, _ := json.Marshal(map[string]interface{}{"op": "write", "b": h.Bytes(p)})
				c.Emit(b)
			case 3:
				d := m.Sum()
				b, _ := json.Marshal(map[string]interface{}{"op": "sum", "d": h.Bytes(d[:])})
				c.Emit(b)
			case 4:
				d, _ := hex.DecodeString(m.HexSum())
				b, _ := json.Marshal(map[string]interface{}{"op": "sum", "d": h.Bytes(d)})
				c.Emit(b)
			}
			events++
		}
		d := m.Sum()
		b, _ := json.Marshal(map[string]interface{}{"op": "sum", "d": h.Bytes(d[:])})
		c.Emit(b)
		events++
		c.Case(fmt.Sprint(tr))
	}
	// forks: an MD4 value copied with `f := *m` is a second, independent hash state (the type holds its state in arrays); both
	// lineages are written to in turn and each must give the digest of ITS bytes -- judged by TLC as two ordinary traces
	for tr := 0; tr < traces/2+1; tr++ {
		m := md4.New()
		pre := make([]byte, []int{0, 1, 7, 55, 56, 60, 63, 64, 65, 100, 127, 128}[tr%12]+rng.Intn(3))
		rng.Read(pre)
		m.Write(pre)
		histA := append([]byte(nil), pre...)
		histB := append([]byte(nil), pre...)
		if tr%3 == 0 {
			m.Sum() // a digest taken before the fork
		}
		fork := *m
		for round := 0; round < 2+rng.Intn(3); round++ {
			a := make([]byte, []int{1, 5, 8, 9, 63, 64, 70}[rng.Intn(7)])
			b := make([]byte, len(a))
			rng.Read(a)
			rng.Read(b)
			m.Write(a)
			fork.Write(b)
			histA = append(histA, a...)
			histB = append(histB, b...)
		}
		dB := fork.Sum()
		dA := m.Sum()
		for _, x := range []struct {
			hist []byte
			d    [16]byte
		}{{histA, dA}, {histB, dB}} {
			c.Emit([]byte(`{"op":"reset"}`))
			b, _ := json.Marshal(map[string]interface{}{"op": "write", "b": h.Bytes(x.hist)})
			c.Emit(b)
			b, _ = json.Marshal(map[string]interface{}{"op": "sum", "d": h.Bytes(x.d[:])})
			c.Emit(b)
			events += 2
		}
		c.Case(fmt.Sprintf("fork:%d", tr))
	}
	// long messages: TLC cannot read 64 MiB, but the digest of P is the chaining value after P || pad(P), so the digest of
	// P || pad(P) || x follows from the reported digest of P (MD4Extend in MD4.tla).  Both are asked of the real code; the
	// lengths sit around 2^26 bytes (bit count 2^29) and, with longmax=1, 2^29 bytes (bit count 2^32).
	longs := []uint64{1000, 1<<20 + 5, 1<<26 - 200, 1<<26 - 64, 1<<26 + 1}
	if c.OptInt("longmax", 0) != 0 {
		longs = append(longs, 1<<29-64, 1<<29+3)
	}
	chunk := make([]byte, 1<<20)
	for i := range chunk {
		chunk[i] = byte(i*7 + i>>8)
	}
	feed := func(m *md4.MD4, n uint64) {
		for n > 0 {
			k := uint64(len(chunk))
			if n < k {
				k = n
			}
			m.Write(chunk[:k])
			n -= k
		}
	}
	for li, n := range longs {
		c.Emit([]byte(`{"op":"reset"}`))
		pad := []byte{0x80}
		for (n+uint64(len(pad)))%64 != 56 {
			pad = append(pad, 0)
		}
		pad = binary.LittleEndian.AppendUint64(pad, n*8)
		x := []byte{byte(li), 0xAA, 0x55, byte(n)}[:li%5]
		m1 := md4.New()
		feed(m1, n)
		d := m1.Sum()
		m2 := md4.New()
		feed(m2, n)
		m2.Write(pad)
		m2.Write(x)
		out := m2.Sum()
		lp := n + uint64(len(pad))
		b, _ := json.Marshal(map[string]interface{}{"op": "ext", "d": h.Bytes(d[:]), "q": lp >> 20, "r": lp & (1<<20 - 1), "x": h.Bytes(x), "out": h.Bytes(out[:])})
		c.Emit(b)
		if n <= 1<<26+1 && n >= 1<<26-64 { // the one-shot form on a contiguous buffer as well
			whole := make([]byte, 0, lp+4)
			for uint64(len(whole)) < n {
				k := n - uint64(len(whole))
				if k > uint64(len(chunk)) {
					k = uint64(len(chunk))
				}
				whole = append(whole, chunk[:k]...)
			}
			d1 := md4.Sum(whole)
			whole = append(append(whole, pad...), x...)
			o1 := md4.Sum(whole)
			b, _ := json.Marshal(map[string]interface{}{"op": "ext", "d": h.Bytes(d1[:]), "q": lp >> 20, "r": lp & (1<<20 - 1), "x": h.Bytes(x), "out": h.Bytes(o1[:])})
			c.Emit(b)
			events++
		}
		events++
		c.Case(fmt.Sprintf("long:%d", n))
	}
	c.Exec(events)
	c.Set("events", events)
	return nil
}
