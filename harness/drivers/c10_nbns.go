package drivers

// C10: NetBIOS first-level name encoding and NBNS packets (network/netbios/nbtns/name.go, packet.go)
// bound to spec/NetBIOSName.tla, NBNSPacket.tla, C10Cases.tla, TraceNBNS.tla.
//
//   c10.cases   model -> code: every case TLC enumerated. Names (16 positions x 256 octet values, every length,
//               scope alphabet/lengths): FirstLevelEncode must return the specification's text, FirstLevelDecode
//               of it the same name and scope. Packets (every section shape, boundary words, large RDATA):
//               Unmarshal(Marshal(p)) == p; Marshal's bytes are written to the trace for TLC's RFC 1002 parser;
//               what Unmarshal reads from the specification's RFC 1002 image is written there too (drift only).
//   c10.record  code -> model: seeded random names, scopes and packets; every call is a trace line TLC judges.

import (
	"bytes"
	"encoding/json"
	"fmt"
	"math/rand"
	"strings"

	"github.com/TheManticoreProject/Manticore/network/netbios/nbtns"
	"verif/harness/h"
)

func init() {
	h.Register("c10.cases", c10Cases)
	h.Register("c10.record", c10Record)
}

type c10Q struct {
	NB h.Bytes   `json:"nb"`
	SC []h.Bytes `json:"sc"`
	T  int       `json:"t"`
	C  int       `json:"c"`
}

type c10RR struct {
	NB  h.Bytes   `json:"nb"`
	SC  []h.Bytes `json:"sc"`
	T   int       `json:"t"`
	C   int       `json:"c"`
	TTL [2]int    `json:"ttl"`
	RD  h.Bytes   `json:"rd"`
}

type c10Pkt struct {
	ID    int     `json:"id"`
	Flags int     `json:"flags"`
	QD    []c10Q  `json:"qd"`
	AN    []c10RR `json:"an"`
	NS    []c10RR `json:"ns"`
	AR    []c10RR `json:"ar"`
}

type c10Case struct {
	K      string          `json:"k"`
	Key    json.RawMessage `json:"key"`
	NB     h.Bytes         `json:"nb"`
	SC     []h.Bytes       `json:"sc"`
	Text   h.Bytes         `json:"text"`
	Back   h.Bytes         `json:"back"`
	Star   bool            `json:"star"`
	P      c10Pkt          `json:"p"`
	Wire   h.Bytes         `json:"wire"`
	Packed h.Bytes         `json:"packed"`
}

func c10Scope(sc []h.Bytes) string {
	parts := make([]string, len(sc))
	for i, l := range sc {
		parts[i] = string(l)
	}
	return strings.Join(parts, ".")
}

func c10ScopeLabels(s string) []h.Bytes {
	if s == "" {
		return []h.Bytes{}
	}
	parts := strings.Split(s, ".")
	out := make([]h.Bytes, len(parts))
	for i, p := range parts {
		out[i] = h.Bytes(p)
	}
	return out
}

func c10Pad(nb []byte) []byte {
	out := bytes.Repeat([]byte{' '}, 16)
	copy(out, nb)
	if len(nb) > 16 {
		return append([]byte{}, nb...)
	}
	return out
}

func c10SameScope(a, b []h.Bytes) bool {
	if len(a) != len(b) {
		return false
	}
	for i := range a {
		if !bytes.Equal(a[i], b[i]) {
			return false
		}
	}
	return true
}

func c10LibName(nb []byte, sc []h.Bytes) *nbtns.NetBIOSName {
	return &nbtns.NetBIOSName{Name: string(nb), ScopeID: c10Scope(sc)}
}

func c10LibRRs(in []c10RR) []nbtns.NBTNSResourceRecord {
	var out []nbtns.NBTNSResourceRecord
	for _, r := range in {
		out = append(out, nbtns.NBTNSResourceRecord{Name: c10LibName(r.NB, r.SC), Type: uint16(r.T), Class: uint16(r.C),
			TTL: uint32(r.TTL[0])<<16 | uint32(r.TTL[1]), RDLength: uint16(len(r.RD)), RData: append([]byte{}, r.RD...)})
	}
	return out
}

func c10Lib(p c10Pkt) *nbtns.NBTNSPacket {
	lp := &nbtns.NBTNSPacket{Header: nbtns.NBTNSHeader{TransactionID: uint16(p.ID), Flags: uint16(p.Flags),
		Questions: uint16(len(p.QD)), Answers: uint16(len(p.AN)), Authority: uint16(len(p.NS)), Additional: uint16(len(p.AR))}}
	for _, q := range p.QD {
		lp.Questions = append(lp.Questions, nbtns.NBTNSQuestion{Name: c10LibName(q.NB, q.SC), Type: uint16(q.T), Class: uint16(q.C)})
	}
	lp.Answers, lp.Authority, lp.Additional = c10LibRRs(p.AN), c10LibRRs(p.NS), c10LibRRs(p.AR)
	return lp
}

func c10AbsRRs(in []nbtns.NBTNSResourceRecord) []c10RR {
	out := make([]c10RR, 0, len(in))
	for _, r := range in {
		a := c10RR{NB: h.Bytes{}, SC: []h.Bytes{}, T: int(r.Type), C: int(r.Class), TTL: [2]int{int(r.TTL >> 16), int(r.TTL & 0xFFFF)}, RD: append(h.Bytes{}, r.RData...)}
		if r.Name != nil {
			a.NB, a.SC = h.Bytes(r.Name.Name), c10ScopeLabels(r.Name.ScopeID)
		}
		out = append(out, a)
	}
	return out
}

func c10Abs(lp *nbtns.NBTNSPacket) c10Pkt {
	p := c10Pkt{ID: int(lp.Header.TransactionID), Flags: int(lp.Header.Flags), QD: make([]c10Q, 0, len(lp.Questions))}
	for _, q := range lp.Questions {
		a := c10Q{NB: h.Bytes{}, SC: []h.Bytes{}, T: int(q.Type), C: int(q.Class)}
		if q.Name != nil {
			a.NB, a.SC = h.Bytes(q.Name.Name), c10ScopeLabels(q.Name.ScopeID)
		}
		p.QD = append(p.QD, a)
	}
	p.AN, p.NS, p.AR = c10AbsRRs(lp.Answers), c10AbsRRs(lp.Authority), c10AbsRRs(lp.Additional)
	return p
}

func c10SameRRs(a, b []c10RR) bool {
	if len(a) != len(b) {
		return false
	}
	for i := range a {
		if !bytes.Equal(c10Pad(a[i].NB), c10Pad(b[i].NB)) || !c10SameScope(a[i].SC, b[i].SC) || a[i].T != b[i].T || a[i].C != b[i].C ||
			a[i].TTL != b[i].TTL || !bytes.Equal(a[i].RD, b[i].RD) {
			return false
		}
	}
	return true
}

// c10Diff names the parts in which what the library read differs from the expected abstract packet.
func c10Diff(want c10Pkt, lp *nbtns.NBTNSPacket) []string {
	got := c10Abs(lp)
	var d []string
	if got.ID != want.ID {
		d = append(d, "Header.TransactionID")
	}
	if got.Flags != want.Flags {
		d = append(d, "Header.Flags")
	}
	for _, x := range []struct {
		name string
		got  uint16
		want int
	}{{"Header.Questions", lp.Header.Questions, len(want.QD)}, {"Header.Answers", lp.Header.Answers, len(want.AN)},
		{"Header.Authority", lp.Header.Authority, len(want.NS)}, {"Header.Additional", lp.Header.Additional, len(want.AR)}} {
		if int(x.got) != x.want {
			d = append(d, x.name)
		}
	}
	qok := len(got.QD) == len(want.QD)
	for i := 0; qok && i < len(want.QD); i++ {
		a, b := got.QD[i], want.QD[i]
		qok = bytes.Equal(c10Pad(a.NB), c10Pad(b.NB)) && c10SameScope(a.SC, b.SC) && a.T == b.T && a.C == b.C
	}
	if !qok {
		d = append(d, "Questions")
	}
	if !c10SameRRs(got.AN, want.AN) {
		d = append(d, "Answers")
	}
	if !c10SameRRs(got.NS, want.NS) {
		d = append(d, "Authority")
	}
	if !c10SameRRs(got.AR, want.AR) {
		d = append(d, "Additional")
	}
	for _, sec := range [][]nbtns.NBTNSResourceRecord{lp.Answers, lp.Authority, lp.Additional} {
		for _, r := range sec {
			if int(r.RDLength) != len(r.RData) {
				d = append(d, "RDLength")
			}
		}
	}
	return d
}

func c10Short(b []byte) interface{} {
	if len(b) > 120 {
		return map[string]interface{}{"len": len(b), "head_hex": h.Hex(b[:120])}
	}
	return h.Hex(b)
}

const (
	c10Enc = "nbtns.NetBIOSName.FirstLevelEncode"
	c10Dec = "nbtns.FirstLevelDecode"
	c10Mar = "nbtns.NBTNSPacket.Marshal"
	c10Unm = "nbtns.NBTNSPacket.Unmarshal"
)

func c10NameCase(c *h.Ctx, k *c10Case) {
	c.Case(k.K + ":" + string(k.Key))
	smp := map[string]interface{}{"kind": k.K, "key": k.Key, "name_hex": h.Hex(k.NB), "scope": c10Scope(k.SC), "spec_text": string(k.Text)}
	if k.K == "pos" {
		c.Sample(smp)
	}
	var out string
	var err error
	if p := h.Guard(func() { out, err = c10LibName(k.NB, k.SC).FirstLevelEncode() }); p != "" {
		c.Fail(c10Enc, "first-level:panic", p, smp)
		return
	}
	c.Exec(1)
	text := out
	switch {
	case err != nil && k.Star:
		c.Drift(c10Enc, "refuses-leading-asterisk", err.Error(), smp) // RFC 1001 5.2 excludes such names; the wildcard "*" of node status queries cannot be built
		text = string(k.Text)
	case err != nil:
		c.Fail(c10Enc, "first-level:encode-error", err.Error(), smp)
		return
	case out != string(k.Text):
		c.Fail(c10Enc, "first-level:text", fmt.Sprintf("library %q, RFC 1001 14.1 form %q", out, string(k.Text)), smp)
	}
	var back *nbtns.NetBIOSName
	var derr error
	if p := h.Guard(func() { back, derr = nbtns.FirstLevelDecode(text) }); p != "" {
		c.Fail(c10Dec, "first-level-decode:panic", p, smp)
		return
	}
	c.Exec(1)
	report := c.Fail
	pre := "first-level-decode:"
	if k.Star {
		report, pre = c.Drift, "asterisk-name-decode:"
	}
	switch {
	case derr != nil || back == nil:
		report(c10Dec, pre+"rejected", fmt.Sprint(derr), smp)
	case !bytes.Equal(c10Pad([]byte(back.Name)), c10Pad(k.NB)):
		report(c10Dec, pre+"name", fmt.Sprintf("decodes to %x", back.Name), smp)
	case !c10SameScope(c10ScopeLabels(back.ScopeID), k.SC):
		report(c10Dec, pre+"scope", fmt.Sprintf("scope decodes to %q", back.ScopeID), smp)
	case back.Name != string(k.Back):
		c.Drift(c10Dec, "first-level-decode:trimming", fmt.Sprintf("decodes to %q, trimmed form %q", back.Name, string(k.Back)), smp)
	}
}

// One long-lived receiver decodes every packet of the run (a receive loop); what it decoded is kept BY VALUE (`saved := rx`)
// and must still read the same records after the receiver has decoded the next packet. Questions are left out: the pinned
// tree appends them across calls on a reused receiver (reported elsewhere), records it replaces.
var c10Rx nbtns.NBTNSPacket
var c10Saved *nbtns.NBTNSPacket
var c10SavedRecords string

func c10Records(p *nbtns.NBTNSPacket) string {
	a := c10Abs(p)
	j, _ := json.Marshal([]interface{}{a.AN, a.NS, a.AR})
	return string(j)
}

func c10KeptByValue(c *h.Ctx, wire []byte, smp map[string]interface{}) {
	var e error
	if pn := h.Guard(func() { _, e = c10Rx.Unmarshal(append([]byte(nil), wire...)) }); pn != "" || e != nil {
		c10Rx = nbtns.NBTNSPacket{}
		c10Saved = nil
		return
	}
	c.Exec(1)
	if c10Saved != nil {
		if now := c10Records(c10Saved); now != c10SavedRecords {
			c.Fail(c10Unm, "kept-by-value-changed-by-next-decode", fmt.Sprintf("a packet decoded earlier and kept by value (saved := rx) read records %.200s; after the receiver decoded the next packet it reads %.200s", c10SavedRecords, now), smp)
		}
	}
	saved := c10Rx
	c10Saved = &saved
	c10SavedRecords = c10Records(c10Saved)
}

func c10Emit(c *h.Ctx, ev map[string]interface{}) {
	b, _ := json.Marshal(ev)
	c.Emit(b)
}

// c10Packet runs one abstract packet through Marshal / Unmarshal; returns Marshal's bytes.
func c10Packet(c *h.Ctx, kind string, key interface{}, p c10Pkt, judgeHere bool) []byte {
	smp := map[string]interface{}{"kind": kind, "key": key}
	var out []byte
	var err error
	// a Marshal that FAILS part-way (second question with a 17-byte name) immediately before the valid one: a rejected call
	// leaves nothing behind, in the packet or in the package
	h.Guard(func() {
		bad := &nbtns.NBTNSPacket{Header: nbtns.NBTNSHeader{TransactionID: 0xDEAD, Questions: 2},
			Questions: []nbtns.NBTNSQuestion{{Name: &nbtns.NetBIOSName{Name: "OK"}, Type: 0x20, Class: 1},
				{Name: &nbtns.NetBIOSName{Name: "SEVENTEEN-BYTES-X"}, Type: 0x20, Class: 1}}}
		bad.Marshal()
	})
	if pn := h.Guard(func() { out, err = c10Lib(p).Marshal() }); pn != "" {
		c.Fail(c10Mar, "panic", pn, smp)
		return nil
	}
	c.Exec(1)
	c.Retain(c10Mar, out, smp)
	c10Emit(c, map[string]interface{}{"op": "marshal", "k": kind, "p": p, "out": h.Bytes(out), "err": err != nil})
	if err != nil {
		return nil
	}
	smp["library_bytes"] = c10Short(out)
	back := &nbtns.NBTNSPacket{}
	var n int
	var uerr error
	if pn := h.Guard(func() { n, uerr = back.Unmarshal(out) }); pn != "" {
		c.Fail(c10Unm, "roundtrip:panic", pn, smp)
		return out
	}
	c.Exec(1)
	if uerr == nil {
		c.ReusedInput(c10Unm, out, func(b []byte) string {
			q := &nbtns.NBTNSPacket{}
			var e error
			if pn := h.Guard(func() { _, e = q.Unmarshal(b) }); pn != "" || e != nil {
				return fmt.Sprintf("error %v %s", e, pn)
			}
			j, _ := json.Marshal(c10Abs(q))
			return string(j)
		}, smp)
	}
	if uerr == nil {
		c10KeptByValue(c, out, smp)
	}
	if !judgeHere {
		ev := map[string]interface{}{"op": "roundtrip", "p": p, "ok": uerr == nil, "back": c10Pkt{QD: []c10Q{}, AN: []c10RR{}, NS: []c10RR{}, AR: []c10RR{}}}
		if uerr == nil {
			ev["back"] = c10Abs(back)
		}
		c10Emit(c, ev)
		return out
	}
	if uerr != nil {
		c.Fail(c10Unm, "roundtrip:unmarshal-error", uerr.Error(), smp)
		return out
	}
	d := c10Diff(p, back)
	for _, part := range d {
		c.Fail(c10Unm, "roundtrip:"+part, fmt.Sprintf("Unmarshal(Marshal(p)) differs from p in %s (all differing parts: %v)", part, d), smp)
	}
	if n != len(out) {
		c.Drift(c10Unm, "consumed-count", fmt.Sprintf("returned %d for %d octets", n, len(out)), smp)
	}
	return out
}

func c10Cases(c *h.Ctx) error {
	stats := map[string]int{}
	err := c.Lines(func(raw []byte) error {
		var k c10Case
		if err := json.Unmarshal(raw, &k); err != nil {
			return err
		}
		stats[k.K]++
		switch k.K {
		case "pos", "len", "scope":
			c10NameCase(c, &k)
		case "pkt", "big":
			c.Case(k.K + ":" + string(k.Key))
			out := c10Packet(c, k.K, k.Key, k.P, true)
			if bytes.Equal(out, k.Wire) {
				stats["lib_bytes_equal_rfc1002_image"]++
			}
			// what the library reads from the RFC 1002 images (drift only: TLC compares in TraceNBNS)
			for _, img := range [][]byte{k.Wire, k.Packed} {
				got := &nbtns.NBTNSPacket{}
				var uerr error
				pn := h.Guard(func() { _, uerr = got.Unmarshal(img) })
				c.Exec(1)
				ev := map[string]interface{}{"op": "unmarshal", "in": h.Bytes(img), "ok": pn == "" && uerr == nil, "p": c10Pkt{QD: []c10Q{}, AN: []c10RR{}, NS: []c10RR{}, AR: []c10RR{}}}
				if pn == "" && uerr == nil {
					ev["p"] = c10Abs(got)
				}
				c10Emit(c, ev)
				if bytes.Equal(k.Wire, k.Packed) {
					break
				}
			}
			if k.K == "pkt" {
				c.Sample(map[string]interface{}{"kind": "pkt", "shape_q_an_ns_ar_variant": k.Key, "rfc1002_image": c10Short(k.Wire)})
			}
		default:
			return fmt.Errorf("unknown case kind %q", k.K)
		}
		return nil
	})
	for k, v := range stats {
		c.Set("n_"+k, v)
	}
	return err
}

// ---------------------------------------------------------------------------------------------------------
// code -> model

func c10RandScope(rng *rand.Rand) []h.Bytes {
	if rng.Intn(2) == 0 {
		return []h.Bytes{}
	}
	const letters = "abcdefghijklmnopqrstuvwxyzABCDEFGHIJKLMNOPQRSTUVWXYZ"
	const inner = letters + "0123456789-"
	var sc []h.Bytes
	total := 0
	for i := 1 + rng.Intn(4); i > 0; i-- {
		n := []int{1, 2, 3, 8, 63, 1 + rng.Intn(63)}[rng.Intn(6)]
		if total+1+n > 200 {
			break
		}
		total += 1 + n
		l := make(h.Bytes, n)
		for j := range l {
			l[j] = inner[rng.Intn(len(inner))]
		}
		l[0] = letters[rng.Intn(len(letters))]
		if l[n-1] == '-' {
			l[n-1] = 'z'
		}
		sc = append(sc, l)
	}
	if sc == nil {
		sc = []h.Bytes{}
	}
	return sc
}

func c10RandNB(rng *rand.Rand, star bool) h.Bytes {
	n := []int{0, 1, 4, 15, 16, 16, rng.Intn(17)}[rng.Intn(7)]
	nb := make(h.Bytes, n)
	rng.Read(nb)
	if n > 0 && nb[0] == '*' && !star {
		nb[0] = '+'
	}
	if n > 0 && star {
		nb[0] = '*'
	}
	return nb
}

func c10Record(c *h.Ctx) error {
	rng := rand.New(rand.NewSource(int64(c.OptInt("seed", 1))*104729 + 10))
	names, packets := c.OptInt("names", 500), c.OptInt("packets", 200)
	events := 0
	for i := 0; i < names; i++ {
		nb, sc := c10RandNB(rng, i%50 == 49), c10RandScope(rng)
		c.Case(fmt.Sprintf("name:%d", i))
		var out string
		var err error
		pn := h.Guard(func() { out, err = c10LibName(nb, sc).FirstLevelEncode() })
		c.Exec(1)
		events++
		c10Emit(c, map[string]interface{}{"op": "fle", "nb": nb, "sc": sc, "out": h.Bytes(out), "err": pn != "" || err != nil})
		if pn != "" || err != nil {
			continue
		}
		texts := []struct{ src, text string }{{"lib", out}}
		mut := []byte(out)
		if len(mut) > 0 {
			pos := rng.Intn(len(mut))
			mut[pos] = []byte{'Q', 'a', '@', '.', 0, mut[pos] ^ 1}[rng.Intn(6)]
			texts = append(texts, struct{ src, text string }{"mutated", string(mut)})
			texts = append(texts, struct{ src, text string }{"mutated", out[:rng.Intn(len(out))]})
		}
		for _, t := range texts {
			var back *nbtns.NetBIOSName
			var derr error
			pn := h.Guard(func() { back, derr = nbtns.FirstLevelDecode(t.text) })
			c.Exec(1)
			events++
			ev := map[string]interface{}{"op": "fld", "src": t.src, "in": h.Bytes(t.text), "ok": false, "nb": h.Bytes{}, "sc": []h.Bytes{}}
			if pn == "" && derr == nil && back != nil {
				ev["ok"], ev["nb"], ev["sc"] = true, h.Bytes(back.Name), c10ScopeLabels(back.ScopeID)
			}
			c10Emit(c, ev)
		}
	}
	for i := 0; i < packets; i++ {
		p := c10Pkt{ID: rng.Intn(65536), Flags: rng.Intn(65536), QD: []c10Q{}, AN: []c10RR{}, NS: []c10RR{}, AR: []c10RR{}}
		for j := rng.Intn(3); j > 0; j-- {
			p.QD = append(p.QD, c10Q{NB: c10RandNB(rng, false), SC: c10RandScope(rng), T: rng.Intn(65536), C: rng.Intn(65536)})
		}
		for _, sec := range []*[]c10RR{&p.AN, &p.NS, &p.AR} {
			for j := rng.Intn(3); j > 0; j-- {
				rd := make(h.Bytes, []int{0, 1, 6, 12, 255, 256, rng.Intn(600)}[rng.Intn(7)])
				rng.Read(rd)
				*sec = append(*sec, c10RR{NB: c10RandNB(rng, false), SC: c10RandScope(rng), T: rng.Intn(65536), C: rng.Intn(65536),
					TTL: [2]int{rng.Intn(65536), rng.Intn(65536)}, RD: rd})
			}
		}
		c.Case(fmt.Sprintf("pkt:%d", i))
		c10Packet(c, "rec", i, p, false)
		events += 2
	}
	c.Set("events", events)
	return nil
}
