package drivers

// C14: key-credential blobs round-trip and their integrity hash detects tampering; bound to spec/KeyCredentialLink.tla,
// RSAKeyBlob.tla, DNBinary.tla, KeyCredObject.tla, Prim256.tla.
//
//   c14.prim    evaluates the Prim terms (SHA-256, crypto/sha256) the specification asked for ({"prim": bytes} lines)
//               into the table Prim256.tla reads back.
//   c14.cases   model -> code: "cred" (build, serialise, identify the blob among the ones the spec admits, parse back,
//               compare every field, re-serialise, integrity), "cki" (CUSTOM_KEY_INFORMATION of every size), "dnb".
//   c14.flips   model -> code: every single-bit corruption of the covered range of the selected blobs.
//   c14.hist    model -> code: every history of calls on ONE object up to a length (the RawBytes cache).
//   c14.record  code -> model: random credentials / tampering / DN-with-binary strings, full value range; TLC judges.

import (
	"bytes"
	"crypto/sha256"
	"encoding/base64"
	"encoding/binary"
	"encoding/hex"
	"encoding/json"
	"fmt"
	"math/rand"
	"os"
	"sort"

	"github.com/TheManticoreProject/Manticore/windows/guid"
	kcl "github.com/TheManticoreProject/Manticore/windows/keycredential"
	kcrypto "github.com/TheManticoreProject/Manticore/windows/keycredential/crypto"
	"github.com/TheManticoreProject/Manticore/windows/keycredential/key"
	kutils "github.com/TheManticoreProject/Manticore/windows/keycredential/utils"
	"verif/harness/h"
)

func init() {
	h.Register("c14.prim", c14Prim)
	h.Register("c14.cases", c14Cases)
	h.Register("c14.flips", c14Flips)
	h.Register("c14.hist", c14Hist)
	h.Register("c14.record", c14Record)
}

const (
	c14KC   = "keycredentiallink.KeyCredential"
	c14RSA  = "crypto.RSAKeyMaterial"
	c14CKI  = "key.CustomKeyInformation"
	c14DNB  = "keycredentiallink.DNWithBinary"
	c14Time = "utils.ConvertFromBinaryTime"
)

// ---------------------------------------------------------------- Prim evaluation

func c14PrimKey(m []byte) string {
	s := 0
	for _, x := range m {
		s += int(x)
	}
	return fmt.Sprintf("%d_%d", len(m), s)
}

type c14PrimEnt struct {
	M h.Bytes `json:"m"`
	D h.Bytes `json:"d"`
}

func c14Prim(c *h.Ctx) error {
	tab := map[string][]c14PrimEnt{}
	seen := map[string]bool{}
	add := func(m []byte) {
		if seen[string(m)] {
			return
		}
		seen[string(m)] = true
		d := sha256.Sum256(m)
		k := c14PrimKey(m)
		tab[k] = append(tab[k], c14PrimEnt{M: append([]byte{}, m...), D: d[:]})
	}
	add([]byte("abc"))
	n := 0
	err := c.Lines(func(raw []byte) error {
		var r struct {
			Prim *h.Bytes `json:"prim"`
		}
		if err := json.Unmarshal(raw, &r); err != nil {
			return err
		}
		if r.Prim != nil {
			n++
			add(*r.Prim)
		}
		return nil
	})
	if err != nil {
		return err
	}
	b, _ := json.Marshal(tab)
	if err := os.WriteFile(c.Opt("out", c.In+".prim.json"), b, 0o644); err != nil {
		return err
	}
	c.Set("prim_requests", n)
	c.Set("prim_distinct", len(seen))
	return nil
}

// ---------------------------------------------------------------- shared helpers

type c14Key struct {
	Bits int     `json:"bits"`
	Exp  h.Bytes `json:"exp"`
	Mod  h.Bytes `json:"mod"`
	P1   h.Bytes `json:"p1"`
	P2   h.Bytes `json:"p2"`
}

type c14Fields struct {
	Ver     uint32  `json:"ver"`
	Key     c14Key  `json:"key"`
	Dev     h.Bytes `json:"dev"`
	Last    h.Bytes `json:"last"`
	Created h.Bytes `json:"created"`
	Usage   int     `json:"usage"`
	Source  int     `json:"source"`
}

type c14Enc struct {
	Ew    string  `json:"ew"`
	Cki   string  `json:"cki"`
	Magic string  `json:"magic"`
	Legal bool    `json:"legal"`
	Km    h.Bytes `json:"km"`
	Kid   h.Bytes `json:"kid"`
	Kh    h.Bytes `json:"kh"`
	Blob  h.Bytes `json:"blob"`
	Cov   int     `json:"cov"`
}

func c14BE(b []byte) uint32 {
	var v uint32
	for _, x := range b {
		v = v<<8 | uint32(x)
	}
	return v
}

// the GUID packet (MS-DTYP 2.3.4.2): Data1 LE32, Data2 LE16, Data3 LE16, Data4 8 bytes in order
func c14Guid(b []byte) guid.GUID {
	var e uint64
	for _, x := range b[10:16] {
		e = e<<8 | uint64(x)
	}
	return guid.GUID{A: binary.LittleEndian.Uint32(b[0:4]), B: binary.LittleEndian.Uint16(b[4:6]), C: binary.LittleEndian.Uint16(b[6:8]),
		D: uint16(b[8])<<8 | uint16(b[9]), E: e}
}

func c14IdString(id []byte, ver uint32) string {
	if ver == 0 || ver == 0x100 {
		return hex.EncodeToString(id)
	}
	return base64.StdEncoding.EncodeToString(id)
}

func c14RSAOf(k c14Key) kcrypto.RSAKeyMaterial {
	return kcrypto.RSAKeyMaterial{Exponent: c14BE(k.Exp), Modulus: append([]byte{}, k.Mod...), Prime1: append([]byte{}, k.P1...),
		Prime2: append([]byte{}, k.P2...), KeySize: uint32(k.Bits)}
}

func c14New(f c14Fields, idStr string) *kcl.KeyCredential {
	return kcl.NewKeyCredential(key.KeyCredentialVersion{Value: f.Ver}, idStr, c14RSAOf(f.Key), c14Guid(f.Dev),
		kutils.DateTime{Ticks: binary.LittleEndian.Uint64(f.Last)}, kutils.DateTime{Ticks: binary.LittleEndian.Uint64(f.Created)})
}

// c14Seal: the constructor has no parameter for usage / source (it builds an AD / NGC credential); a caller that wants another
// one assembles the object by hand -- the same fields, nothing serialised yet -- and seals it, which is what the hash over the
// covered entries is for.  (Changing the fields of a CONSTRUCTED object and calling ComputeKeyHash again is not that: the object
// keeps the blob of its first serialisation and hashes that one; reported by the caller as a deviation outside C14's quantifier.)
func c14Seal(kc *kcl.KeyCredential, f c14Fields) (staleHash bool) {
	if int(kc.Usage.Value) == f.Usage && int(kc.Source) == f.Source {
		return false
	}
	inPlace := *kc
	inPlace.Usage.Value = uint8(f.Usage)
	inPlace.Source = key.KeySource(f.Source)
	stale := inPlace.ComputeKeyHash()
	kc.Usage.Value = uint8(f.Usage)
	kc.Source = key.KeySource(f.Source)
	kc.RawBytes, kc.RawBytesSize, kc.KeyHash = nil, 0, []byte{}
	kc.KeyHash = kc.ComputeKeyHash()
	return !bytes.Equal(stale, kc.KeyHash)
}

var c14EntryNames = map[byte]string{1: "KeyID", 2: "KeyHash", 3: "KeyMaterial", 4: "KeyUsage", 5: "KeySource", 6: "DeviceId",
	7: "CustomKeyInformation", 8: "KeyApproximateLastLogonTimeStamp", 9: "KeyCreationTime"}

// c14FirstDiff names where got departs from want, walking WANT's (the specification's) entry structure.  KeyID and
// KeyHash are derived from the other entries, so when one of those differs too it is the one named.
func c14FirstDiff(want, got []byte) string {
	if bytes.Equal(want, got) {
		return "none"
	}
	same := func(from, to int) bool { // want[from:to] == got[from:to]
		if to > len(got) {
			return false
		}
		return bytes.Equal(want[from:to], got[from:to])
	}
	if !same(0, c14min(4, len(want))) {
		return "Version"
	}
	first := ""
	o := 4
	for o+3 <= len(want) {
		l := int(binary.LittleEndian.Uint16(want[o:]))
		id := want[o+2]
		end := c14min(o+3+l, len(want))
		if !same(o, end) {
			name := "entry=" + c14EntryNames[id]
			if id > 2 {
				return name
			}
			if first == "" {
				first = name
			}
		}
		o += 3 + l
	}
	if first != "" {
		return first
	}
	return "trailing-bytes"
}

func c14Zero(b []byte) bool {
	for _, x := range b {
		if x != 0 {
			return false
		}
	}
	return true
}

// ---------------------------------------------------------------- c14.cases

type c14Case struct {
	K     string          `json:"k"`
	Id    json.RawMessage `json:"id"`
	F     c14Fields       `json:"f"`
	Encs  []c14Enc        `json:"encs"`
	V     h.Bytes         `json:"v"`
	Class string          `json:"class"`
	Legal bool            `json:"legal"`
	D     struct {
		Flags    int     `json:"flags"`
		Vt       int     `json:"vt"`
		Sn       int     `json:"sn"`
		Fek      int     `json:"fek"`
		Strength h.Bytes `json:"strength"`
		Reserved h.Bytes `json:"reserved"`
		Ext      h.Bytes `json:"ext"`
	} `json:"d"`
	Bin   h.Bytes `json:"bin"`
	Dn    h.Bytes `json:"dn"`
	Str   h.Bytes `json:"str"`
	Upper h.Bytes `json:"upper"`
	Colon bool    `json:"colon"`
}

// c14Compare judges a parsed credential against the specification's field values.
// fail(site, aspect, detail) is c.Fail or c.Drift bound by the caller.
func c14Compare(kc *kcl.KeyCredential, f c14Fields, e c14Enc, fail func(site, aspect, detail string)) {
	if kc.Version.Value != f.Ver {
		fail(c14KC+".FromBytes", "roundtrip:Version", fmt.Sprintf("spec %#x code %#x", f.Ver, kc.Version.Value))
	}
	if want := c14IdString(e.Kid, f.Ver); kc.Identifier != want {
		fail(c14KC+".FromBytes", "roundtrip:Identifier", fmt.Sprintf("spec %q code %q", want, kc.Identifier))
	}
	if !bytes.Equal(kc.KeyHash, e.Kh) {
		fail(c14KC+".FromBytes", "roundtrip:KeyHash", fmt.Sprintf("spec %x code %x", []byte(e.Kh), kc.KeyHash))
	}
	rk := kc.RawKeyMaterial
	if rk.Exponent != c14BE(f.Key.Exp) {
		fail(c14RSA+".FromBytes", "roundtrip:Exponent", fmt.Sprintf("spec %d code %d", c14BE(f.Key.Exp), rk.Exponent))
	}
	if !bytes.Equal(rk.Modulus, f.Key.Mod) {
		fail(c14RSA+".FromBytes", "roundtrip:Modulus", fmt.Sprintf("spec %x code %x", []byte(f.Key.Mod), rk.Modulus))
	}
	if !bytes.Equal(rk.Prime1, f.Key.P1) {
		fail(c14RSA+".FromBytes", "roundtrip:Prime1", fmt.Sprintf("spec %x code %x", []byte(f.Key.P1), rk.Prime1))
	}
	if !bytes.Equal(rk.Prime2, f.Key.P2) {
		fail(c14RSA+".FromBytes", "roundtrip:Prime2", fmt.Sprintf("spec %x code %x", []byte(f.Key.P2), rk.Prime2))
	}
	if rk.KeySize != uint32(f.Key.Bits) {
		fail(c14RSA+".FromBytes", "roundtrip:KeySize", fmt.Sprintf("spec %d code %d", f.Key.Bits, rk.KeySize))
	}
	if int(kc.Usage.Value) != f.Usage {
		fail(c14KC+".FromBytes", "roundtrip:Usage", fmt.Sprintf("spec %d code %d", f.Usage, kc.Usage.Value))
	}
	if int(kc.Source) != f.Source {
		fail(c14KC+".FromBytes", "roundtrip:Source", fmt.Sprintf("spec %d code %d", f.Source, int(kc.Source)))
	}
	if g := c14Guid(f.Dev); !kc.DeviceId.Equal(&g) {
		fail(c14KC+".FromBytes", "roundtrip:DeviceId", fmt.Sprintf("spec %x code %s", []byte(f.Dev), kc.DeviceId.ToFormatD()))
	}
	for _, t := range []struct {
		name string
		want []byte
		got  uint64
	}{{"LastLogonTime", f.Last, kc.LastLogonTime.Ticks}, {"CreationTime", f.Created, kc.CreationTime.Ticks}} {
		w := binary.LittleEndian.Uint64(t.want)
		if t.got != w {
			if w == 0 {
				fail(c14Time, "ticks=0", fmt.Sprintf("%s: a stored tick count of 0 parses to %d", t.name, t.got))
			} else {
				fail(c14KC+".FromBytes", "roundtrip:"+t.name, fmt.Sprintf("spec %d code %d", w, t.got))
			}
		}
	}
}

// c14ParseBack: blob -> fresh object -> fields, re-serialisation, integrity.
func c14ParseBack(f c14Fields, e c14Enc, fail func(site, aspect, detail string)) {
	kc := &kcl.KeyCredential{}
	var perr error
	input := append([]byte{}, e.Blob...)
	if p := h.Guard(func() { perr = kc.FromBytes(input) }); p != "" {
		fail(c14KC+".FromBytes", "panic-on-own-blob", p)
		return
	}
	defer func() {
		// parsing and then serialising the parsed object never writes into the caller's blob
		h.Guard(func() { kc.ToBytes() })
		if !bytes.Equal(input, e.Blob) {
			fail(c14KC+".ToBytes", "overwrites-parsed-input", "FromBytes(blob) followed by ToBytes() changed the caller's blob at "+c14FirstDiff(e.Blob, input))
		}
	}()
	if perr != nil {
		fail(c14KC+".FromBytes", "error-on-own-blob", perr.Error())
		return
	}
	if c14Ctx != nil {
		c14Ctx.ReusedInput(c14KC+".FromBytes", e.Blob, func(b []byte) (r string) {
			x := &kcl.KeyCredential{}
			h.Guard(func() {
				if err := x.FromBytes(b); err != nil {
					r = "error: " + err.Error()
					return
				}
				out, _ := x.ToBytes()
				r = h.Hex(out)
			})
			return r
		}, map[string]interface{}{"blob_bytes": len(e.Blob)})
	}
	c14Compare(kc, f, e, fail)
	var re []byte
	var err error
	if p := h.Guard(func() { re, err = kc.ToBytes() }); p != "" || err != nil {
		fail(c14KC+".ToBytes", "reserialise:error", fmt.Sprintf("%s%v", p, err))
	} else if !bytes.Equal(re, e.Blob) {
		where := c14FirstDiff(e.Blob, re)
		if (where == "entry=KeyApproximateLastLogonTimeStamp" && c14Zero(f.Last)) || (where == "entry=KeyCreationTime" && c14Zero(f.Created)) {
			fail(c14Time, "ticks=0", "re-serialised "+where+" differs: a stored tick count of 0 was replaced while parsing")
		} else {
			fail(c14KC+".ToBytes", "reserialise:"+where, fmt.Sprintf("parsed blob re-serialises differently (%d -> %d bytes)", len(e.Blob), len(re)))
		}
	}
	ok := false
	if p := h.Guard(func() { ok = kc.CheckIntegrity() }); p != "" {
		fail(c14KC+".CheckIntegrity", "panic-on-own-blob", p)
	} else if !ok {
		fail(c14KC+".CheckIntegrity", "own-blob-rejected", "CheckIntegrity() is false on an untampered blob")
	}
}

// c14Kept: a serialised credential retained across later cases: the blob slice exactly as ToBytes returned it, a private
// copy of its bytes, and the object. Serialising or parsing OTHER credentials must leave all three unchanged.
type c14Kept struct {
	kc   *kcl.KeyCredential
	blob []byte
	copy []byte
	smp  map[string]interface{}
}

var c14Ctx *h.Ctx

func c14Cases(c *h.Ctx) error {
	c14Ctx = c
	own := map[string]int{}
	var kept []c14Kept
	ncred, ncki, ndnb := 0, 0, 0
	err := c.Lines(func(raw []byte) error {
		var k c14Case
		if err := json.Unmarshal(raw, &k); err != nil {
			return err
		}
		switch k.K {
		case "cred":
			ncred++
			c.Case("cred:" + string(k.Id))
			c14Cred(c, k, own, &kept)
		case "cki":
			ncki++
			c.Case("cki:" + h.Hex(k.V))
			c14Cki(c, k)
		case "dnb":
			ndnb++
			c.Case("dnb:" + h.Hex(k.Bin) + ":" + string(k.Dn))
			c14Dnb(c, k, ndnb)
		default:
			return fmt.Errorf("unknown case kind %q", k.K)
		}
		return nil
	})
	// the encoder's choices, for the specification's later runs (flips, histories)
	keys := []string{}
	for k := range own {
		keys = append(keys, k)
	}
	sort.Strings(keys)
	c.Set("own_encodings", own)
	c.Set("cred_cases", ncred)
	c.Set("cki_cases", ncki)
	c.Set("dnb_cases", ndnb)
	return err
}

func c14Cred(c *h.Ctx, k c14Case, own map[string]int, kept *[]c14Kept) {
	f := k.F
	smp := map[string]interface{}{"cred": string(k.Id), "version": f.Ver, "modulus_bytes": len(f.Key.Mod), "exponent": c14BE(f.Key.Exp),
		"primes": len(f.Key.P1) > 0, "device_id": h.Hex(f.Dev), "last_ticks": binary.LittleEndian.Uint64(f.Last),
		"created_ticks": binary.LittleEndian.Uint64(f.Created)}
	P := func(site, aspect, detail string) { c.Fail(site, aspect, detail, smp) }
	D := func(site, aspect, detail string) { c.Drift(site, aspect, detail, smp) }
	// 1. key material
	rk := c14RSAOf(f.Key)
	var km []byte
	if p := h.Guard(func() { km = rk.ToBytes() }); p != "" {
		P(c14RSA+".ToBytes", "panic", p)
		return
	}
	c.Exec(1)
	var cands []c14Enc
	for _, e := range k.Encs {
		if bytes.Equal(e.Km, km) {
			cands = append(cands, e)
		}
	}
	if len(cands) == 0 {
		P(c14RSA+".ToBytes", "layout", fmt.Sprintf("BCRYPT_RSAKEY_BLOB %x... is none of the %d encodings the specification admits (first: %x...)",
			km[:c14min(len(km), 32)], len(k.Encs), k.Encs[0].Km[:c14min(len(k.Encs[0].Km), 32)]))
		return
	}
	// 2. build, serialise, identify
	kc := c14New(f, c14IdString(cands[0].Kid, f.Ver))
	if int(kc.Usage.Value) != 1 || int(kc.Source) != 0 {
		D(c14KC, "new-defaults", fmt.Sprintf("NewKeyCredential sets usage %d source %d; the case table assumes NGC (1) / AD (0)", kc.Usage.Value, int(kc.Source)))
		return
	}
	stale := false
	if p := h.Guard(func() { stale = c14Seal(kc, f) }); p != "" {
		P(c14KC+".ComputeKeyHash", "panic", p)
		return
	}
	if stale {
		D(c14KC+".ComputeKeyHash", "hash-of-first-serialisation-after-field-change", "after Usage/Source of a constructed object are changed, ComputeKeyHash() still hashes the blob of the first serialisation")
	}
	var blob []byte
	var err error
	if p := h.Guard(func() { blob, err = kc.ToBytes() }); p != "" || err != nil {
		P(c14KC+".ToBytes", "error", fmt.Sprintf("%s%v", p, err))
		return
	}
	c.Exec(1)
	var me *c14Enc
	for i := range cands {
		if bytes.Equal(cands[i].Blob, blob) {
			me = &cands[i]
		}
	}
	if me == nil {
		best, bestAt := cands[0], ""
		for _, e := range cands { // prefer a legal candidate for the diagnosis
			if e.Legal {
				best = e
				break
			}
		}
		bestAt = c14FirstDiff(best.Blob, blob)
		P(c14KC+".ToBytes", "layout:"+bestAt, fmt.Sprintf("serialised blob (%d bytes) is none of the blobs the specification admits for this credential; vs the %s/%s/%s encoding it departs at %s",
			len(blob), best.Ew, best.Cki, best.Magic, bestAt))
		return
	}
	own[me.Ew+"/"+me.Cki+"/"+me.Magic]++
	if me.Cki == "vonly" {
		P(c14CKI+".ToBytes", "layout:fresh-value-lacks-flags", "the CustomKeyInformation entry of a freshly built credential is the single byte 01: MS-ADTS 2.2.20.6 has no representation shorter than Version+Flags")
	}
	if me.Magic == "rsa1" {
		// D: private material is outside "any RSA public key"
		D(c14RSA+".ToBytes", "layout:public-magic-on-private-blob", "Prime1/Prime2 are written under the BCRYPT_RSAPUBLIC_MAGIC 'RSA1'")
	}
	// 3. the fresh object: key hash and integrity
	if !bytes.Equal(kc.KeyHash, me.Kh) {
		P(c14KC+".ComputeKeyHash", "covered-range", fmt.Sprintf("KeyHash of the fresh object: spec SHA256(blob[%d:]) = %x, code %x", me.Cov, []byte(me.Kh), kc.KeyHash))
	}
	ok := false
	if p := h.Guard(func() { ok = kc.CheckIntegrity() }); p != "" || !ok {
		P(c14KC+".CheckIntegrity", "fresh-object-rejected", "CheckIntegrity() is false on a freshly built credential "+p)
	}
	if again, err2 := kc.ToBytes(); err2 != nil || !bytes.Equal(again, blob) {
		P(c14KC+".ToBytes", "not-repeatable", "a second ToBytes() on the same object returns different bytes")
	}
	// the stored hash is compared as a whole: a credential whose KeyHash was cut short (or is empty) does not pass
	for _, keep := range []int{0, 1, 16, 31} {
		if len(kc.KeyHash) != 32 {
			break
		}
		cut := *kc
		cut.KeyHash = append([]byte(nil), kc.KeyHash[:keep]...)
		accepted := false
		if p := h.Guard(func() { accepted = cut.CheckIntegrity() }); p == "" && accepted {
			P(c14KC+".CheckIntegrity", "accepts-shortened-hash", fmt.Sprintf("CheckIntegrity() is true although the stored KeyHash holds only its first %d bytes", keep))
			break
		}
		c.Exec(1)
	}
	// the blob handed out belongs to the caller: scribbling over one does not reach the object (its cached RawBytes, its hash)
	if b4, e4 := kc.ToBytes(); e4 == nil && len(b4) == len(blob) {
		for i := range b4 {
			b4[i] ^= 0xFF
		}
		okAfter := false
		var b5 []byte
		if p := h.Guard(func() { okAfter = kc.CheckIntegrity(); b5, _ = kc.ToBytes() }); p != "" || !okAfter || !bytes.Equal(b5, blob) {
			P(c14KC+".ToBytes", "returned-blob-aliases-object", fmt.Sprintf("after the caller overwrote a blob ToBytes() had returned, CheckIntegrity() = %v and ToBytes() departs at %s %s", okAfter, c14FirstDiff(blob, b5), p))
		}
		c.Exec(2)
	}
	// a serialisation that FAILS (identifier that cannot be converted) leaves nothing behind: with the identifier restored
	// the same object serialises to the same blob
	{
		id := kc.Identifier
		kc.Identifier = "!!not-an-identifier!!"
		var e1 error
		h.Guard(func() { _, e1 = kc.ToBytes() })
		kc.Identifier = id
		if e1 != nil {
			var b3 []byte
			var e3 error
			if p := h.Guard(func() { b3, e3 = kc.ToBytes() }); p != "" || e3 != nil || !bytes.Equal(b3, blob) {
				P(c14KC+".ToBytes", "after-failed-call", fmt.Sprintf("after a rejected ToBytes() the same object (identifier restored) serialises to %d bytes departing at %s (%v %s)", len(b3), c14FirstDiff(blob, b3), e3, p))
			}
		}
		c.Exec(2)
	}
	c.Exec(3)
	// 4. parse back: own encoding is P, every other admitted encoding is D (blobs this library would not have written)
	for i := range k.Encs {
		e := k.Encs[i]
		if bytes.Equal(e.Blob, blob) {
			c14ParseBack(f, e, P)
		} else {
			tag := ":foreign-encoding"
			c14ParseBack(f, e, func(site, aspect, detail string) {
				D(site, aspect+tag, fmt.Sprintf("[%s/%s/%s] %s", e.Ew, e.Cki, e.Magic, detail))
			})
		}
		c.Exec(3)
	}
	if len(f.Key.Mod) == 128 && f.Ver == 512 && len(f.Key.P1) == 0 {
		c.Sample(map[string]interface{}{"kind": "cred", "input": smp, "blob_hex": h.Hex(blob), "covered_from": me.Cov})
	}
	// 5. credentials serialised earlier are values of their own: building, serialising and parsing THIS credential must not
	// have changed their blobs or their integrity (a shared or pooled output buffer would)
	for _, o := range *kept {
		c.Exec(2)
		if !bytes.Equal(o.blob, o.copy) {
			c.Fail(c14KC+".ToBytes", "blob-changed-by-later-serialisation", fmt.Sprintf("the blob returned for an earlier credential now differs at %s after another credential was built and serialised",
				c14FirstDiff(o.copy, o.blob)), map[string]interface{}{"earlier": o.smp, "later": smp})
			break
		}
		still := false
		if p := h.Guard(func() { still = o.kc.CheckIntegrity() }); p != "" || !still {
			c.Fail(c14KC+".CheckIntegrity", "object-invalidated-by-later-serialisation", "an earlier credential fails its own integrity check after another credential was built and serialised "+p,
				map[string]interface{}{"earlier": o.smp, "later": smp})
			break
		}
	}
	// 6. one scratch KeyCredential parses every blob of the run (a loop over msDS-KeyCredentialLink values) and each result is
	// kept BY VALUE (`first := scratch`): it still re-serialises to its own blob after the scratch object parsed the next one
	{
		in := append([]byte(nil), blob...)
		var e7 error
		p7 := h.Guard(func() { e7 = c14Scratch.FromBytes(in) })
		if c14ScratchSaved != nil {
			again, e6 := []byte(nil), error(nil)
			if p := h.Guard(func() { again, e6 = c14ScratchSaved.ToBytes() }); p != "" || e6 != nil || !bytes.Equal(again, c14ScratchBlob) {
				c.Fail(c14KC+".FromBytes", "kept-by-value-changed-by-next-parse", fmt.Sprintf("a credential parsed into a reused object and kept by value re-serialises differently (at %s) after the object parsed the next blob %s%v", c14FirstDiff(c14ScratchBlob, again), p, e6), smp)
			}
			c.Exec(1)
		}
		if p7 == "" && e7 == nil {
			saved := c14Scratch
			c14ScratchSaved = &saved
			if b8, e8 := saved.ToBytes(); e8 == nil {
				c14ScratchBlob = b8
			} else {
				c14ScratchSaved = nil
			}
		} else {
			c14Scratch = kcl.KeyCredential{}
			c14ScratchSaved = nil
		}
	}
	*kept = append(*kept, c14Kept{kc: kc, blob: blob, copy: append([]byte(nil), blob...), smp: smp})
	if len(*kept) > 3 {
		*kept = (*kept)[1:]
	}
}

var c14Scratch kcl.KeyCredential
var c14ScratchSaved *kcl.KeyCredential
var c14ScratchBlob []byte

func c14min(a, b int) int {
	if a < b {
		return a
	}
	return b
}

func c14Cki(c *h.Ctx, k c14Case) {
	smp := map[string]interface{}{"cki_hex": h.Hex(k.V), "representation": k.Class}
	fail := func(site, aspect, detail string) { c.Drift(site, aspect, detail, smp) }
	// D throughout: a built credential never carries these values; they arrive only in blobs written by others
	cki := key.CustomKeyInformation{}
	var perr error
	if p := h.Guard(func() { perr = cki.FromBytes(append([]byte{}, k.V...), key.KeyCredentialVersion{Value: 0x200}) }); p != "" {
		fail(c14CKI+".FromBytes", "panic:size="+fmt.Sprint(len(k.V)), p)
		return
	}
	c.Exec(2)
	size := fmt.Sprint(len(k.V))
	if len(k.V) > 21 {
		size = ">21"
	}
	if k.Legal && perr != nil {
		fail(c14CKI+".FromBytes", "rejects:size="+size, perr.Error())
	}
	if k.Legal {
		bad := ""
		switch {
		case int(cki.Flags.Value) != k.D.Flags:
			bad = "Flags"
		case k.Class == "full" && int(cki.VolumeType.Value) != k.D.Vt:
			bad = "VolumeType"
		case k.Class == "full" && cki.SupportsNotification != (k.D.Sn != 0):
			bad = "SupportsNotification"
		case k.Class == "full" && int(cki.FekKeyVersion) != k.D.Fek:
			bad = "FekKeyVersion"
		case k.Class == "full" && cki.Strength.Value != binary.LittleEndian.Uint32(k.D.Strength):
			bad = "KeyStrength"
		case k.Class == "full" && !bytes.Equal(cki.Reserved, k.D.Reserved):
			bad = "Reserved"
		case k.Class == "full" && !bytes.Equal(cki.EncodedExtendedCKI, k.D.Ext):
			bad = "EncodedExtendedCKI"
		}
		if bad != "" {
			fail(c14CKI+".FromBytes", "field:"+bad+":size="+size, "parsed field differs from the specification's")
		}
	}
	var re []byte
	if p := h.Guard(func() { re = cki.ToBytes() }); p != "" {
		fail(c14CKI+".ToBytes", "panic:size="+size, p)
		return
	}
	if !bytes.Equal(re, k.V) {
		fail(c14CKI+".ToBytes", "reserialise:"+k.Class+":size="+size, fmt.Sprintf("%x parses and re-serialises as %x", []byte(k.V), re))
	}
}

func c14Dnb(c *h.Ctx, k c14Case, n int) {
	dn := string(k.Dn)
	smp := map[string]interface{}{"dn": dn, "binary_hex": h.Hex(k.Bin), "spec_string": string(k.Str)}
	cls := ""
	if k.Colon {
		cls = ":dn-contains-colon"
	}
	d := kcl.DNWithBinary{DistinguishedName: dn, BinaryData: append([]byte{}, k.Bin...)}
	var s string
	if p := h.Guard(func() { s = d.ToString() }); p != "" {
		c.Fail(c14DNB+".ToString", "panic", p, smp)
		return
	}
	c.Exec(1)
	// P: the string is B:<count>:<hex>:<dn>; the case of the hex digits is free
	if s != string(k.Str) && s != string(k.Upper) {
		c.Fail(c14DNB+".ToString", "form"+cls, fmt.Sprintf("spec %q code %q", string(k.Str), s), smp)
		return
	}
	for i, in := range [][]byte{[]byte(s), k.Upper} {
		back := kcl.DNWithBinary{}
		var err error
		p := h.Guard(func() { err = back.Parse(append([]byte{}, in...)) })
		c.Exec(1)
		bad := ""
		switch {
		case p != "":
			bad = "panic " + p
		case err != nil:
			bad = "error " + err.Error()
		case back.DistinguishedName != dn:
			bad = fmt.Sprintf("DN %q", back.DistinguishedName)
		case !bytes.Equal(back.BinaryData, k.Bin):
			bad = fmt.Sprintf("binary %x", back.BinaryData)
		}
		if bad == "" {
			continue
		}
		if i == 0 {
			c.Fail(c14DNB+".Parse", "roundtrip"+cls, fmt.Sprintf("Parse(ToString(x)) for %q: %s", s, bad), smp)
		} else if s != string(k.Upper) && !k.Colon {
			c.Drift(c14DNB+".Parse", "uppercase-hex"+cls, fmt.Sprintf("Parse(%q): %s", string(k.Upper), bad), smp)
		}
	}
	if n%2500 == 17 {
		c.Sample(map[string]interface{}{"kind": "dnb", "dn": dn, "string": s})
	}
}

// ---------------------------------------------------------------- c14.flips

type c14FlipLine struct {
	K    string          `json:"k"`
	Id   json.RawMessage `json:"id"`
	Enc  c14Enc          `json:"enc"`
	F    c14Fields       `json:"f"`
	O    int             `json:"o"`
	Bit  uint            `json:"bit"`
	Ent  string          `json:"ent"`
	Part string          `json:"part"`
	Byte int             `json:"byte"`
}

type c14FlipBlob struct {
	blob []byte
	cov  int
	own  bool
	n    int
}

// c14Accepts: does the library accept these bytes as an intact credential?  A panic or an error while parsing or
// checking counts as "not accepted" (totality of the decoders is C07's subject).
func c14Accepts(b []byte) (accepted bool, panicked bool) {
	kc := &kcl.KeyCredential{}
	var err error
	ok := false
	p := h.Guard(func() {
		err = kc.FromBytes(b)
		if err == nil {
			ok = kc.CheckIntegrity()
		}
	})
	if p == "" && err == nil && !ok {
		// the verdict is about the RECEIVED bytes: it is the same after the object was asked for other things in between
		// (re-serialised, printed) -- a blob that fails the check does not start passing it
		kc2 := &kcl.KeyCredential{}
		later := false
		p2 := h.Guard(func() {
			if kc2.FromBytes(append([]byte(nil), b...)) == nil {
				kc2.ToBytes()
				later = kc2.CheckIntegrity()
			}
		})
		if p2 == "" && later {
			return true, false
		}
	}
	return p == "" && err == nil && ok, p != ""
}

func c14Flips(c *h.Ctx) error {
	blobs := map[string]*c14FlipBlob{}
	// pass 1: the blobs (and whether each is what the code itself writes for that credential)
	err := c.Lines(func(raw []byte) error {
		if !bytes.Contains(raw[:c14min(len(raw), 20)], []byte(`"blob"`)) {
			return nil
		}
		var l c14FlipLine
		if err := json.Unmarshal(raw, &l); err != nil {
			return err
		}
		fb := &c14FlipBlob{blob: l.Enc.Blob, cov: l.Enc.Cov}
		var mine []byte
		h.Guard(func() {
			kc := c14New(l.F, c14IdString(l.Enc.Kid, l.F.Ver))
			c14Seal(kc, l.F)
			mine, _ = kc.ToBytes()
		})
		fb.own = bytes.Equal(mine, fb.blob)
		if ok, _ := c14Accepts(append([]byte{}, fb.blob...)); !ok {
			fail := c.Fail
			if !fb.own {
				fail = c.Drift
			}
			fail(c14KC+".CheckIntegrity", "own-blob-rejected", "the untampered blob is not accepted", map[string]interface{}{"cred": string(l.Id)})
		}
		blobs[string(l.Id)] = fb
		return nil
	})
	if err != nil {
		return err
	}
	panics, flips, foreign := 0, 0, 0
	err = c.Lines(func(raw []byte) error {
		if !bytes.Contains(raw[:c14min(len(raw), 20)], []byte(`"flip"`)) {
			return nil
		}
		var l c14FlipLine
		if err := json.Unmarshal(raw, &l); err != nil {
			return err
		}
		fb := blobs[string(l.Id)]
		if fb == nil {
			return fmt.Errorf("flip for unknown blob %s", l.Id)
		}
		if l.O < fb.cov || l.O >= len(fb.blob) {
			return fmt.Errorf("flip offset %d outside the covered range [%d,%d)", l.O, fb.cov, len(fb.blob))
		}
		t := append([]byte{}, fb.blob...)
		t[l.O] ^= 1 << l.Bit
		if int(t[l.O]) != l.Byte {
			return fmt.Errorf("harness and specification disagree on bit %d of byte %d", l.Bit, l.O)
		}
		flips++
		fb.n++
		c.Case(fmt.Sprintf("%s:%d:%d", l.Id, l.O, l.Bit))
		acc, pan := c14Accepts(t)
		c.Exec(1)
		if pan {
			panics++
		}
		if acc {
			smp := map[string]interface{}{"cred": string(l.Id), "blob_hex": h.Hex(fb.blob), "flipped_byte_offset": l.O, "flipped_bit": l.Bit,
				"entry": l.Ent, "part": l.Part}
			aspect := "tamper-accepted:" + l.Ent + ":" + l.Part
			detail := fmt.Sprintf("bit %d of byte %d (%s %s, covered range starts at %d) flipped: CheckIntegrity() still true", l.Bit, l.O, l.Ent, l.Part, fb.cov)
			if fb.own {
				c.Fail(c14KC+".CheckIntegrity", aspect, detail, smp)
			} else {
				foreign++
				c.Drift(c14KC+".CheckIntegrity", aspect+":foreign-encoding", detail, smp)
			}
		}
		return nil
	})
	nown := 0
	for _, fb := range blobs {
		if fb.own {
			nown++
		}
		if fb.n != 8*(len(fb.blob)-fb.cov) {
			return fmt.Errorf("a blob got %d flips, its covered range has %d bits", fb.n, 8*(len(fb.blob)-fb.cov))
		}
	}
	c.Set("blobs", len(blobs))
	c.Set("blobs_written_by_the_code", nown)
	c.Set("flips", flips)
	c.Set("tampered_parses_that_panicked", panics)
	if len(blobs) > 0 {
		for id, fb := range blobs {
			c.Sample(map[string]interface{}{"kind": "flip", "cred": id, "blob_bytes": len(fb.blob), "covered_from": fb.cov, "single_bit_flips": fb.n})
			break
		}
	}
	return err
}

// ---------------------------------------------------------------- c14.hist

type c14HistCred struct {
	Ver     uint32  `json:"ver"`
	Id      h.Bytes `json:"id"`
	Dev     h.Bytes `json:"dev"`
	Last    h.Bytes `json:"last"`
	Created h.Bytes `json:"created"`
}

type c14HistLine struct {
	K     string        `json:"k"`
	Creds []c14HistCred `json:"creds"`
	Keys  []c14Key      `json:"keys"`
	B1    h.Bytes       `json:"B1"`
	B2    h.Bytes       `json:"B2"`
	T1    h.Bytes       `json:"T1"`
	Ops   []struct {
		Op  string  `json:"op"`
		Arg h.Bytes `json:"arg"`
	} `json:"ops"`
	R struct {
		Ok    *bool    `json:"ok"`
		Bytes *h.Bytes `json:"bytes"`
	} `json:"r"`
	Mutated bool `json:"mutated"`
}

func c14Hist(c *h.Ctx) error {
	var defs *c14HistLine
	nhist, maxlen := 0, 0
	method := map[string]string{"tobytes": "ToBytes", "hash": "ComputeKeyHash", "check": "CheckIntegrity", "new1": "NewKeyCredential",
		"new2": "NewKeyCredential", "setusage": "Usage", "from:B1": "FromBytes", "from:B2": "FromBytes", "from:T1": "FromBytes", "from:self": "FromBytes"}
	err := c.Lines(func(raw []byte) error {
		var l c14HistLine
		if err := json.Unmarshal(raw, &l); err != nil {
			return err
		}
		if l.K == "defs" {
			defs = &l
			return nil
		}
		if l.K != "hist" {
			return nil
		}
		if defs == nil {
			return fmt.Errorf("history before defs")
		}
		nhist++
		names := ""
		for _, o := range l.Ops {
			names += o.Op + ";"
		}
		if len(l.Ops) > maxlen {
			maxlen = len(l.Ops)
		}
		c.Case(names)
		var kc *kcl.KeyCredential
		var gotOk *bool
		var gotBytes []byte
		last := l.Ops[len(l.Ops)-1].Op
		p := h.Guard(func() {
			for _, o := range l.Ops {
				gotOk, gotBytes = nil, nil
				switch o.Op {
				case "new1", "new2":
					i := int(o.Op[3] - '1')
					cr := defs.Creds[i]
					f := c14Fields{Ver: cr.Ver, Key: defs.Keys[i], Dev: cr.Dev, Last: cr.Last, Created: cr.Created}
					kc = c14New(f, c14IdString(cr.Id, cr.Ver))
				case "tobytes":
					b, err := kc.ToBytes()
					if err != nil {
						panic("ToBytes error: " + err.Error())
					}
					gotBytes = b
					c.Retain(c14KC+".ToBytes", b, map[string]interface{}{"history": names}) // blobs handed out earlier in this and in other histories stay what they were
				case "hash":
					gotBytes = kc.ComputeKeyHash()
				case "check":
					v := kc.CheckIntegrity()
					gotOk = &v
				case "setusage":
					kc.Usage = key.KeyUsage{Value: key.KeyUsage_FIDO}
				default: // from:*
					if kc == nil {
						kc = &kcl.KeyCredential{}
					}
					src := map[string][]byte{"from:B1": defs.B1, "from:B2": defs.B2, "from:T1": defs.T1, "from:self": o.Arg}[o.Op]
					if err := kc.FromBytes(append([]byte{}, src...)); err != nil {
						panic("FromBytes error: " + err.Error())
					}
				}
			}
		})
		c.Exec(1)
		smp := map[string]interface{}{"history": names}
		site := c14KC + "." + method[last]
		fail := func(site, aspect, detail string) {
			if l.Mutated {
				// D: assigning exported fields after construction is outside "a key credential built from ..."
				c.Drift(site, aspect+":after-field-assignment", detail, smp)
			} else {
				c.Fail(site, aspect, detail, smp)
			}
		}
		switch {
		case p != "":
			fail(site, "history:panic", names+" -> "+p)
		case l.R.Bytes != nil && !bytes.Equal(gotBytes, *l.R.Bytes):
			if last == "tobytes" {
				where := c14FirstDiff(*l.R.Bytes, gotBytes)
				if where == "entry=CustomKeyInformation" {
					fail(site, "reserialise:"+where, names+": ToBytes departs from the specification in "+where)
				} else {
					fail(site, "history:tobytes:"+where, fmt.Sprintf("%s: spec %x code %x", names, []byte(*l.R.Bytes), gotBytes))
				}
			} else {
				fail(site, "history:hash", fmt.Sprintf("%s: spec %x code %x", names, []byte(*l.R.Bytes), gotBytes))
			}
		case l.R.Ok != nil && gotOk != nil && *gotOk != *l.R.Ok:
			fail(site, fmt.Sprintf("history:check-is-%v", *gotOk), fmt.Sprintf("%s: spec %v code %v", names, *l.R.Ok, *gotOk))
		}
		if nhist%1500 == 11 {
			c.Sample(map[string]interface{}{"kind": "history", "ops": names})
		}
		return nil
	})
	c.Set("histories", nhist)
	c.Set("max_history_length", maxlen)
	return err
}

// ---------------------------------------------------------------- c14.record

func c14MinBE(v uint32) []byte {
	var b [4]byte
	binary.BigEndian.PutUint32(b[:], v)
	i := 0
	for i < 4 && b[i] == 0 {
		i++
	}
	return append([]byte{}, b[i:]...)
}

func c14GuidBytes(g guid.GUID) []byte {
	b := make([]byte, 16)
	binary.LittleEndian.PutUint32(b[0:], g.A)
	binary.LittleEndian.PutUint16(b[4:], g.B)
	binary.LittleEndian.PutUint16(b[6:], g.C)
	b[8], b[9] = byte(g.D>>8), byte(g.D)
	for i := 0; i < 6; i++ {
		b[10+i] = byte(g.E >> (8 * uint(5-i)))
	}
	return b
}

func c14LE64(v uint64) []byte { return binary.LittleEndian.AppendUint64(nil, v) }

func c14KeyJSON(exp uint32, mod, p1, p2 []byte, bits uint32) map[string]interface{} {
	return map[string]interface{}{"bits": bits, "exp": h.Bytes(c14MinBE(exp)), "mod": h.Bytes(mod), "p1": h.Bytes(p1), "p2": h.Bytes(p2)}
}

func c14Record(c *h.Ctx) error {
	rng := rand.New(rand.NewSource(int64(c.OptInt("seed", 1))*104729 + 14))
	ncred, ndnb := c.OptInt("creds", 60), c.OptInt("dnbs", 100)
	rb := func(n int) []byte { b := make([]byte, n); rng.Read(b); return b }
	emit := func(o map[string]interface{}) {
		b, err := json.Marshal(o)
		if err != nil {
			panic(err)
		}
		c.Emit(b)
	}
	events := 0
	c.Emit([]byte(`{"op":"reset"}`))
	var lastBlob []byte
	for i := 0; i < ncred; i++ {
		ver := []uint32{0, 0x100, 0x200, 0x200}[rng.Intn(4)]
		mlen := []int{1 + rng.Intn(8), 64, 128, 256, 1 + rng.Intn(300)}[rng.Intn(5)]
		mod := rb(mlen)
		exp := []uint32{3, 65537, 65537, 1 + uint32(rng.Intn(255)), rng.Uint32() | 1, 0x80000000 | rng.Uint32()}[rng.Intn(6)]
		var p1, p2 []byte
		if rng.Intn(10) < 3 {
			p1, p2 = rb(1+rng.Intn(150)), rb(1+rng.Intn(150))
		}
		bits := uint32(8 * mlen)
		if rng.Intn(8) == 0 {
			bits = rng.Uint32() >> 1 // BitLength is whatever the caller says (kept below 2^31 for the judge's integers)
		}
		dev := rb(16)
		tick := func() uint64 {
			switch rng.Intn(4) {
			case 0:
				return 1 + uint64(rng.Intn(1000))
			case 1:
				return 133500000000000000 + uint64(rng.Int63n(1e15))
			}
			v := rng.Uint64()
			if v == 0 {
				v = 1
			}
			return v
		}
		last, created := tick(), tick()
		rk := kcrypto.RSAKeyMaterial{Exponent: exp, Modulus: mod, Prime1: p1, Prime2: p2, KeySize: bits}
		f := map[string]interface{}{"ver": ver, "key": c14KeyJSON(exp, mod, p1, p2, bits), "dev": h.Bytes(dev), "last": h.Bytes(c14LE64(last)),
			"created": h.Bytes(c14LE64(created)), "usage": 1, "source": 0}
		var blob []byte
		p := h.Guard(func() {
			kv := key.KeyCredentialVersion{Value: ver}
			id := kutils.ComputeKeyIdentifier(rk.ToBytes(), kv) // the way a caller derives the identifier
			kc := kcl.NewKeyCredential(kv, id, rk, c14Guid(dev), kutils.DateTime{Ticks: last}, kutils.DateTime{Ticks: created})
			var err error
			if blob, err = kc.ToBytes(); err != nil {
				panic("ToBytes error: " + err.Error())
			}
		})
		c.Case(fmt.Sprintf("cred%d", i))
		if p != "" {
			c.Fail(c14KC+".ToBytes", "error", "random credential: "+p, f)
			continue
		}
		emit(map[string]interface{}{"op": "ser", "f": f, "out": h.Bytes(blob)})
		events++
		lastBlob = blob
		// parse back into a fresh object
		kc2 := &kcl.KeyCredential{}
		var re []byte
		ok := false
		p = h.Guard(func() {
			if err := kc2.FromBytes(append([]byte{}, blob...)); err != nil {
				panic("FromBytes error: " + err.Error())
			}
			var err error
			if re, err = kc2.ToBytes(); err != nil {
				panic("ToBytes error: " + err.Error())
			}
			ok = kc2.CheckIntegrity()
		})
		if p != "" {
			c.Fail(c14KC+".FromBytes", "panic-on-own-blob", "random credential: "+p, f)
		} else {
			var idb []byte
			var derr error
			if ver == 0 || ver == 0x100 {
				idb, derr = hex.DecodeString(kc2.Identifier)
			} else {
				idb, derr = base64.StdEncoding.DecodeString(kc2.Identifier)
			}
			if derr != nil {
				idb = []byte(kc2.Identifier)
			}
			rk2 := kc2.RawKeyMaterial
			g := map[string]interface{}{"ver": kc2.Version.Value, "id": h.Bytes(idb), "kh": h.Bytes(kc2.KeyHash),
				"key":   c14KeyJSON(rk2.Exponent, rk2.Modulus, rk2.Prime1, rk2.Prime2, rk2.KeySize),
				"usage": kc2.Usage.Value, "source": int(kc2.Source), "dev": h.Bytes(c14GuidBytes(kc2.DeviceId)),
				"last": h.Bytes(c14LE64(kc2.LastLogonTime.Ticks)), "created": h.Bytes(c14LE64(kc2.CreationTime.Ticks))}
			emit(map[string]interface{}{"op": "par", "in": h.Bytes(blob), "g": g, "re": h.Bytes(re), "ok": ok})
			events++
		}
		// tamper: 1..3 distinct bit positions anywhere in the blob, twice
		for r := 0; r < 2; r++ {
			t := append([]byte{}, blob...)
			seen := map[int]bool{}
			var flips [][2]int
			for k := 1 + rng.Intn(3); k > 0; k-- {
				o, bit := rng.Intn(len(t)), rng.Intn(8)
				if r == 1 { // bias the second one towards the tail (always covered)
					o = len(t) - 1 - rng.Intn(c14min(len(t), 60))
				}
				if seen[o*8+bit] {
					continue
				}
				seen[o*8+bit] = true
				t[o] ^= 1 << uint(bit)
				flips = append(flips, [2]int{o, bit})
			}
			acc, _ := c14Accepts(t)
			emit(map[string]interface{}{"op": "tam", "in": h.Bytes(blob), "flips": flips, "ok": acc})
			events++
		}
	}
	alpha := []rune("abcDC=,:\\ 019+;<>é漢")
	for i := 0; i < ndnb; i++ {
		n := rng.Intn(40)
		rs := make([]rune, n)
		for j := range rs {
			rs[j] = alpha[rng.Intn(len(alpha))]
		}
		dn := string(rs)
		if i%7 == 0 {
			dn = "CN=user" + fmt.Sprint(i) + ",OU=Users,DC=corp,DC=example"
		}
		var bin []byte
		switch rng.Intn(3) {
		case 0:
			bin = rb(rng.Intn(6))
		case 1:
			bin = rb(rng.Intn(200))
		default:
			bin = lastBlob
		}
		d := kcl.DNWithBinary{DistinguishedName: dn, BinaryData: append([]byte{}, bin...)}
		var s string
		back := kcl.DNWithBinary{}
		var perr error
		p := h.Guard(func() {
			s = d.ToString()
			perr = back.Parse([]byte(s))
		})
		c.Case(fmt.Sprintf("dnb%d", i))
		if p != "" {
			c.Fail(c14DNB+".Parse", "panic", fmt.Sprintf("DN %q: %s", dn, p), map[string]interface{}{"dn": dn})
			continue
		}
		emit(map[string]interface{}{"op": "dnb", "dn": h.Bytes(dn), "bin": h.Bytes(bin), "str": h.Bytes(s), "err": perr != nil,
			"bdn": h.Bytes(back.DistinguishedName), "bbin": h.Bytes(back.BinaryData)})
		events++
	}
	c.Exec(events)
	c.Set("events", events)
	return nil
}
