package drivers

// C19: flag words and constant tables, bound to spec/FlagWords.tla, C19Words.tla, ConstTables.tla,
// TraceConstTables.tla.
//
//   c19.decl    source -> model: enumerates the DECLARED flag constants of every flag-word type from the
//               source files (go/parser + go/types, standard library only) and writes them as a JSON table
//               (bit index, identifier, name) that C19Words.tla reads with JsonDeserialize.
//   c19.words   model -> code: every flag word TLC enumerates (all 8/16-bit words; for 32-bit words the empty
//               word, singles, pairs, complements, all-ones, random) is decomposed by the real code
//               (String()/GetFlags()/FromBytes().Name, 20 calls each) and every niladic bool predicate of
//               the type (found by reflection) is evaluated; compared with the specification's decomposition.
//   c19.tables  code -> model: every constant declared in the source tables is looked up in the COMPILED
//               package (String()/Error()); one {decl}/{obs} event per constant is recorded for TLC
//               (TraceConstTables.tla) to judge: injective names, non-placeholder, non-nil error that
//               mentions the code.

import (
	"encoding/json"
	"fmt"
	"go/ast"
	"go/constant"
	"go/parser"
	"go/token"
	"go/types"
	"os"
	"path/filepath"
	"reflect"
	"sort"
	"strconv"
	"strings"
	"unicode"

	"github.com/TheManticoreProject/Manticore/network/ldap/ldap_attributes"
	"github.com/TheManticoreProject/Manticore/network/netbios"
	"github.com/TheManticoreProject/Manticore/network/smb/smb_v10/capabilities"
	"github.com/TheManticoreProject/Manticore/network/smb/smb_v10/message/commands/codes"
	"github.com/TheManticoreProject/Manticore/network/smb/smb_v10/message/header/flags"
	"github.com/TheManticoreProject/Manticore/network/smb/smb_v10/message/header/flags2"
	"github.com/TheManticoreProject/Manticore/network/smb/smb_v10/securitymode"
	"github.com/TheManticoreProject/Manticore/network/smb/smb_v10/subcommands"
	"github.com/TheManticoreProject/Manticore/windows/keycredential/key"
	"github.com/TheManticoreProject/Manticore/windows/nt_status"
	"verif/harness/h"
)

func init() {
	h.Register("c19.decl", c19Decl)
	h.Register("c19.words", c19Words)
	h.Register("c19.tables", c19Tables)
}

// ---------------------------------------------------------------------------------------------
// source enumeration (go/parser + go/types with a stub importer: constants never depend on imports here)

type srcConst struct {
	Ident string
	File  string
	Val   uint64
	Type  string
}

type srcPkg struct {
	Consts []srcConst             // integer constants in source order (files sorted by name)
	Maps   map[string][]string    // package-level `var X = map[..]..{IDENT: ...}`: key identifiers in order
	MapStr map[string][][2]string // same, (key identifier, string literal value) where the value is a literal
}

type stubImporter struct{}

func (stubImporter) Import(path string) (*types.Package, error) {
	p := types.NewPackage(path, filepath.Base(path))
	p.MarkComplete()
	return p, nil
}

var srcCache = map[string]*srcPkg{}

func loadSrc(repo, rel string) (*srcPkg, error) {
	dir := filepath.Join(repo, rel)
	if p, ok := srcCache[dir]; ok {
		return p, nil
	}
	ents, err := os.ReadDir(dir)
	if err != nil {
		return nil, err
	}
	fset := token.NewFileSet()
	var files []*ast.File
	var names []string
	for _, e := range ents {
		n := e.Name()
		if e.IsDir() || !strings.HasSuffix(n, ".go") || strings.HasSuffix(n, "_test.go") {
			continue
		}
		names = append(names, n)
	}
	sort.Strings(names)
	for _, n := range names {
		f, err := parser.ParseFile(fset, filepath.Join(dir, n), nil, parser.SkipObjectResolution)
		if err != nil {
			return nil, fmt.Errorf("parse %s: %v", n, err)
		}
		files = append(files, f)
	}
	if len(files) == 0 {
		return nil, fmt.Errorf("no go files in %s", dir)
	}
	info := &types.Info{Defs: map[*ast.Ident]types.Object{}}
	conf := types.Config{Importer: stubImporter{}, Error: func(error) {}, DisableUnusedImportCheck: true}
	conf.Check(rel, fset, files, info) // errors about the stubbed imports are expected and irrelevant to constants
	out := &srcPkg{Maps: map[string][]string{}, MapStr: map[string][][2]string{}}
	for i, f := range files {
		for _, d := range f.Decls {
			gd, ok := d.(*ast.GenDecl)
			if !ok {
				continue
			}
			for _, sp := range gd.Specs {
				vs, ok := sp.(*ast.ValueSpec)
				if !ok {
					continue
				}
				if gd.Tok == token.CONST {
					for _, id := range vs.Names {
						c, ok := info.Defs[id].(*types.Const)
						if !ok || c.Val().Kind() != constant.Int {
							continue
						}
						u, exact := constant.Uint64Val(c.Val())
						if !exact {
							continue
						}
						tn := c.Type().String()
						if k := strings.LastIndexByte(tn, '.'); k >= 0 {
							tn = tn[k+1:]
						}
						out.Consts = append(out.Consts, srcConst{Ident: id.Name, File: names[i], Val: u, Type: tn})
					}
				}
				if gd.Tok == token.VAR && len(vs.Names) == 1 && len(vs.Values) == 1 {
					cl, ok := vs.Values[0].(*ast.CompositeLit)
					if !ok {
						continue
					}
					if _, ok := cl.Type.(*ast.MapType); !ok {
						continue
					}
					for _, el := range cl.Elts {
						kv, ok := el.(*ast.KeyValueExpr)
						if !ok {
							continue
						}
						kid, ok := kv.Key.(*ast.Ident)
						if !ok {
							continue
						}
						out.Maps[vs.Names[0].Name] = append(out.Maps[vs.Names[0].Name], kid.Name)
						if bl, ok := kv.Value.(*ast.BasicLit); ok && bl.Kind == token.STRING {
							if s, err := strconv.Unquote(bl.Value); err == nil {
								out.MapStr[vs.Names[0].Name] = append(out.MapStr[vs.Names[0].Name], [2]string{kid.Name, s})
							}
						}
					}
				}
			}
		}
	}
	srcCache[dir] = out
	return out, nil
}

func cpsOf(s string) []int {
	out := []int{}
	for _, r := range s {
		out = append(out, int(r))
	}
	return out
}

// normName: the identity of a flag name irrespective of presentation ("MFA not used" == "MFANotUsed").
func normName(s string) string {
	var b strings.Builder
	for _, r := range s {
		if unicode.IsLetter(r) || unicode.IsDigit(r) {
			b.WriteRune(unicode.ToLower(r))
		}
	}
	return b.String()
}

// ---------------------------------------------------------------------------------------------
// flag-word kinds

type flagKind struct {
	Kind   string
	Dir    string // package directory below the repository root
	File   string
	Prefix string // constant identifier prefix; the flag's NAME is the identifier without it
	MapVar string // if set: the named bits are the keys of this map literal
	Width  int
	Site   string
	// decompose returns what the real code prints for the word (raw text and the list of names)
	Decompose func(w uint32) (string, []string)
	None      string                     // the marker printed for "no named bit set"
	Value     func(w uint32) interface{} // typed value for predicate reflection (nil: none)
	GetFlags  func(w uint32) []uint32
}

func splitPipe(s string) []string {
	if s == "" {
		return []string{}
	}
	return strings.Split(s, "|")
}

var flagKinds = []flagKind{
	{Kind: "flags", Dir: "network/smb/smb_v10/message/header/flags", File: "flags.go", Prefix: "FLAGS_", Width: 16,
		Site: "flags.Flags", None: "NONE",
		Decompose: func(w uint32) (string, []string) { s := flags.Flags(w).String(); return s, splitPipe(s) },
		Value:     func(w uint32) interface{} { return flags.Flags(w) }},
	{Kind: "flags2", Dir: "network/smb/smb_v10/message/header/flags2", File: "flags2.go", Prefix: "FLAGS2_", Width: 16,
		Site: "flags2.Flags2", None: "NONE",
		Decompose: func(w uint32) (string, []string) { s := flags2.Flags2(w).String(); return s, splitPipe(s) },
		Value:     func(w uint32) interface{} { return flags2.Flags2(w) }},
	{Kind: "caps", Dir: "network/smb/smb_v10/capabilities", File: "capabilities.go", Prefix: "", Width: 32,
		Site: "capabilities.Capabilities", None: "NONE",
		Decompose: func(w uint32) (string, []string) { s := capabilities.Capabilities(w).String(); return s, splitPipe(s) },
		Value:     func(w uint32) interface{} { return capabilities.Capabilities(w) }},
	{Kind: "secmode", Dir: "network/smb/smb_v10/securitymode", File: "securitymode.go", Prefix: "NEGOTIATE_", Width: 8,
		Site:  "securitymode.SecurityMode",
		Value: func(w uint32) interface{} { return securitymode.SecurityMode(w) }},
	{Kind: "uac", Dir: "network/ldap/ldap_attributes", File: "UserAccountControl.go", Prefix: "UAF_", MapVar: "UserAccountControlMap",
		Width: 32, Site: "ldap_attributes.UserAccountControl", None: "",
		Decompose: func(w uint32) (string, []string) {
			s := ldap_attributes.UserAccountControl(w).String()
			return s, splitPipe(s)
		},
		Value: func(w uint32) interface{} { return ldap_attributes.UserAccountControl(w) },
		GetFlags: func(w uint32) []uint32 {
			var out []uint32
			for _, f := range ldap_attributes.UserAccountControl(w).GetFlags() {
				out = append(out, uint32(f))
			}
			return out
		}},
	{Kind: "kcflags", Dir: "windows/keycredential/key", File: "CustomKeyInformationFlags.go", Prefix: "CustomKeyInformationFlags_",
		Width: 8, Site: "key.CustomKeyInformationFlags", None: "None",
		Decompose: func(w uint32) (string, []string) {
			var kf key.CustomKeyInformationFlags
			kf.FromBytes(byte(w))
			return strings.Join(kf.Name, "|"), append([]string{}, kf.Name...)
		}},
}

// c19KcReuse: the key-credential flags decoded into ONE long-lived object (as when an application walks a list of
// msDS-KeyCredentialLink values with one CustomKeyInformation): the names must be those a fresh object reports, and the name
// lists handed out for earlier words are values of their own -- a later decode must not change them.
var (
	c19ReusedKF key.CustomKeyInformationFlags
	c19KeptKF   []struct {
		live, copy []string
		word       uint32
	}
)

func c19KcReuse(c *h.Ctx, w uint32, fresh []string, sample interface{}) {
	c19ReusedKF.FromBytes(byte(w))
	c.Exec(1)
	site := "key.CustomKeyInformationFlags.FromBytes"
	if strings.Join(c19ReusedKF.Name, "|") != strings.Join(fresh, "|") {
		c.Fail(site, "reused-object", fmt.Sprintf("word %#x decoded into an object that held another word: %q, into a fresh object: %q", w, c19ReusedKF.Name, fresh), sample)
	}
	for _, k := range c19KeptKF {
		if strings.Join(k.live, "|") != strings.Join(k.copy, "|") {
			c.Fail(site, "result-changed-by-later-decode", fmt.Sprintf("the names handed out for word %#x were %q and read %q after word %#x was decoded into the same object", k.word, k.copy, k.live, w), sample)
			break
		}
	}
	c19KeptKF = append(c19KeptKF, struct {
		live, copy []string
		word       uint32
	}{c19ReusedKF.Name, append([]string(nil), c19ReusedKF.Name...), w})
	if len(c19KeptKF) > 4 {
		c19KeptKF = c19KeptKF[1:]
	}
}

func kindByName(k string) *flagKind {
	for i := range flagKinds {
		if flagKinds[i].Kind == k {
			return &flagKinds[i]
		}
	}
	return nil
}

type declEntry struct {
	Bit   int    `json:"bit"`
	Ident string `json:"ident"`
	Name  string `json:"name"`
	Cp    []int  `json:"cp"`
}

func declTable(repo string, fk *flagKind) ([]declEntry, []string, error) {
	sp, err := loadSrc(repo, fk.Dir)
	if err != nil {
		return nil, nil, err
	}
	var inMap map[string]bool
	if fk.MapVar != "" {
		keys, ok := sp.Maps[fk.MapVar]
		if !ok {
			return nil, nil, fmt.Errorf("%s: map literal %s not found in source", fk.Kind, fk.MapVar)
		}
		inMap = map[string]bool{}
		for _, k := range keys {
			inMap[k] = true
		}
	}
	var out []declEntry
	var skipped []string
	for _, c := range sp.Consts {
		if c.File != fk.File || !strings.HasPrefix(c.Ident, fk.Prefix) {
			continue
		}
		if inMap != nil && !inMap[c.Ident] {
			continue
		}
		if c.Val == 0 {
			continue // the "no flag" constant is not a bit
		}
		if c.Val&(c.Val-1) != 0 || c.Val >= 1<<32 {
			skipped = append(skipped, c.Ident) // a mask, not a single bit
			continue
		}
		bit := 0
		for c.Val>>uint(bit) != 1 {
			bit++
		}
		name := strings.TrimPrefix(c.Ident, fk.Prefix)
		out = append(out, declEntry{Bit: bit, Ident: c.Ident, Name: name, Cp: cpsOf(name)})
	}
	if len(out) == 0 {
		return nil, nil, fmt.Errorf("%s: no flag constants with prefix %q found in %s/%s", fk.Kind, fk.Prefix, fk.Dir, fk.File)
	}
	return out, skipped, nil
}

// c19.decl: writes {kind: [entries]} to opts[out]
func c19Decl(c *h.Ctx) error {
	repo := c.Opt("repo", "/repo")
	all := map[string][]declEntry{}
	n := 0
	for i := range flagKinds {
		fk := &flagKinds[i]
		es, skipped, err := declTable(repo, fk)
		if err != nil {
			return err
		}
		all[fk.Kind] = es
		n += len(es)
		if len(skipped) > 0 {
			c.Set("not_single_bit_"+fk.Kind, skipped)
		}
	}
	b, _ := json.Marshal(all)
	if err := os.WriteFile(c.Opt("out", c.In+".decl.json"), b, 0o644); err != nil {
		return err
	}
	c.Set("declared_flag_constants", n)
	return nil
}

// ---------------------------------------------------------------------------------------------
// c19.words: replay of the flag words TLC enumerated

type wordCase struct {
	K       string   `json:"k"`
	Kind    string   `json:"kind"`
	W       int64    `json:"w"`
	Bits    []int    `json:"bits"`
	Names   []string `json:"names"`
	Gf      []int    `json:"gf"`
	P       []bool   `json:"p"`
	Preds   []string `json:"preds"`
	Unbound []string `json:"unbound"`
	// table difference record (k = "tablediff")
	Diffs []struct {
		Bit  int      `json:"bit"`
		Std  []string `json:"std"`
		Decl []string `json:"decl"`
	} `json:"diffs"`
}

const c19Repeat = 20

func boolMethods(v interface{}) map[string]int {
	out := map[string]int{}
	t := reflect.TypeOf(v)
	for i := 0; i < t.NumMethod(); i++ {
		m := t.Method(i)
		if m.Type.NumIn() == 1 && m.Type.NumOut() == 1 && m.Type.Out(0).Kind() == reflect.Bool {
			out[m.Name] = i
		}
	}
	return out
}

func callBool(v interface{}, idx int) bool {
	return reflect.ValueOf(v).Method(idx).Call(nil)[0].Bool()
}

func c19Words(cc *h.Ctx) error {
	c := &onceCtx{cc, map[string]int{}}
	hdr := map[string][]string{}
	// pass 1: headers (the predicate order of each kind)
	if err := c.Lines(func(raw []byte) error {
		if !strings.Contains(string(raw[:min(len(raw), 40)]), `"hdr"`) {
			return nil
		}
		var k wordCase
		if err := json.Unmarshal(raw, &k); err != nil {
			return err
		}
		if k.K == "hdr" {
			hdr[k.Kind] = k.Preds
			if fk := kindByName(k.Kind); fk != nil {
				for _, u := range k.Unbound {
					c.Drift(fk.Site+"."+u, "predicate-bit-not-declared", "the own bit FlagWords!FwPredTable names for this predicate is not among the declared constants", nil)
				}
			}
		}
		return nil
	}); err != nil {
		return err
	}
	perKind := map[string]int{}
	exhaustive := map[string]map[uint32]bool{}
	err := c.Lines(func(raw []byte) error {
		var k wordCase
		if err := json.Unmarshal(raw, &k); err != nil {
			return err
		}
		switch k.K {
		case "hdr":
			return nil
		case "tablediff":
			fk := kindByName(k.Kind)
			if fk == nil {
				return fmt.Errorf("unknown kind %q", k.Kind)
			}
			c.Case("")
			var parts []string
			for _, d := range k.Diffs {
				parts = append(parts, fmt.Sprintf("bit %d: standard %v, declared %v", d.Bit, d.Std, d.Decl))
			}
			c.Drift(fk.Site, "declared-bits-differ-from-standard", strings.Join(parts, "; "),
				map[string]interface{}{"kind": k.Kind, "diffs": k.Diffs})
			return nil
		case "word":
		default:
			return fmt.Errorf("unknown case kind %q", k.K)
		}
		fk := kindByName(k.Kind)
		if fk == nil {
			return fmt.Errorf("unknown kind %q", k.Kind)
		}
		var w uint32
		if k.W >= 0 {
			w = uint32(k.W)
		} else {
			for _, b := range k.Bits {
				w |= 1 << uint(b)
			}
		}
		perKind[k.Kind]++
		if fk.Width <= 16 {
			if exhaustive[k.Kind] == nil {
				exhaustive[k.Kind] = map[uint32]bool{}
			}
			exhaustive[k.Kind][w] = true
		}
		key := ""
		if w != 0 {
			key = fmt.Sprintf("%s:%08x", k.Kind, w)
		}
		c.Case(key)
		sample := map[string]interface{}{"kind": k.Kind, "word": fmt.Sprintf("0x%08x", w), "spec_names": k.Names}
		if perKind[k.Kind] == 7 {
			c.Sample(sample)
		}
		// ---- decomposition into names
		if fk.Decompose != nil {
			site := fk.Site + ".String"
			if fk.Kind == "kcflags" {
				site = fk.Site + ".FromBytes"
			}
			first, names := fk.Decompose(w)
			if fk.Kind == "kcflags" {
				c19KcReuse(c.Ctx, w, names, sample)
			}
			for i := 1; i < c19Repeat; i++ {
				again, _ := fk.Decompose(w)
				if again != first {
					c.Fail(site, "nondeterministic", fmt.Sprintf("word %#x printed %q and then %q", w, first, again), sample)
					break
				}
			}
			c.Exec(c19Repeat)
			if len(names) == 1 && (names[0] == fk.None || names[0] == "") {
				if len(k.Names) == 0 && names[0] != fk.None {
					c.Drift(site, "none-marker", fmt.Sprintf("word %#x printed %q, not %q", w, names[0], fk.None), sample)
				}
				names = nil
			}
			got := map[string]int{}
			for _, n := range names {
				got[normName(n)]++
			}
			want := map[string]string{}
			for _, n := range k.Names {
				want[normName(n)] = n
			}
			for _, n := range names {
				if got[normName(n)] > 1 {
					c.Fail(site, "duplicate-name:"+n, fmt.Sprintf("word %#x printed %q", w, first), sample)
				}
				if _, ok := want[normName(n)]; !ok {
					c.Fail(site, "unexpected-name:"+n, fmt.Sprintf("word %#x printed %q; the declared bit of %s is not set (spec: %v)", w, first, n, k.Names), sample)
				}
			}
			for nn, n := range want {
				if got[nn] == 0 {
					c.Fail(site, "missing-name:"+n, fmt.Sprintf("word %#x printed %q; declared bit %s is set (spec: %v)", w, first, n, k.Names), sample)
				}
			}
			if len(names) == len(k.Names) {
				for i := range names {
					if normName(names[i]) != normName(k.Names[i]) {
						c.Drift(site, "order", fmt.Sprintf("word %#x printed %q, the specification orders the names %v", w, first, k.Names), sample)
						break
					}
				}
			}
		}
		// ---- GetFlags
		if fk.GetFlags != nil {
			site := fk.Site + ".GetFlags"
			first := fk.GetFlags(w)
			for i := 1; i < c19Repeat; i++ {
				if again := fk.GetFlags(w); !reflect.DeepEqual(again, first) {
					c.Fail(site, "nondeterministic", fmt.Sprintf("word %#x gave %v and then %v", w, first, again), sample)
					break
				}
			}
			c.Exec(c19Repeat)
			seen := map[int]int{}
			var gotBits []int
			for _, f := range first {
				if f == 0 || f&(f-1) != 0 {
					c.Fail(site, "not-a-single-bit", fmt.Sprintf("word %#x: element %#x", w, f), sample)
					continue
				}
				b := 0
				for f>>uint(b) != 1 {
					b++
				}
				seen[b]++
				gotBits = append(gotBits, b)
			}
			wantBits := map[int]bool{}
			for _, b := range k.Gf {
				wantBits[b] = true
				if seen[b] == 0 {
					c.Fail(site, fmt.Sprintf("missing-flag:bit%d", b), fmt.Sprintf("word %#x gave %v", w, first), sample)
				}
			}
			for b, n := range seen {
				if !wantBits[b] {
					c.Fail(site, fmt.Sprintf("unexpected-flag:bit%d", b), fmt.Sprintf("word %#x gave %v", w, first), sample)
				}
				if n > 1 {
					c.Fail(site, fmt.Sprintf("duplicate-flag:bit%d", b), fmt.Sprintf("word %#x gave %v", w, first), sample)
				}
			}
			if len(gotBits) == len(k.Gf) && !reflect.DeepEqual(gotBits, append([]int{}, k.Gf...)) && len(k.Gf) > 0 {
				c.Drift(site, "order", fmt.Sprintf("word %#x gave bits %v, the specification orders them %v", w, gotBits, k.Gf), sample)
			}
		}
		// ---- predicates named by the specification
		if fk.Value != nil && len(hdr[k.Kind]) > 0 {
			v := fk.Value(w)
			ms := boolMethods(v)
			for i, pn := range hdr[k.Kind] {
				idx, ok := ms[pn]
				if !ok {
					if perKind[k.Kind] == 1 {
						c.Drift(fk.Site+"."+pn, "predicate-missing", "the specification names a predicate the type does not have", nil)
					}
					continue
				}
				got := callBool(v, idx)
				c.Exec(1)
				if i < len(k.P) && got != k.P[i] {
					c.Fail(fk.Site+"."+pn, "own-bit", fmt.Sprintf("word %#x: %s() = %v, its own bit says %v", w, pn, got, k.P[i]), sample)
				}
			}
		}
		return nil
	})
	if err != nil {
		return err
	}
	// ---- predicates the specification does not name: each must still be a function of ONE bit
	for i := range flagKinds {
		fk := &flagKinds[i]
		if fk.Value == nil || fk.Width > 16 || len(exhaustive[fk.Kind]) != 1<<uint(fk.Width) {
			continue
		}
		known := map[string]bool{}
		for _, p := range hdr[fk.Kind] {
			known[p] = true
		}
		ms := boolMethods(fk.Value(0))
		var names []string
		for n := range ms {
			names = append(names, n)
		}
		sort.Strings(names)
		for _, n := range names {
			if known[n] {
				continue
			}
			idx := ms[n]
			tt := make([]bool, 1<<uint(fk.Width))
			for w := range tt {
				tt[w] = callBool(fk.Value(uint32(w)), idx)
			}
			c.Exec(len(tt))
			found := false
			for b := 0; b < fk.Width && !found; b++ {
				for _, neg := range []bool{false, true} {
					ok := true
					for w := range tt {
						if tt[w] != ((w>>uint(b)&1 == 1) != neg) {
							ok = false
							break
						}
					}
					if ok {
						found = true
						break
					}
				}
			}
			c.Drift(fk.Site+"."+n, "predicate-not-in-spec", "predicate found by reflection is not bound to a bit in FlagWords!PredTable", nil)
			if !found {
				c.Fail(fk.Site+"."+n, "depends-on-other-bits", "over all words the predicate is not a function of any single bit", nil)
			}
		}
	}
	c.Set("words_per_kind", perKind)
	c.Set("drift_counts", c.seen)
	return nil
}

// ---------------------------------------------------------------------------------------------
// c19.tables: declared constants looked up in the compiled package, recorded for TLC

type constTable struct {
	T      string // table id
	Dir    string
	File   string
	Prefix string
	Site   string
	Conv   bool // the table's convention is "name = identifier without the prefix"
	Whole  bool // ... or the whole identifier
	Bits   int  // width of the value type
	Name   func(v uint64) string
	Err    func(v uint64) (bool, string) // (is nil, text)
}

var constTables = []constTable{
	{T: "nt_status", Dir: "windows/nt_status", File: "nt_status.go", Prefix: "NT_STATUS_", Site: "nt_status.NT_STATUS", Conv: true, Bits: 32,
		Name: func(v uint64) string { return nt_status.NT_STATUS(v).String() },
		Err: func(v uint64) (bool, string) {
			e := nt_status.NT_STATUS(v).Error()
			if e == nil {
				return true, ""
			}
			return false, e.Error()
		}},
	{T: "command_codes", Dir: "network/smb/smb_v10/message/commands/codes", File: "codes.go", Prefix: "SMB_COM_", Site: "codes.CommandCode", Conv: true, Bits: 8,
		Name: func(v uint64) string { return codes.CommandCode(v).String() }},
	{T: "nt_transact", Dir: "network/smb/smb_v10/subcommands", File: "nt_transact_subcommands.go", Prefix: "NT_TRANSACT_", Site: "subcommands.NtTransactSubcommand", Conv: true, Bits: 16,
		Name: func(v uint64) string { return subcommands.NtTransactSubcommand(v).String() }},
	{T: "transaction2", Dir: "network/smb/smb_v10/subcommands", File: "transaction2_subcommands.go", Prefix: "TRANS2_", Site: "subcommands.Transaction2Subcommand", Conv: true, Bits: 16,
		Name: func(v uint64) string { return subcommands.Transaction2Subcommand(v).String() }},
	{T: "transaction", Dir: "network/smb/smb_v10/subcommands", File: "transaction_subcommands.go", Prefix: "TRANS_", Site: "subcommands.TransactionSubcommand", Conv: true, Bits: 16,
		Name: func(v uint64) string { return subcommands.TransactionSubcommand(v).String() }},
	{T: "session_message", Dir: "network/netbios", File: "session.go", Prefix: "SESSION_", Site: "netbios.SESSION_MESSAGE_TYPE", Conv: true, Whole: true, Bits: 8,
		Name: func(v uint64) string { return netbios.SESSION_MESSAGE_TYPE(v).String() }},
	{T: "sam_account_type", Dir: "network/ldap/ldap_attributes", File: "sAMAccountType.go", Prefix: "SAM_", Site: "ldap_attributes.SAMAccountType", Conv: true, Bits: 32,
		Name: func(v uint64) string { return ldap_attributes.SAMAccountType(v).String() }},
	{T: "domain_functionality_level", Dir: "network/ldap/ldap_attributes", File: "domain_functionnality_level.go", Prefix: "DOMAIN_FUNCTIONALITY_LEVEL_", Site: "ldap_attributes.DomainFunctionalityLevel", Bits: 8,
		Name: func(v uint64) string { return ldap_attributes.DomainFunctionalityLevel(v).String() }},
	{T: "mspki_enrollment_flag", Dir: "network/ldap/ldap_attributes", File: "msPKI-Enrollment-Flag.go", Prefix: "MSPKI_ENROLLMENT_FLAG_", Site: "ldap_attributes.MSPKIEnrollmentFlag", Bits: 32,
		Name: func(v uint64) string { return ldap_attributes.MSPKIEnrollmentFlag(v).String() }},
	{T: "password_properties", Dir: "network/ldap/ldap_attributes", File: "pwdProperties.go", Prefix: "PASSWORD_PROPERTY_", Site: "ldap_attributes.PasswordProperties", Conv: true, Bits: 32,
		Name: func(v uint64) string { return ldap_attributes.PasswordProperties(v).String() }},
	{T: "key_usage", Dir: "windows/keycredential/key", File: "KeyUsage.go", Prefix: "KeyUsage_", Site: "key.KeyUsage", Bits: 8,
		Name: func(v uint64) string { var k key.KeyUsage; k.FromBytes(byte(v)); return k.String() }},
	{T: "key_source", Dir: "windows/keycredential/key", File: "KeySource.go", Prefix: "KeySource_", Site: "key.KeySource", Bits: 16,
		Name: func(v uint64) string { return key.KeySource(v).String() }},
	{T: "key_credential_entry_type", Dir: "windows/keycredential/key", File: "KeyCredentialEntryType.go", Prefix: "KeyCredentialEntryType_", Site: "key.KeyCredentialEntryType", Conv: true, Bits: 8,
		Name: func(v uint64) string { var k key.KeyCredentialEntryType; k.FromBytes(byte(v)); return k.String() }},
	{T: "key_credential_version", Dir: "windows/keycredential/key", File: "KeyCredentialVersion.go", Prefix: "KeyCredentialVersion_", Site: "key.KeyCredentialVersion", Bits: 32,
		Name: func(v uint64) string {
			var k key.KeyCredentialVersion
			k.FromBytes([]byte{byte(v), byte(v >> 8), byte(v >> 16), byte(v >> 24)})
			return k.String()
		}},
	{T: "custom_key_information_volume_type", Dir: "windows/keycredential/key", File: "CustomKeyInformationVolumeType.go", Prefix: "CustomKeyInformationVolumeType_", Site: "key.CustomKeyInformationVolumeType", Bits: 8,
		Name: func(v uint64) string {
			var k key.CustomKeyInformationVolumeType
			k.FromBytes(byte(v))
			return k.String()
		}},
	{T: "key_strength", Dir: "windows/keycredential/key", File: "KeyStrength.go", Prefix: "KeyStrength_", Site: "key.KeyStrength", Conv: true, Bits: 32,
		Name: func(v uint64) string {
			var k key.KeyStrength
			k.FromBytes([]byte{byte(v), byte(v >> 8), byte(v >> 16), byte(v >> 24)})
			return k.Name
		}},
}

func nibbles(v uint64) []int {
	out := make([]int, 8)
	for i := 0; i < 8; i++ {
		out[i] = int(v>>uint(28-4*i)) & 15
	}
	return out
}

// fallbackOf learns what the table prints for a value that is NOT declared (two probes); if the text embeds the
// value, the learnt template is instantiated for v.
func fallbackOf(ct *constTable, declared map[uint64]bool) func(v uint64) string {
	max := uint64(1)<<uint(ct.Bits) - 1
	var probes []uint64
	for u := max - 4; u > 0 && len(probes) < 2; u -= 7 {
		if !declared[u] {
			probes = append(probes, u)
		}
	}
	f1, f2 := ct.Name(probes[0]), ct.Name(probes[1])
	if f1 == f2 {
		return func(uint64) string { return f1 }
	}
	for _, fm := range []string{"%d", "%x", "%X", "0x%x", "0x%08x", "0x%08X"} {
		t := strings.Replace(f1, fmt.Sprintf(fm, probes[0]), "\x00", 1)
		if t != f1 && strings.Replace(t, "\x00", fmt.Sprintf(fm, probes[1]), 1) == f2 {
			return func(v uint64) string { return strings.Replace(t, "\x00", fmt.Sprintf(fm, v), 1) }
		}
	}
	return func(v uint64) string { return "\x00unlearnable-fallback" }
}

func c19Tables(c *h.Ctx) error {
	repo := c.Opt("repo", "/repo")
	only := c.Opt("only", "")
	enc := func(m map[string]interface{}) {
		b, _ := json.Marshal(m)
		c.Emit(b)
	}
	counts := map[string]int{}
	for i := range constTables {
		ct := &constTables[i]
		if only != "" && only != ct.T {
			continue
		}
		sp, err := loadSrc(repo, ct.Dir)
		if err != nil {
			return err
		}
		var cs []srcConst
		declared := map[uint64]bool{}
		for _, k := range sp.Consts {
			if k.File == ct.File && strings.HasPrefix(k.Ident, ct.Prefix) && k.Val < 1<<32 {
				cs = append(cs, k)
				declared[k.Val] = true
			}
		}
		if len(cs) == 0 {
			return fmt.Errorf("table %s: no constants with prefix %q in %s/%s", ct.T, ct.Prefix, ct.Dir, ct.File)
		}
		fb := fallbackOf(ct, declared)
		enc(map[string]interface{}{"op": "begin", "t": ct.T, "site": ct.Site, "conv": ct.Conv, "haserr": ct.Err != nil})
		short := func(id string) string {
			if ct.Whole {
				return id
			}
			return strings.TrimPrefix(id, ct.Prefix)
		}
		for _, k := range cs {
			enc(map[string]interface{}{"op": "decl", "t": ct.T, "c": k.Ident, "short": short(k.Ident), "v": nibbles(k.Val)})
		}
		for _, k := range cs {
			c.Case(ct.T + ":" + k.Ident)
			name := ct.Name(k.Val)
			c.Exec(1)
			ev := map[string]interface{}{"op": "obs", "t": ct.T, "c": k.Ident, "short": short(k.Ident), "v": nibbles(k.Val),
				"name": name, "fb": fb(k.Val), "errnil": true, "err": []int{}}
			if ct.Err != nil {
				isNil, text := ct.Err(k.Val)
				c.Exec(1)
				ev["errnil"] = isNil
				ev["err"] = cpsOf(text)
			}
			enc(ev)
			if counts[ct.T] == 3 {
				c.Sample(map[string]interface{}{"table": ct.T, "const": k.Ident, "value": fmt.Sprintf("0x%08x", k.Val), "name": name})
			}
			counts[ct.T]++
		}
		enc(map[string]interface{}{"op": "end", "t": ct.T, "n": len(cs)})
	}
	c.Set("constants_per_table", counts)
	return nil
}
