//go:build verif

// Growth G08 (drift only): the Active Directory schema tables of network/ldap/schema as relations.
//
//   g08.tables  code -> model: the rows of the five package-level tables (attribute display name <-> schemaIDGUID,
//               property set <-> rightsGuid, property set -> member attributes) are written in sorted order as "row"
//               events; TLC (TraceSchemaTables.tla) walks them through SchemaTables.tla and judges every row.
//               opts: doctor=<name> writes one deliberately wrong row (binding demonstration).
package drivers

import (
	"encoding/json"
	"sort"

	"github.com/TheManticoreProject/Manticore/network/ldap/schema"
	"verif/harness/h"
)

func init() { h.Register("g08.tables", g08Tables) }

func g08Tables(c *h.Ctx) error {
	n := 0
	row := func(t, k, v, guidText string) {
		cp := []int{}
		for _, r := range guidText {
			cp = append(cp, int(r))
		}
		b, _ := json.Marshal(map[string]interface{}{"op": "row", "t": t, "k": k, "v": v, "cp": cp})
		c.Emit(b)
		n++
	}
	keys := func(m map[string]string) []string {
		ks := make([]string, 0, len(m))
		for k := range m {
			ks = append(ks, k)
		}
		sort.Strings(ks)
		return ks
	}
	doctor := c.Opt("doctor", "")
	for _, k := range keys(schema.SchemaAttributeDisplayNameToGUID) {
		v := schema.SchemaAttributeDisplayNameToGUID[k]
		if doctor == "attr-guid-upper" && k == "member" {
			v = "BF9679C0-0DE6-11D0-A285-00AA003049E2"
		}
		row("attr", k, v, v)
	}
	for _, k := range keys(schema.GUIDToSchemaAttributeDisplayName) {
		v := schema.GUIDToSchemaAttributeDisplayName[k]
		if doctor == "inverse-wrong-name" && v == "member" {
			v = "is-member-of-dl"
		}
		row("attrinv", k, v, k)
	}
	for _, k := range keys(schema.PropertySetToGUID) {
		v := schema.PropertySetToGUID[k]
		row("pset", k, v, v)
	}
	for _, k := range keys(schema.GUIDToPropertySet) {
		row("psetinv", k, schema.GUIDToPropertySet[k], k)
	}
	sets := make([]string, 0, len(schema.PropertySetToAttributeDisplayNames))
	for k := range schema.PropertySetToAttributeDisplayNames {
		sets = append(sets, k)
	}
	sort.Strings(sets)
	for _, g := range sets {
		for _, a := range schema.PropertySetToAttributeDisplayNames[g] {
			row("member", g, a, g)
		}
		if doctor == "member-unknown" && g == schema.PROPERTY_SET_GROUP_MEMBERSHIP {
			row("member", g, "no-such-attribute", g)
		}
	}
	b, _ := json.Marshal(map[string]interface{}{"op": "end", "n": n})
	c.Emit(b)
	c.Case("schema-tables")
	c.Exec(n)
	c.Set("rows", n)
	c.Set("attributes", len(schema.SchemaAttributeDisplayNameToGUID))
	c.Set("property_sets", len(schema.PropertySetToGUID))
	return nil
}
