package drivers

// C17: the NBNS name table (network/netbios/nbtns/nbtns.go) bound to spec/NameTable.tla.
//
//   c17.graph  model -> code: every (state, operation) edge of TLC's complete state graph is
//              executed on a real NetBIOSNameServer (path from Init, then the edge), comparing the
//              return value and the whole projected table after EVERY step, and re-checking every
//              slice a Query handed out earlier (aliasing).
//   c17.conc   code -> model: goroutines issue random calls against one table; the under-lock hook
//              stamps each call with its linearisation order and the post-state; the trace is written
//              for TLC (TraceNameTable.tla) to validate.

import (
	"bytes"
	"encoding/json"
	"fmt"
	"math/rand"
	"net"
	"runtime"
	"sort"
	"strconv"
	"sync"
	"sync/atomic"
	"time"

	"github.com/TheManticoreProject/Manticore/network/netbios/nbtns"
	"verif/harness/h"
)

func init() {
	h.Register("c17.graph", c17Graph)
	h.Register("c17.conc", c17Conc)
}

type ntRec struct {
	P  bool     `json:"p"`
	T  string   `json:"t"`
	St string   `json:"st"`
	Ow []string `json:"ow"`
	Ex bool     `json:"ex"`
	Rx bool     `json:"rx"`
}

type ntRes struct {
	Err bool     `json:"err"`
	Ow  []string `json:"ow"`
	T   string   `json:"t"`
}

type ntEdge struct {
	F  json.RawMessage `json:"f"`
	Op string          `json:"op"`
	N  string          `json:"n"`
	T  string          `json:"t"`
	A  string          `json:"a"`
	E  bool            `json:"e"`
	R  ntRes           `json:"r"`
	To json.RawMessage `json:"to"`
}

type ntOp struct {
	op, n, t, a string
	e           bool
	r           ntRes
	from, to    int
}

func addrOf(tag string) net.IP {
	if len(tag) < 2 {
		return nil
	}
	k, _ := strconv.Atoi(tag[1:])
	// one address, two spellings: net.IP holds an IPv4 address in 4 or in 16 bytes (what net.ParseIP / net.IPv4 give, and what
	// a handler gets from the wire with To4()); an owner is an ADDRESS, so the spelling changes from call to call
	if (int64(k)+atomic.AddInt64(&ntSpellTurn, 1))%2 == 0 {
		return net.IP{10, 0, 0, byte(k)} // 4-byte form
	}
	return net.IPv4(10, 0, 0, byte(k)) // 16-byte form
}

var ntSpellTurn int64

func tagOf(ip net.IP) string {
	v4 := ip.To4()
	if v4 == nil || v4[0] != 10 {
		return "?" + ip.String()
	}
	return "a" + strconv.Itoa(int(v4[3]))
}

func ntProject(snap map[string]nbtns.VerifRecord, names []string) map[string]ntRec {
	out := map[string]ntRec{}
	for _, n := range names {
		r, ok := snap[n]
		if !ok {
			out[n] = ntRec{P: false, T: "U", St: "A", Ow: []string{}}
			continue
		}
		pr := ntRec{P: true, T: "U", St: "A", Ow: []string{}, Ex: r.Expired, Rx: r.RefreshNegative}
		if r.Type == nbtns.Group {
			pr.T = "G"
		}
		if r.Status != nbtns.Active {
			pr.St = "C"
		}
		for _, ip := range r.Owners {
			pr.Ow = append(pr.Ow, tagOf(ip))
		}
		out[n] = pr
	}
	for n := range snap {
		if _, ok := out[n]; !ok {
			out[n] = ntRec{P: true, T: "?unexpected-name"}
		}
	}
	return out
}

func ntEqual(a, b map[string]ntRec) bool {
	if len(a) != len(b) {
		return false
	}
	for k, x := range a {
		y, ok := b[k]
		if !ok || x.P != y.P {
			return false
		}
		if !x.P {
			continue
		}
		if x.T != y.T || x.St != y.St || x.Ex != y.Ex || x.Rx != y.Rx || len(x.Ow) != len(y.Ow) {
			return false
		}
		for i := range x.Ow {
			if x.Ow[i] != y.Ow[i] {
				return false
			}
		}
	}
	return true
}

var ntTTLTurn int64

// c17SpecialTTLs: a query result is a slice of the caller's own whatever lifetime the record was registered with -- in
// particular with the ttl values a standard singles out (RFC 1002 4.2.1.3: a TTL of 0 means an infinite lifetime) and the
// extremes of the type.  No expiry is involved (QueryName does not look at the clock), so the histories are exact.
func c17SpecialTTLs(c *h.Ctx) {
	addr := func(i int) net.IP { return net.IPv4(10, 9, 0, byte(i)).To4() }
	for _, ttl := range []time.Duration{0, 1, -1, time.Second, 1<<63 - 1, -(1 << 63)} {
		for owners := 1; owners <= 3; owners++ {
			tb := nbtns.NewNetBIOSNameServer(false)
			ty := nbtns.Group
			if owners == 1 {
				ty = nbtns.Unique
			}
			for i := 1; i <= owners; i++ {
				tb.RegisterName("SPECIAL", ty, addr(i), ttl)
			}
			c.Case(fmt.Sprintf("special-ttl:%d:%d", int64(ttl), owners))
			smp := map[string]interface{}{"ttl_ns": int64(ttl), "owners": owners}
			r, _, err := tb.QueryName("SPECIAL")
			c.Exec(1)
			if err != nil || len(r) != owners {
				c.Drift("nbtns.NetBIOSNameServer.query", "special-ttl:not-found", fmt.Sprintf("ttl %d: %d owners registered, query gives %v %v", int64(ttl), owners, r, err), smp)
				continue
			}
			before := fmt.Sprint(r)
			// (1) later table updates do not change the result
			if owners > 1 {
				tb.ReleaseName("SPECIAL", addr(1))
			} else {
				tb.RefreshName("SPECIAL", addr(1))
			}
			tb.RegisterName("SPECIAL", ty, addr(9), ttl)
			c.Exec(2)
			if now := fmt.Sprint(r); now != before {
				c.Fail("nbtns.NetBIOSNameServer.query", "snapshot-changed", fmt.Sprintf("registered with ttl %d ns: the slice returned read %s, after a release and a registration it reads %s", int64(ttl), before, now), smp)
				continue
			}
			// (2) the caller's writes into its result do not reach the table
			want, _, _ := tb.QueryName("SPECIAL")
			wantText := fmt.Sprint(want)
			r2, _, _ := tb.QueryName("SPECIAL")
			for i := range r2 {
				r2[i] = net.IPv4(66, 66, 66, 66).To4()
			}
			got, _, _ := tb.QueryName("SPECIAL")
			c.Exec(3)
			if fmt.Sprint(got) != wantText {
				c.Fail("nbtns.NetBIOSNameServer.query", "result-is-table-storage", fmt.Sprintf("registered with ttl %d ns: after the caller overwrote the slice it had been given, the owners read %v (were %s)", int64(ttl), got, wantText), smp)
			}
		}
	}
}

// c17ExpiryOverTime: expiry is a matter of the clock alone. A record that was alive at one sweep and whose lifetime ends
// afterwards is removed by the NEXT sweep, whether or not anything else happened to the table in between (the two ttl classes
// of the graph are decided at registration; here the class changes while the record sits in the table).
func c17ExpiryOverTime(c *h.Ctx) {
	a, b := net.IPv4(10, 8, 0, 1).To4(), net.IPv4(10, 8, 0, 2).To4()
	for _, ty := range []nbtns.NameType{nbtns.Unique, nbtns.Group} {
		for _, between := range []string{"nothing", "query", "other-name-refreshed"} {
			tb := nbtns.NewNetBIOSNameServer(false)
			c.Case(fmt.Sprintf("expiry-over-time:%d:%s", ty, between))
			smp := map[string]interface{}{"type": fmt.Sprint(ty), "between_the_sweeps": between}
			tb.RegisterName("OTHER", nbtns.Unique, b, time.Hour)
			start := time.Now()
			tb.RegisterName("SHORT", ty, a, 250*time.Millisecond)
			tb.CleanExpiredNames() // first sweep: the record is (normally) still alive
			_, _, e1 := tb.QueryName("SHORT")
			alive := e1 == nil && time.Since(start) < 200*time.Millisecond
			switch between {
			case "query":
				tb.QueryName("SHORT")
			case "other-name-refreshed":
				// (done after the lifetime has ended, below)
			}
			time.Sleep(500*time.Millisecond - time.Since(start))
			if between == "other-name-refreshed" {
				tb.RefreshName("OTHER", b)
			}
			tb.CleanExpiredNames() // second sweep: the lifetime ended 250 ms ago
			c.Exec(5)
			smp["alive_at_first_sweep"] = alive
			if ow, _, e2 := tb.QueryName("SHORT"); e2 == nil {
				c.Fail("nbtns.NetBIOSNameServer.clean", "expired-record-survives-sweep", fmt.Sprintf("registered for 250 ms, swept while alive, swept again 500 ms after registration: QueryName still returns %v", ow), smp)
				continue
			}
			if err := tb.RegisterName("SHORT", nbtns.Unique, b, time.Hour); err != nil {
				c.Fail("nbtns.NetBIOSNameServer.register", "expired-name-still-blocks", fmt.Sprintf("after the sweep removed the expired record another address cannot register the name: %v", err), smp)
			}
		}
	}
}

// ntApply performs one operation on the real table and returns the observed result.
func ntApply(tb *nbtns.NetBIOSNameServer, op, n, t, a string, e bool) (ntRes, []net.IP) {
	// the specification knows two classes of ttl (alive / already expired); the concrete value rotates within its class
	turn := atomic.AddInt64(&ntTTLTurn, 1)
	ttl := []time.Duration{time.Hour, 24 * time.Hour, 1 << 62, time.Minute}[turn%4]
	if e {
		ttl = []time.Duration{-time.Hour, -1, -(1 << 62), -time.Minute}[turn%4]
	}
	res := ntRes{Ow: []string{}}
	switch op {
	case "register":
		ty := nbtns.Unique
		if t == "G" {
			ty = nbtns.Group
		}
		res.Err = tb.RegisterName(n, ty, addrOf(a), ttl) != nil
	case "query":
		ow, ty, err := tb.QueryName(n)
		res.Err = err != nil
		res.T = "U"
		if err == nil {
			if ty == nbtns.Group {
				res.T = "G"
			}
			for _, ip := range ow {
				res.Ow = append(res.Ow, tagOf(ip))
			}
			return res, ow
		}
	case "release":
		res.Err = tb.ReleaseName(n, addrOf(a)) != nil
	case "refresh":
		res.Err = tb.RefreshName(n, addrOf(a)) != nil
	case "conflict":
		res.Err = tb.MarkNameConflict(n) != nil
	case "clean":
		tb.CleanExpiredNames()
	}
	return res, nil
}

func resEqual(op string, want, got ntRes) bool {
	if want.Err != got.Err {
		return false
	}
	if op == "query" && !want.Err {
		if want.T != got.T || len(want.Ow) != len(got.Ow) {
			return false
		}
		for i := range want.Ow {
			if want.Ow[i] != got.Ow[i] {
				return false
			}
		}
	}
	return true
}

type handedOut struct {
	slice []net.IP
	snap  []string
	at    int
}

func c17Graph(c *h.Ctx) error {
	ids := map[string]int{}
	var states []map[string]ntRec
	var names []string
	stateID := func(raw json.RawMessage) (int, error) {
		k := string(raw)
		if id, ok := ids[k]; ok {
			return id, nil
		}
		var m map[string]ntRec
		if err := json.Unmarshal(raw, &m); err != nil {
			return 0, err
		}
		for n, r := range m {
			if r.Ow == nil {
				r.Ow = []string{}
				m[n] = r
			}
		}
		ids[k] = len(states)
		states = append(states, m)
		return len(states) - 1, nil
	}
	var edges []ntOp
	err := c.Lines(func(raw []byte) error {
		var e ntEdge
		if err := json.Unmarshal(raw, &e); err != nil {
			return err
		}
		f, err := stateID(e.F)
		if err != nil {
			return err
		}
		t, err := stateID(e.To)
		if err != nil {
			return err
		}
		edges = append(edges, ntOp{op: e.Op, n: e.N, t: e.T, a: e.A, e: e.E, r: e.R, from: f, to: t})
		return nil
	})
	if err != nil {
		return err
	}
	if len(edges) == 0 {
		return fmt.Errorf("no edges")
	}
	for n := range states[0] {
		names = append(names, n)
	}
	sort.Strings(names)
	// the initial state: every name absent
	init := -1
	for i, s := range states {
		all := true
		for _, r := range s {
			if r.P {
				all = false
			}
		}
		if all {
			init = i
			break
		}
	}
	if init < 0 {
		return fmt.Errorf("no initial state among %d states", len(states))
	}
	// BFS spanning tree over the emitted edges
	out := make([][]int, len(states))
	for i, e := range edges {
		out[e.from] = append(out[e.from], i)
	}
	parent := make([]int, len(states))
	for i := range parent {
		parent[i] = -2
	}
	parent[init] = -1
	queue := []int{init}
	for len(queue) > 0 {
		s := queue[0]
		queue = queue[1:]
		for _, ei := range out[s] {
			t := edges[ei].to
			if parent[t] == -2 {
				parent[t] = ei
				queue = append(queue, t)
			}
		}
	}
	pathTo := func(s int) []int {
		var p []int
		for s != init {
			ei := parent[s]
			if ei < 0 {
				return nil
			}
			p = append(p, ei)
			s = edges[ei].from
		}
		for i, j := 0, len(p)-1; i < j; i, j = i+1, j-1 {
			p[i], p[j] = p[j], p[i]
		}
		return p
	}
	unreachable := 0
	maxDepth := 0
	aliasRuns := 0
	pairStride := 1
	if len(states) > 3000 {
		pairStride = 1 + len(states)/1500
	}
	workers := runtime.NumCPU()
	var wg sync.WaitGroup
	ch := make(chan []int, 1024)
	for w := 0; w < workers; w++ {
		wg.Add(1)
		go func() {
			defer wg.Done()
			for path := range ch {
				tb := nbtns.NewNetBIOSNameServer(false)
				var given []handedOut
				for k, pi := range path {
					pe := edges[pi]
					var got ntRes
					var sl []net.IP
					pan := h.Guard(func() { got, sl = ntApply(tb, pe.op, pe.n, pe.t, pe.a, pe.e) })
					c.Exec(1)
					desc := func() map[string]interface{} {
						var hist []string
						for _, qi := range path[:k+1] {
							q := edges[qi]
							hist = append(hist, fmt.Sprintf("%s(%s,%s,%s,%v)", q.op, q.n, q.t, q.a, q.e))
						}
						return map[string]interface{}{"history": hist}
					}
					if pan != "" {
						c.Fail("nbtns.NetBIOSNameServer."+pe.op, "panic", pan, desc())
						break
					}
					if !resEqual(pe.op, pe.r, got) {
						c.Fail("nbtns.NetBIOSNameServer."+pe.op, "result",
							fmt.Sprintf("spec %+v, code %+v", pe.r, got), desc())
					}
					proj := ntProject(tb.VerifSnapshot(), names)
					if !ntEqual(proj, states[pe.to]) {
						c.Fail("nbtns.NetBIOSNameServer."+pe.op, "state",
							fmt.Sprintf("spec %+v, code %+v", states[pe.to], proj), desc())
						break
					}
					for _, g := range given {
						for i := range g.snap {
							if tagOf(g.slice[i]) != g.snap[i] {
								c.Fail("nbtns.NetBIOSNameServer.query", "snapshot-changed",
									fmt.Sprintf("slice returned at step %d read %v, now reads %s at %d after %s", g.at, g.snap, tagOf(g.slice[i]), i, pe.op), desc())
							}
						}
					}
					if sl != nil {
						given = append(given, handedOut{slice: sl, snap: append([]string(nil), got.Ow...), at: k})
					}
				}
			}
		}()
	}
	for ei, e := range edges {
		if e.from != init && parent[e.from] == -2 {
			unreachable++
			continue
		}
		d := len(pathTo(e.from)) + 1
		if d > maxDepth {
			maxDepth = d
		}
		key := ""
		if e.from != e.to || e.op == "query" {
			key = strconv.Itoa(ei)
		}
		c.Case(key)
		base := append(pathTo(e.from), ei)
		ch <- base
		// aliasing: a successful Query followed by every operation enabled in that state, and by every
		// pair of operations (the pair level is subsampled when the graph is large), re-reading the
		// slice the Query handed out after each step.
		if e.op == "query" && !e.r.Err {
			for _, e2 := range out[e.from] {
				if edges[e2].to == e.from {
					continue
				}
				p2 := append(append([]int(nil), base...), e2)
				ch <- p2
				aliasRuns++
				for k3, e3 := range out[edges[e2].to] {
					if edges[e3].to == edges[e2].to || (pairStride > 1 && (ei+e2+k3)%pairStride != 0) {
						continue
					}
					ch <- append(append([]int(nil), p2...), e3)
					aliasRuns++
				}
			}
		}
	}
	close(ch)
	wg.Wait()
	c.Set("query_then_ops_histories", aliasRuns)
	c17SpecialTTLs(c)
	c17ExpiryOverTime(c)
	if unreachable > 0 {
		return fmt.Errorf("%d edges start in states unreachable in the emitted graph", unreachable)
	}
	c.Set("graph_states", len(states))
	c.Set("graph_edges", len(edges))
	c.Set("max_history_len", maxDepth)
	e0 := edges[len(edges)/2]
	c.Sample(map[string]interface{}{"from": states[e0.from], "op": e0.op, "n": e0.n, "t": e0.t, "a": e0.a, "ttl_expired": e0.e, "result": e0.r, "to": states[e0.to]})
	return nil
}

// ---------------------------------------------------------------------------
// c17.conc: concurrent recording

type concEvent struct {
	Tr  int              `json:"tr"`
	Seq int              `json:"seq"`
	G   int              `json:"g"`
	Op  string           `json:"op"`
	N   string           `json:"n"`
	T   string           `json:"t"`
	A   string           `json:"a"`
	E   bool             `json:"e"`
	R   ntRes            `json:"r"`
	St  map[string]ntRec `json:"st"`
}

func goid() int {
	var buf [64]byte
	n := runtime.Stack(buf[:], false)
	f := bytes.Fields(buf[:n])
	id, _ := strconv.Atoi(string(f[1]))
	return id
}

func c17Conc(c *h.Ctx) error {
	traces := c.OptInt("traces", 20)
	gor := c.OptInt("goroutines", 4)
	perG := c.OptInt("ops", 40)
	seed := int64(c.OptInt("seed", 1))
	nNames := c.OptInt("names", 3)
	nAddrs := c.OptInt("addrs", 4)
	disableHook := c.Opt("nohook", "") // name of an op whose hook event is dropped (binding demonstration)
	var names []string
	for i := 1; i <= nNames; i++ {
		names = append(names, "n"+strconv.Itoa(i))
	}
	rng := rand.New(rand.NewSource(seed))

	type hookEv struct {
		seq  int
		gid  int
		op   string
		name string
		st   map[string]ntRec
	}
	var hmu sync.Mutex
	var hooked []hookEv
	nbtns.VerifTableHook = func(n *nbtns.NetBIOSNameServer, op string, name string) {
		if op == disableHook {
			return
		}
		st := ntProject(n.VerifSnapshotLocked(), names)
		g := goid()
		hmu.Lock()
		hooked = append(hooked, hookEv{seq: len(hooked), gid: g, op: op, name: name, st: st})
		hmu.Unlock()
	}
	defer func() { nbtns.VerifTableHook = nil }()

	total, switchTotal := 0, 0
	for tr := 0; tr < traces; tr++ {
		hmu.Lock()
		hooked = hooked[:0]
		hmu.Unlock()
		tb := nbtns.NewNetBIOSNameServer(false)
		type call struct {
			op, n, t, a string
			e           bool
			r           ntRes
		}
		progs := make([][]call, gor)
		ops := []string{"register", "register", "register", "query", "query", "release", "release", "refresh", "conflict", "clean"}
		for g := range progs {
			for k := 0; k < perG; k++ {
				cl := call{op: ops[rng.Intn(len(ops))], n: names[rng.Intn(len(names))], a: "a" + strconv.Itoa(1+rng.Intn(nAddrs))}
				cl.t = []string{"U", "G", "G"}[rng.Intn(3)]
				cl.e = rng.Intn(6) == 0
				switch cl.op {
				case "query", "conflict":
					cl.t, cl.a, cl.e = "", "", false
				case "release", "refresh":
					cl.t, cl.e = "", false
				case "clean":
					cl.n, cl.t, cl.a, cl.e = "", "", "", false
				}
				progs[g] = append(progs[g], cl)
			}
		}
		gids := make([]int, gor)
		var wg sync.WaitGroup
		start := make(chan struct{})
		for g := 0; g < gor; g++ {
			wg.Add(1)
			go func(g int) {
				defer wg.Done()
				gids[g] = goid()
				<-start
				for k := range progs[g] {
					cl := &progs[g][k]
					cl.r, _ = ntApply(tb, cl.op, cl.n, cl.t, cl.a, cl.e)
					if k%7 == 3 {
						runtime.Gosched()
					}
				}
			}(g)
		}
		close(start)
		wg.Wait()
		// join: the k-th hook event of goroutine g belongs to its k-th call
		gix := map[int]int{}
		for g, id := range gids {
			gix[id] = g
		}
		next := make([]int, gor)
		hmu.Lock()
		evs := append([]hookEv(nil), hooked...)
		hmu.Unlock()
		c.Emit([]byte(fmt.Sprintf(`{"tr":%d,"op":"reset"}`, tr)))
		switches, lastG := 0, -1
		for _, ev := range evs {
			if ev.gid != lastG {
				switches++
				lastG = ev.gid
			}
			g, ok := gix[ev.gid]
			if !ok {
				return fmt.Errorf("hook event from unknown goroutine %d", ev.gid)
			}
			k := next[g]
			if disableHook != "" {
				// with a hook disabled the k-th event no longer lines up; skip calls of that op
				for k < len(progs[g]) && progs[g][k].op == disableHook {
					k++
				}
			}
			if k >= len(progs[g]) {
				return fmt.Errorf("more hook events than calls for goroutine %d", g)
			}
			next[g] = k + 1
			cl := progs[g][k]
			if cl.op != ev.op {
				return fmt.Errorf("join mismatch: goroutine %d call %d is %s, hook says %s", g, k, cl.op, ev.op)
			}
			b, _ := json.Marshal(concEvent{Tr: tr, Seq: ev.seq, G: g, Op: cl.op, N: cl.n, T: cl.t, A: cl.a, E: cl.e, R: cl.r, St: ev.st})
			c.Emit(b)
			total++
		}
		c.Case(strconv.Itoa(tr))
		switchTotal += switches
	}
	c.Set("goroutine_switches_in_lock_order", switchTotal)
	c.Exec(total)
	c.Set("events", total)
	c.Set("traces", traces)
	c.Set("goroutines", gor)
	return nil
}
