package drivers

// C18 (NBNS TCP server): client-side schedules from spec/NBNSTcpServer.tla executed against a real nbtns.TCPServer:
// connections left idle, left in the middle of a message, or pipelining requests without reading the replies (so that
// the connection handler is blocked in a write), with Stop called at every point. Stop must return within 3 s.

import (
	"encoding/binary"
	"encoding/json"
	"fmt"
	"io"
	"math/rand"
	"net"
	"time"

	"github.com/TheManticoreProject/Manticore/network/netbios/nbtns"
	"verif/harness/h"
)

func init() { h.Register("c18.tcpsched", c18TCPSched) }

func c18TCPSched(c *h.Ctx) error {
	type edge struct {
		Act string          `json:"act"`
		C   int             `json:"c"`
		F   json.RawMessage `json:"f"`
		T   json.RawMessage `json:"t"`
	}
	ids := map[string]int{}
	id := func(raw json.RawMessage) int {
		k := string(raw)
		if i, ok := ids[k]; ok {
			return i
		}
		ids[k] = len(ids)
		return len(ids) - 1
	}
	var edges []edge
	var from, to []int
	seen := map[string]bool{}
	if err := c.Lines(func(raw []byte) error {
		var e edge
		if err := json.Unmarshal(raw, &e); err != nil {
			return err
		}
		f, t := id(e.F), id(e.T)
		k := fmt.Sprintf("%d|%s|%d|%d", f, e.Act, e.C, t)
		if seen[k] {
			return nil
		}
		seen[k] = true
		edges = append(edges, e)
		from, to = append(from, f), append(to, t)
		return nil
	}); err != nil {
		return err
	}
	paths := coverPaths(len(ids), from, to, rand.New(rand.NewSource(int64(c.OptInt("seed", 1)))), c.OptInt("max", 30))
	shard, shards := c.OptInt("shard", 0), c.OptInt("shards", 1)
	maxRuns := c.OptInt("runs", 0)
	const T = 3 * time.Second
	mkQuery := func(id uint16, name string) []byte {
		p := &nbtns.NBTNSPacket{Header: nbtns.NBTNSHeader{TransactionID: id, Questions: 1},
			Questions: []nbtns.NBTNSQuestion{{Name: &nbtns.NetBIOSName{Name: name}, Type: 0x20, Class: 1}}}
		b, _ := p.Marshal()
		return append([]byte{byte(len(b) >> 8), byte(len(b))}, b...)
	}
	runs, steps := 0, 0
	for pi, p := range paths {
		if pi%shards != shard || (maxRuns > 0 && runs >= maxRuns) {
			continue
		}
		runs++
		var history []string
		sample := func() map[string]interface{} { return map[string]interface{}{"schedule": append([]string(nil), history...)} }
		table := nbtns.NewNetBIOSNameServer(false)
		table.RegisterName("HOST01", nbtns.Unique, net.IPv4(10, 0, 0, 1), time.Hour)
		for i := 0; i < 200; i++ {
			table.RegisterName("BIGGROUP", nbtns.Group, net.IPv4(10, 1, byte(i/250), byte(1+i%250)), time.Hour)
		}
		srv, err := nbtns.NewTCPServer("127.0.0.1:0", table)
		if err != nil {
			return err
		}
		if err := srv.Start(); err != nil {
			return err
		}
		conns := map[int]net.Conn{}
		partial := map[int][]byte{}
		var stopDone chan struct{}
		ok := true
		for _, ei := range p {
			if !ok {
				break
			}
			e := edges[ei]
			history = append(history, fmt.Sprintf("%s(%d)", e.Act, e.C))
			steps++
			switch e.Act {
			case "connect":
				cn, err := net.Dial("tcp", srv.VerifAddr().String())
				if err != nil {
					return err
				}
				cn.(*net.TCPConn).SetReadBuffer(2048)
				conns[e.C] = cn
				time.Sleep(5 * time.Millisecond) // let the server accept and start the handler
			case "part":
				q := mkQuery(uint16(0x2000+e.C), "HOST01")
				conns[e.C].Write(q[:3])
				partial[e.C] = q[3:]
				time.Sleep(5 * time.Millisecond)
			case "exchange":
				cn := conns[e.C]
				if rest, mid := partial[e.C]; mid {
					cn.Write(rest)
					delete(partial, e.C)
				} else {
					cn.Write(mkQuery(uint16(0x2000+e.C), "HOST01"))
				}
				cn.SetReadDeadline(time.Now().Add(T))
				lb := make([]byte, 2)
				if _, err := io.ReadFull(cn, lb); err != nil {
					c.Fail("nbtns.TCPServer.handleConnection", "reply-missing", fmt.Sprintf("connection %d: no reply: %v", e.C, err), sample())
					ok = false
					break
				}
				b := make([]byte, binary.BigEndian.Uint16(lb))
				io.ReadFull(cn, b)
				var pk nbtns.NBTNSPacket
				if _, err := pk.Unmarshal(b); err != nil || int(pk.Header.TransactionID) != 0x2000+e.C || len(pk.Answers) != 1 {
					c.Fail("nbtns.TCPServer.handleMessage", "reply-content", fmt.Sprintf("connection %d: reply id %#x, %d answers, err %v", e.C, pk.Header.TransactionID, len(pk.Answers), err), sample())
				}
			case "flood":
				// pipeline large-reply queries without reading until our own writes stall: by then the server's handler
				// is blocked writing replies nobody reads
				cn := conns[e.C]
				q := mkQuery(uint16(0x3000+e.C), "BIGGROUP")
				burst := make([]byte, 0, len(q)*64)
				for i := 0; i < 64; i++ {
					burst = append(burst, q...)
				}
				stalled := false
				for i := 0; i < 4000 && !stalled; i++ {
					cn.SetWriteDeadline(time.Now().Add(250 * time.Millisecond))
					if _, err := cn.Write(burst); err != nil {
						stalled = true
					}
				}
				if !stalled {
					c.Set("tcp_flood_never_stalled", true) // no verdict possible for this schedule
					ok = false
				}
			case "stop":
				stopDone = make(chan struct{})
				go func() { srv.Stop(); close(stopDone) }()
			case "stopret":
				select {
				case <-stopDone:
				case <-time.After(T):
					c.Fail("nbtns.TCPServer.Stop", "stop-hang", "Stop did not return within 3 s (connections idle / mid-message / handler blocked in a write as per the schedule)", sample())
					ok = false
				}
			}
		}
		for _, cn := range conns {
			cn.Close()
		}
		if stopDone == nil {
			stopDone = make(chan struct{})
			go func() { srv.Stop(); close(stopDone) }()
		}
		select {
		case <-stopDone:
		case <-time.After(35 * time.Second): // let a wedged server drain (its write timeout is 30 s) before the next run
		}
		c.Case(fmt.Sprintf("tcp:%d", pi))
		if runs == 1 {
			c.Sample(sample())
		}
	}
	c.Exec(steps)
	c.Set("schedules", runs)
	c.Set("graph_edges", len(edges))
	c.Set("graph_states", len(ids))
	return nil
}
